"""C01 - binary record files reproduce the written table bit-for-bit.

design level : SFileFormatMC.tla - the character-level header mechanism (writer: SIZE line, pprint'ed
               dict, END, blank line; reader: terminator scanner, line split, lexer/evaluator) refines
               DataStart(Write(h)) = Len(HeaderBytes(h)) and ParseDict(lines) = h over every header of the
               bounded token space; the pinned scanner (first E,N,D anywhere) must violate it (self-test).
               BinRoundTripMC.tla - the property-level file state machine (write replaces, every reader
               returns the table / the header), cross-entry agreement, last write wins.
spec -> code : every header case of SFileFormatMC and every dtype/entry-point case of BinRoundTripMC
               (exhaustive one- and two-field catalogue, -simulate 3..6-field dtypes) is executed against
               the real esutil: written through one entry point, read back through every reading entry point.
code -> spec : what the readers returned (plus seeded larger random dtypes / headers / names) is projected
               onto the vocabulary of BinRoundTrip.tla (field descriptors, row tokens, header key/value ids)
               and judged by BinRoundTripTrace.tla under TLC.
world level  : BinRoundTripWorldMC.tla - sessions of calls in ONE process over twin files (byte-identical header text,
               different row counts), a file with the same column names / row size and other types, a header-less file,
               two 'r+' handle objects (1-d and 2-d chunks appended, then read through the writing handle), results kept
               and scribbled over by the caller, one read-only view re-used after its base changed.  Invariants: every
               call returns its fresh-world outcome, kept results stay as handed out.  The faithful mechanism satisfies
               them exhaustively (<= MaxSteps calls); a header memo keyed on the header text and a handle counting
               len(chunk) must violate them (self-tests).  -simulate exports sessions; each is executed in a forked
               process of its own and replayed through BinRoundTripWorld.tla by BinRoundTripWorldTrace.tla.
Python never judges: it maps abstract <-> concrete and records.
"""
import atexit
import collections
import hashlib
import json
import os
import pickle
import random
import selectors
import shutil
import signal
import struct
import sys
import tempfile
import time
from concurrent.futures import ThreadPoolExecutor

import numpy as np

from .. import tracecheck
from ..core import MachineryError
from ..tlc import cfg

NEEDS_EXT = True

TOKS = {"END": "END", "SIZE": "SIZE", "sq": "'", "dq": '"', "nl": "\n", "eq": "=", "bs": "\\", "sp": " "}
ALPHABET = {"END", "SIZE", "sq", "dq", "nl", "eq", "bs", "a"}

HDR_WRITERS = ("SFile.write", "sfile.write", "sfile.write(data,file)", "io.write")
RAW_WRITERS = ("Recfile.write", "recfile.write")
WRITERS = HDR_WRITERS + RAW_WRITERS
SELF_READERS = ("SFile.read", "SFile[:]", "SFile.reopen", "sfile.read", "io.read")
GIVEN_READERS = ("Recfile.read", "Recfile.read(nrows)", "Recfile[:]", "recfile.read", "io.read(dtype)")
RESERVED = ("_size", "_nrows", "_delim", "_shape", "_has_fields", "_dtype", "_version")

# ---- header catalogue: the concrete meaning of the header ids of BinRoundTripMC (0 = no header argument) ----
HEADERS = [
    None,
    {},
    {"k": 1, "pct": "100%% %d%5.1f %%"},
    {"note": "THE END"},
    {"END": "END", "SIZE": "SIZE = 3", "size": 5},
    {"q": "it's \"q\"\n", "nl": "a\nEND\nb"},
    {"t": "\nEND\n", "e": "=", "": ""},
    {"nest": {"a": [1, 2.5, None, "x"], "t": (True, b"by\x00\xff")}, "date": "2007-05-12", "age": 33},
    {"ints": [0, -1, 2 ** 31, -2 ** 63, 2 ** 70], "floats": [0.1, -0.0, 1e300, 5e-324, 1.7976931348623157e308, -2.5e-7]},
    {"b": b"END\n'\"\\", "n": None, "t": True, "f": False},
    {"long": "x" * 200},
    {"wrap": "word " * 40, "wrapb": b"\x00\x01ab" * 40},
    {"lines": "line\n" * 12, "endlines": "END\n" * 30},
    {"list": list(range(60)), "strs": ["END"] * 40},
    {"deep": [[("a", ("b", ["c", {"d": ({"e": []},)}]))]]},
    {"u": "é日本 \x85 ", "é": 1},
    {"_x": -7, "keep": "y"},
    {"a=b": "c=d", "SIZE = 5": "SIZE =                    5", "=": "=="},
    {"bs": "a\\nb\\", "q2": "\\'", "q3": '\\"', "q4": "'\"'\""},
    {"tup": (1,), "e": (), "l": [], "d": {}, "s": "", "tt": ((),), "n1": [None]},
    dict(("k%02d" % i, i) for i in range(30)),
    {"mixedkeys": {1: "a", "b": 2, None: 3, (1, 2): 4, 2.5: 5}},
    {"ctrl": "\x00\x01\t\r\x0b\x0c\x1b\x7f", "surrogate": "\ud800", "hash": "# not a comment", "br": "{[(", "arr": "array([1])"},
    {"END\n": "\n", "\nEND": "END\n\n", "'": '"', '"': "'", "\n": "\nEND\n\nEND\n"},
    {"pinf": float("inf"), "ninf": float("-inf"), "nan": float("nan"), "big": 1e308},
    {"nested": [float("inf"), (float("nan"), -0.0), {"k": float("-inf"), "n": [float("nan"), "nan", "inf"]}], "s": "inf nan"},
]

TIERS = {
    "quick": dict(
        fmt=dict(KeyLen=1, ValLen=2, TwoKeys=True, SecondToks={"END", "dq"}, NRows={1}),
        brt=dict(RowCounts={1, 2, 5}, CrossIO=False, MaxFields=6, BigItems={12, 20}, BigExps={24}, MaxHist=8, HistEvery=3),
        sim=400, random=1500, world=dict(MaxSteps=4, sessions=260, depth=12)),
    "thorough": dict(
        fmt=dict(KeyLen=2, ValLen=2, TwoKeys=True, SecondToks=set(ALPHABET), NRows={25}),
        brt=dict(RowCounts={1, 2, 5}, CrossIO=True, MaxFields=6, BigItems={3, 8, 12, 16, 20, 24}, BigExps={24, 25},
                 MaxHist=30, HistEvery=4),
        sim=20000, random=20000, world=dict(MaxSteps=5, sessions=4000, depth=16)),
}


# =========================================== abstract -> concrete ============================================
def word(toks):
    return "".join(TOKS.get(t, t) for t in toks)


def value_of(spec):
    """value specification exported by SFileFormatMC -> Python object"""
    if spec["t"] == "str":
        return word(spec["w"])
    items = [value_of(s) for s in spec["items"]]
    return items if spec["t"] == "list" else tuple(items)


def np_code(f):
    k, sz = f["kind"], int(f["size"])
    o = {"lt": "<", "gt": ">", "na": "|"}[f["order"]]
    if k == "S":
        return "|S%d" % sz
    if k == "b":
        return "|b1"
    return "%s%s%d" % (o, k, sz)


def np_dtype(descr):
    out = []
    for f in descr:
        sh = tuple(int(x) for x in f["shape"])
        out.append((f["name"], np_code(f), sh) if sh else (f["name"], np_code(f)))
    return np.dtype(out)


_F8 = [0x7FF8000000000001, 0xFFF0DEADBEEF0001, 0x7FF0000000000001, 0x8000000000000000, 0x7FF0000000000000,
       0xFFF0000000000000, 0x0000000000000001, 0x7FEFFFFFFFFFFFFF, 0x0000000000000000, 0xFFFFFFFFFFFFFFFF]
_F4 = [0x7FC00001, 0xFFC0BEEF, 0x7F800001, 0x80000000, 0x7F800000, 0xFF800000, 0x00000001, 0x7F7FFFFF, 0, 0xFFFFFFFF]


def _float_bytes(sz, rng):
    if rng.random() < 0.6:
        return struct.pack("<Q", rng.choice(_F8)) if sz == 8 else struct.pack("<I", rng.choice(_F4))
    return bytes(rng.getrandbits(8) for _ in range(sz))


def _elem_bytes(k, sz, rng):
    """value bytes of one element, little-endian"""
    if k == "f":
        return _float_bytes(sz, rng)
    if k == "c":
        return _float_bytes(sz // 2, rng) + _float_bytes(sz // 2, rng)
    if k == "b":
        return bytes([rng.getrandbits(1)])
    if k in "iu":
        if rng.random() < 0.6:
            return rng.choice([b"\xff" * sz, b"\x00" * (sz - 1) + b"\x80", b"\xff" * (sz - 1) + b"\x7f", b"\x00" * sz,
                               b"\x01" + b"\x00" * (sz - 1), b"\x0a" * sz])
        return bytes(rng.getrandbits(8) for _ in range(sz))
    if k == "S":
        r = rng.random()
        if r < 0.6:
            pats = [b"\x00" * sz, b"a" + b"\x00" * (sz - 1), b"\x00" * (sz - 1) + b"z", (b"a\x00b\x00c" * sz)[:sz],
                    (b"END\n" * sz)[:sz], (b"\nEND\n\n" * sz)[:sz], b"\xff" * sz, (b"SIZE = 1" * sz)[:sz], b" " * sz]
            return rng.choice(pats)
        return bytes(rng.getrandbits(8) for _ in range(sz))
    raise MachineryError("unknown kind %r" % k)


def build_array(descr, nrows, pat):
    """the table a case stands for: adversarial byte patterns (NaN payloads, -0.0, infinities, integer extremes,
    embedded NULs ...), deterministic in (descr, nrows, pat)"""
    dt = np_dtype(descr)
    rows = []
    for r in range(nrows):
        rng = random.Random("c01:%d:%d:%s" % (pat, r, dt.descr))
        raw = bytearray()
        for f in descr:
            k, sz = f["kind"], int(f["size"])
            nel = 1
            for s in f["shape"]:
                nel *= int(s)
            for _ in range(nel):
                b = _elem_bytes(k, sz, rng)
                if f["order"] == "gt":
                    b = (b[:sz // 2][::-1] + b[sz // 2:][::-1]) if k == "c" else b[::-1]
                raw += b
        rows.append(bytes(raw))
    if len(b"".join(rows)) != dt.itemsize * nrows:
        raise MachineryError("dtype %s is not packed as assumed" % dt)
    return np.frombuffer(b"".join(rows), dtype=dt).copy()


LAYOUTS = ("contig", "step2", "reversed", "column2d", "zerod", "table2d")


def lay_out(a, layout, descr, pat):
    """the same rows in another memory layout: a view into a larger / differently ordered buffer whose other rows
    are decoys (so that rows taken from the buffer instead of the array as indexed are seen)"""
    n = a.size
    if layout == "contig":
        return a
    if layout == "zerod":
        if n != 1:
            raise MachineryError("a 0-d array has one row")
        return a.reshape(())
    if layout == "table2d":
        # a 2-d table: its rows are its elements; first axis shorter than the row count wherever n allows it
        return a.reshape((2, n // 2) if n % 2 == 0 else ((1, n) if pat % 2 == 0 else (n, 1)))
    decoy = build_array(descr, 2 * n, pat + 7919)
    if layout == "step2":
        buf = np.empty(2 * n, dtype=a.dtype)
        buf[1::2] = decoy[:n]
        buf[::2] = a
        v = buf[::2]
    elif layout == "reversed":
        buf = a[::-1].copy()
        v = buf[::-1]
    elif layout == "column2d":
        buf = np.empty((n, 3), dtype=a.dtype)
        buf[:, 0] = decoy[:n]
        buf[:, 2] = decoy[n:]
        buf[:, 1] = a
        v = buf[:, 1]
    else:
        raise MachineryError("unknown layout %r" % layout)
    if v.tobytes() != a.tobytes() or (n > 1 and v.flags["C_CONTIGUOUS"]):
        raise MachineryError("layout %s was not constructed as intended" % layout)
    return v


def build_big_array(descr, n, pat):
    """a big table with a counter pattern (vectorised): the first bytes of row i hold i little-endian, the others
    depend on (i, column) - a row shifted by any number of bytes, or moved, is visible"""
    dt = np_dtype(descr)
    isz = dt.itemsize
    if any(f["kind"] == "b" for f in descr):
        raise MachineryError("big tables are generated without bool fields")
    i = np.arange(n, dtype=np.uint64)
    raw = np.empty((n, isz), dtype=np.uint8)
    for j in range(isz):
        if j < 4:
            raw[:, j] = (i >> np.uint64(8 * j)) & np.uint64(0xFF)
        else:
            raw[:, j] = (i * np.uint64(31 + 2 * j) + np.uint64(7 * j + pat)) & np.uint64(0xFF)
    return raw.reshape(-1).view(dt)


def case_n(case):
    return int(case.get("n", case["nrows"]))


def case_block(case):
    return int(case.get("block", 1))


def case_array(case):
    if case_block(case) > 1:
        return build_big_array(case["descr"], case_n(case), case.get("pat", 0))
    a = build_array(case["descr"], case["nrows"], case.get("pat", 0))
    return lay_out(a, case.get("layout", "contig"), case["descr"], case.get("pat", 0))


def _block_key(flat, i, block):
    b = flat[i:i + block].tobytes()
    return b if block == 1 else hashlib.blake2b(b, digest_size=16).digest()


def row_tokens(a, block=1):
    """row byte patterns -> tokens (equal bytes <=> equal token), and the lookup table; with block > 1 a token
    stands for `block` consecutive rows (compared by digest)"""
    tab, toks = {}, []
    flat = np.ascontiguousarray(a).reshape(-1)
    for i in range(0, flat.size, block):
        toks.append(tab.setdefault(_block_key(flat, i, block), len(tab) + 1))
    return toks, tab


# =========================================== concrete -> abstract ============================================
def project_dtype(dt):
    """numpy dtype -> field descriptors of BinRoundTrip.tla"""
    if dt.names is None:
        return [{"name": "?", "kind": dt.kind, "size": int(dt.itemsize), "shape": [], "order": "na"}]
    out = []
    for name in dt.names:
        ft = dt.fields[name][0]
        base = ft.base
        bo = base.byteorder
        if bo == "=":
            bo = "<" if np.little_endian else ">"
        out.append({"name": name, "kind": base.kind, "size": int(base.itemsize), "shape": [int(x) for x in ft.shape],
                    "order": {"<": "lt", ">": "gt", "|": "na"}[bo]})
    return out


def project_rows(data, tab, block=1):
    flat = np.ascontiguousarray(data).reshape(-1)
    return [tab.get(_block_key(flat, i, block), 0) for i in range(0, flat.size, block)]


def safe_eq(a, b):
    """the statement's "equal value": Python ==; a float nan is matched by a float nan (nan == nan is False, so
    equality cannot be demanded of nan itself), also inside lists / tuples / dicts"""
    try:
        if bool(a == b):
            return True
        if isinstance(a, float) and isinstance(b, float):
            return a != a and b != b
        if type(a) is type(b) and isinstance(a, (list, tuple)):
            return len(a) == len(b) and all(safe_eq(x, y) for x, y in zip(a, b))
        if isinstance(a, dict) and isinstance(b, dict):
            return len(a) == len(b) and all(k in b and safe_eq(v, b[k]) for k, v in a.items())
        return False
    except Exception:  # noqa
        return False


def project_header(h, user):
    """header dict read back -> [present, size, dtype_ok, descr, ents]; a value gets the id of the written value
    of the same key when it is equal to it (Python ==, the statement's "equal value"), else 0"""
    if not isinstance(h, dict):
        return {"present": True, "size": -1, "dtype_ok": False, "descr": [], "ents": []}
    size = h.get("_SIZE", -1)
    if isinstance(size, bool) or not isinstance(size, (int, np.integer)) or not (0 <= size < 2 ** 31):
        size = -1
    try:
        descr, ok = project_dtype(np.dtype(h["_DTYPE"])), True
    except Exception:  # noqa
        descr, ok = [], False
    ents = []
    for i, (k, v) in enumerate(user, 1):
        if k in h:
            ents.append({"k": i, "v": i if safe_eq(h[k], v) else 0})
    return {"present": True, "size": int(size), "dtype_ok": ok, "descr": descr, "ents": ents}


NO_HDR = {"present": False, "size": -1, "dtype_ok": False, "descr": [], "ents": []}


def strict_equal(a, b):
    """== that also distinguishes types (informational only)"""
    if type(a) is not type(b):
        return False
    if isinstance(a, dict):
        return a.keys() == b.keys() and all(strict_equal(a[k], b[k]) for k in a)
    if isinstance(a, (list, tuple)):
        return len(a) == len(b) and all(strict_equal(x, y) for x, y in zip(a, b))
    if isinstance(a, float):
        return (a != a and b != b) or struct.pack("<d", a) == struct.pack("<d", b)
    return a == b


# =========================================== the real code =====================================================
_SESSION = {"root": None, "pid": None, "dir": None}


def _session_root():
    if _SESSION["root"] is None:
        base = "/dev/shm" if os.path.isdir("/dev/shm") and os.access("/dev/shm", os.W_OK) else None
        _SESSION["root"] = tempfile.mkdtemp(prefix="vh-c01-", dir=base)
        atexit.register(shutil.rmtree, _SESSION["root"], True)
    return _SESSION["root"]


def _process_dir():
    if _SESSION["pid"] != os.getpid():
        _SESSION["pid"] = os.getpid()
        _SESSION["dir"] = tempfile.mkdtemp(prefix="w%d-" % os.getpid(), dir=_session_root())
    return _SESSION["dir"]


_HDR_NAMES = {"__builtins__": {}, "inf": float("inf"), "nan": float("nan")}


def header_of(case):
    """the header of a case is carried as its repr (finite literals, inf, nan)"""
    return eval(case["hdr"], dict(_HDR_NAMES)) if case.get("hdr") is not None else None   # noqa: S307 - our own text


def do_write(writer, path, a, hdr):
    from esutil import sfile, recfile
    import esutil.io as eio
    kw = {} if hdr is None else {"header": hdr}
    if writer == "SFile.write":
        with sfile.SFile(path, "w") as sf:
            sf.write(a, **kw)
    elif writer == "sfile.write":
        sfile.write(path, a, **kw)
    elif writer == "sfile.write(data,file)":
        sfile.write(a, path, **kw)
    elif writer == "io.write":
        eio.write(path, a, **kw)
    elif writer == "Recfile.write":
        with recfile.Recfile(path, "w") as r:
            r.write(a)
    elif writer == "recfile.write":
        recfile.write(path, a)
    else:
        raise MachineryError("unknown writer %r" % writer)


def do_read(reader, path, dtype, nrows, off, variant, reuse):
    """-> (data, header or None)"""
    from esutil import sfile, recfile
    import esutil.io as eio
    dt = dtype if variant % 2 == 0 else dtype.descr
    if reader == "SFile.read":
        with sfile.SFile(path) as sf:
            return sf.read(header=True)
    if reader == "SFile[:]":
        with sfile.SFile(path) as sf:
            d = sf[:]
            return d, dict(sf.get_header())
    if reader == "SFile.reopen":
        reuse.open(path)
        try:
            return reuse.read(header=True)
        finally:
            reuse.close()
    if reader == "sfile.read":
        if variant % 2 == 0:
            return sfile.read(path, header=True)
        return sfile.read(path), sfile.read_header(path)
    if reader == "io.read":
        if variant % 2 == 0:
            return eio.read(path, header=True)
        return eio.read(path), eio.read_header(path)
    if reader == "Recfile.read":
        with recfile.Recfile(path, dtype=dt, offset=off) as r:
            return r.read(), None
    if reader == "Recfile.read(nrows)":
        with recfile.Recfile(path, mode="r", dtype=dt, offset=off, nrows=int(nrows)) as r:
            return r.read(), None
    if reader == "Recfile[:]":
        with recfile.Recfile(path, dtype=dt, offset=off) as r:
            return r[:], None
    if reader == "recfile.read":
        return recfile.read(path, dt, offset=off), None
    if reader == "io.read(dtype)":
        return eio.read(path, dtype=dt, offset=off), None
    raise MachineryError("unknown reader %r" % reader)


def do_append(hmode, path, chunk, handle):
    from esutil import sfile
    import esutil.io as eio
    if hmode == "handle":
        handle.write(chunk)
    elif hmode == "reopen":
        with sfile.SFile(path, "r+") as sf:
            sf.write(chunk)
    elif hmode == "sfile.append":
        sfile.write(path, chunk, append=True)
    elif hmode == "io.append":
        eio.write(path, chunk, append=True)
    else:
        raise MachineryError("unknown history mode %r" % hmode)


def run_history(case, path, a, hdr, tab):
    """first write, then every step of the history (an append of the file's dtype or of another one); a call that
    raises is recorded as 'rejected' and the history goes on, as a caller that catches the exception would.
    -> the steps as observed [descr, k, rows, out]"""
    from esutil import sfile
    steps = []
    handle = None
    try:
        if case["hmode"] == "handle":
            handle = sfile.SFile(path, "w")
            handle.write(a, **({} if hdr is None else {"header": hdr}))
        else:
            do_write(case["writer"], path, a, hdr)
        for i, st in enumerate(case["steps"]):
            chunk = build_array(st["descr"], st["k"], case.get("pat", 0) + 1000 * (i + 1))
            same = chunk.dtype == a.dtype
            out = "ok"
            try:
                do_append(case["hmode"], path, chunk, handle)
            except MachineryError:
                raise
            except Exception:  # noqa
                out = "rejected"
            flat = chunk.reshape(-1)
            rows = [tab.setdefault(flat[j:j + 1].tobytes(), len(tab) + 1) for j in range(flat.size)] if same else []
            steps.append({"descr": project_dtype(chunk.dtype), "k": int(st["k"]), "rows": rows, "out": out})
    finally:
        if handle is not None:
            handle.close()
    return steps


def _write_only(case, path, reuse):
    """the predecessor of a unit: written (and opened through the re-used handle) on the same path, not judged"""
    try:
        a = case_array(case)
        do_write(case["writer"], path, a, header_of(case))
        if case["writer"] in HDR_WRITERS:
            reuse.open(path)
            reuse.read(header=True)
    except MachineryError:
        raise
    except Exception:  # noqa
        pass


def exec_unit(args):
    """(id, prev case | None, case) -> record.  One path and one re-used SFile object per unit: the predecessor is
    written there first, so that anything leaking from an earlier file or an earlier open shows in the case."""
    rid, prev, case = args
    from esutil import sfile
    path = os.path.join(_process_dir(), "t.rec")
    reuse = sfile.SFile()
    try:
        if os.path.exists(path):
            os.unlink(path)
        if prev is not None:
            _write_only(prev, path, reuse)
        a = case_array(case)
        hdr = header_of(case)
        user = list(hdr.items()) if hdr else []
        block = case_block(case)
        toks, tab = row_tokens(a, block)
        before = a.tobytes() if block == 1 else None
        rec = {"id": rid, "case": case, "prev": prev,
               "c": {"writer": case["writer"], "layout": case.get("layout", "contig"), "descr": project_dtype(a.dtype),
                     "n": int(a.size), "block": case_block(case), "rows": toks, "steps": [],
                     "hdr": {"given": hdr is not None,
                             "ents": [{"k": i, "v": i, "reserved": k.startswith("_")} for i, (k, _) in enumerate(user, 1)]}},
               "w": {"err": "none"}, "obs": [], "groups": [], "raw": {"seen": False, "n": 0, "rows": []}, "info": {}}
        if rec["c"]["descr"] != [dict(f, shape=[int(x) for x in f["shape"]], size=int(f["size"])) for f in case["descr"]]:
            raise MachineryError("dtype construction does not match the case: %s vs %s" % (rec["c"]["descr"], case["descr"]))
        hist = bool(case.get("steps"))
        try:
            if hist:
                rec["c"]["steps"] = run_history(case, path, a, hdr, tab)
            else:
                do_write(case["writer"], path, a, hdr)
        except MachineryError:
            raise
        except Exception as e:  # noqa
            rec["w"] = {"err": type(e).__name__, "msg": str(e)[:200]}
            return rec
        rec["info"]["arg_unchanged"] = (before is None or a.tobytes() == before)
        size = os.path.getsize(path)
        # data region: the tail of a header file; the whole of a header-less file (read with the default offset 0)
        if hist:
            # the header of a file that is appended to keeps its length: measure it on a sibling file holding the
            # first table only; the row count the low-level readers are given comes from the file size
            from esutil import sfile
            sib = path + ".first"
            try:
                sfile.write(sib, a, **({} if hdr is None else {"header": hdr}))
                off = os.path.getsize(sib) - a.nbytes
            finally:
                if os.path.exists(sib):
                    os.unlink(sib)
            nraw = (size - off) // a.dtype.itemsize if (size - off) % a.dtype.itemsize == 0 else -1
        else:
            off = size - a.nbytes if case["writer"] in HDR_WRITERS else 0
            nraw = int(a.size) if size - off == a.nbytes else -1
        with open(path, "rb") as f:
            blob = f.read()
        if off >= 0 and nraw >= 0:
            try:
                rec["raw"] = {"seen": True, "n": int(nraw),
                              "rows": project_rows(np.frombuffer(blob[off:], dtype=a.dtype), tab, block)}
            except Exception:  # noqa
                rec["raw"] = {"seen": True, "n": 0, "rows": []}
        else:
            rec["raw"] = {"seen": True, "n": 0, "rows": []}
        rec["info"]["hlen"] = off
        rec["info"]["ends_with_END"] = blob[:max(off, 0)].endswith(b"\nEND\n\n")
        del blob
        readers = (SELF_READERS + GIVEN_READERS) if case["writer"] in HDR_WRITERS else GIVEN_READERS
        for j, reader in enumerate(readers):
            o = {"reader": reader, "err": "none", "descr": [], "n": 0, "rows": [], "hdr": NO_HDR}
            try:
                d, h = do_read(reader, path, a.dtype, max(nraw, 1), max(off, 0), case.get("pat", 0) + j, reuse)
                if not isinstance(d, np.ndarray):
                    o["err"] = "not_an_array"
                else:
                    o["descr"] = project_dtype(d.dtype)
                    o["n"] = int(d.size)
                    o["rows"] = project_rows(d, tab, block)
                    if h is not None:
                        o["hdr"] = project_header(h, user)
                        if isinstance(h, dict) and not all(k in h and strict_equal(h[k], v) for k, v in user):
                            rec["info"]["type_drift"] = True
            except MachineryError:
                raise
            except Exception as e:  # noqa
                o["err"] = type(e).__name__
                o["msg"] = str(e)[:200]
            rec["obs"].append(o)
        rec["groups"] = group_obs(rec["obs"])
        # keep the record small (a thorough run holds > 10^5 of them): the observations live in the groups
        rec["obs"] = [{"reader": o["reader"], "err": o["err"], "msg": o.get("msg", "")} for o in rec["obs"]]
        return rec
    finally:
        try:
            reuse.close()
        except Exception:  # noqa
            pass
        try:
            os.unlink(path)
        except OSError:
            pass


def group_obs(obs):
    """entry points that returned exactly the same thing share one observation (readers = their names)"""
    groups, index = [], {}
    for o in obs:
        key = json.dumps([o["err"], o["descr"], o["n"], o["rows"], o["hdr"]], sort_keys=True)
        if key not in index:
            index[key] = len(groups)
            groups.append({"readers": [], "err": o["err"], "descr": o["descr"], "n": o["n"], "rows": o["rows"], "hdr": o["hdr"]})
        groups[index[key]]["readers"].append(o["reader"])
    return groups


def slim(r):
    return {"id": r["id"], "c": r["c"], "w": {"err": r["w"]["err"]}, "obs": r["groups"], "raw": r["raw"]}


def _child(fn, chunk, wfd):
    try:
        try:
            out = ("ok", [fn(x) for x in chunk])
        except MachineryError as e:
            out = ("machinery", str(e))
        except BaseException as e:  # noqa
            out = ("machinery", "unexpected %s in worker: %s" % (type(e).__name__, e))
        with os.fdopen(wfd, "wb") as f:
            f.write(pickle.dumps(out))
        os._exit(0)
    except BaseException:  # noqa
        os._exit(3)


def robust_map(fn, items, on_crash, chunk=None):
    """fork-parallel map that survives the death of the interpreter inside the code under test (a segfault in the
    C++ layer is an outcome to be recorded, not a hang of the check): chunks run in forked children; a chunk whose
    child dies or stalls is re-run item by item, and the item that kills its child is recorded by on_crash(item, why).
    The C++ layer prints diagnostics on fd 2: silenced in the children."""
    items = list(items)
    if not items:
        return []
    nproc = max(1, min(16, os.cpu_count() or 1, int(os.environ.get("VH_MAX_WORKERS", "16"))))
    chunk = chunk or max(1, min(200, len(items) // (nproc * 4) or 1))
    pending = collections.deque(((i, 0), items[i:i + chunk]) for i in range(0, len(items), chunk))
    running, results = {}, {}
    sel = selectors.DefaultSelector()
    try:
        while pending or running:
            while pending and len(running) < nproc:
                key, ch = pending.popleft()
                rfd, wfd = os.pipe()
                sys.stdout.flush()
                sys.stderr.flush()
                pid = os.fork()
                if pid == 0:
                    os.close(rfd)
                    dn = os.open(os.devnull, os.O_WRONLY)
                    os.dup2(dn, 2)
                    _child(fn, ch, wfd)
                os.close(wfd)
                running[rfd] = [pid, key, ch, bytearray(), time.time() + 120 + 3 * len(ch)]
                sel.register(rfd, selectors.EVENT_READ)
            done = []
            for k, _ in sel.select(timeout=1.0):
                data = os.read(k.fd, 1 << 20)
                if data:
                    running[k.fd][3] += data
                else:
                    done.append((k.fd, None))
            now = time.time()
            for fd, st in list(running.items()):
                if now > st[4] and all(fd != d[0] for d in done):
                    try:
                        os.kill(st[0], signal.SIGKILL)
                    except OSError:
                        pass
                    done.append((fd, "no result after %d s" % (120 + 3 * len(st[2]))))
            for fd, why in done:
                sel.unregister(fd)
                os.close(fd)
                pid, key, ch, buf, _ = running.pop(fd)
                _, status = os.waitpid(pid, 0)
                out = None
                if why is None and status == 0:
                    try:
                        out = pickle.loads(bytes(buf))
                    except Exception:  # noqa
                        out = None
                if out is not None and out[0] == "machinery":
                    raise MachineryError(out[1])
                if out is not None:
                    results[key] = out[1]
                elif len(ch) == 1:
                    why = why or ("killed by signal %d" % (status & 0x7f) if status & 0x7f else "exit status %d" % (status >> 8))
                    results[key] = [on_crash(ch[0], why)]
                else:
                    for j, x in enumerate(ch):
                        pending.appendleft(((key[0], j + 1), [x]))
    finally:
        for fd, st in running.items():
            try:
                os.kill(st[0], signal.SIGKILL)
                os.waitpid(st[0], 0)
                os.close(fd)
            except OSError:
                pass
    return [r for key in sorted(results) for r in results[key]]


def crash_record(unit, why):
    """the record of a unit during which the interpreter died"""
    rid, prev, case = unit
    a = case_array(case)
    hdr = header_of(case)
    user = list(hdr.items()) if hdr else []
    toks, _ = row_tokens(a, case_block(case))
    rec = {"id": rid, "case": case, "prev": prev,
           "c": {"writer": case["writer"], "layout": case.get("layout", "contig"), "descr": project_dtype(a.dtype),
                     "n": int(a.size), "block": case_block(case), "rows": toks, "steps": [],
                 "hdr": {"given": hdr is not None,
                         "ents": [{"k": i, "v": i, "reserved": k.startswith("_")} for i, (k, _) in enumerate(user, 1)]}},
           "w": {"err": "crashed", "msg": why}, "obs": [], "raw": {"seen": False, "n": 0, "rows": []}, "info": {}}
    rec["groups"] = []
    return rec


def _crash_with_prev(unit, why):
    """a unit died: if the case alone survives, the predecessor killed it (it is judged in its own unit)"""
    rid, prev, case = unit
    if prev is None:
        return crash_record(unit, why)
    rec = robust_map(_light, [(rid, None, case)], crash_record)[0]
    if rec["w"]["err"] != "crashed":
        rec["info"]["alone"] = True
    return rec


def _light(unit):
    rec = exec_unit(unit)
    rec["case"] = rec["prev"] = None      # the parent has them
    return rec


def run_units(us, chunk=None):
    _session_root()         # created (and removed at exit) by the parent; the forked children work below it
    recs = robust_map(_light, us, _crash_with_prev, chunk=chunk)
    byid = {u[0]: u for u in us}
    for r in recs:
        r["case"] = byid[r["id"]][2]
        r["prev"] = None if r["info"].get("alone") else byid[r["id"]][1]
    return recs



# =========================================== the world level (BinRoundTripWorld.tla) ==============================
# one session = one process: four files (1, 2 twins with byte-identical header text and different row counts; 3 same
# column names / row size / user header, other column types; 4 header-less), two handle objects, results kept and
# scribbled over by the caller, one read-only view per path whose writable base changes between overwrites
WORLD_DTYPES = [
    ([("id", "<i8"), ("flux", ">f4", (2,))], [("id", "<u8"), ("flux", ">i4", (2,))]),
    ([("id", ">i4"), ("v", "<f8", (2,)), ("END", "S3")], [("id", ">u4"), ("v", "<c16"), ("END", "S3")]),
    ([("id", "<i2"), ("tag", "S6")], [("id", "<u2"), ("tag", ">i2", (3,))]),
]
WORLD_HEADERS = [2, 7, 5, 9]        # ids of the header catalogue with >= 2 user keys
WORLD_INV = ["CallInv", "HeldInv", "CountInv"]


def world_setup(variant):
    d1, d2 = WORLD_DTYPES[variant % len(WORLD_DTYPES)]
    user = HEADERS[WORLD_HEADERS[(variant // len(WORLD_DTYPES)) % len(WORLD_HEADERS)]]
    dts = {1: np.dtype(d1), 2: np.dtype(d1), 3: np.dtype(d2), 4: np.dtype(d1)}
    if dts[1].itemsize != dts[3].itemsize or dts[1].names != dts[3].names or dts[1] == dts[3]:
        raise MachineryError("world dtypes are not twins in names and row size")
    return dts, user


def world_rows(tokens, dt, tab):
    """the rows the tokens stand for (the token itself in the first field, adversarial bytes elsewhere)"""
    out = np.empty(len(tokens), dtype=dt)
    for i, t in enumerate(tokens):
        raw = random.Random("c01w:%d:%s" % (t, dt.descr)).getrandbits(8 * dt.itemsize).to_bytes(dt.itemsize, "little")
        row = np.frombuffer(raw, dtype=dt).copy()
        row["id"] = t
        out[i] = row[0]
        if tab.setdefault((repr(dt.descr), out[i:i + 1].tobytes()), t) != t:
            raise MachineryError("row tokens %s collide in bytes" % (t,))
    return out


def world_obs(d, h, dt, user, tab):
    """(table or None, header / row count or None) -> the observation record of BinRoundTripWorld.tla"""
    o = {"err": "none", "n": -1, "rows": [], "tdok": True, "size": -9, "user": -1, "dok": False}
    if d is not None:
        if not isinstance(d, np.ndarray):
            o["err"] = "not_an_array"
            return o
        flat = np.ascontiguousarray(d).reshape(-1)
        o["n"] = int(flat.size)
        o["tdok"] = bool(d.dtype == dt and project_dtype(d.dtype) == project_dtype(dt))
        o["rows"] = [tab.get((repr(dt.descr), flat[i:i + 1].tobytes()), 0) for i in range(flat.size)] if d.dtype.itemsize == dt.itemsize \
            else [0] * int(flat.size)
    if h is not None:
        if isinstance(h, dict):
            size = h.get("_SIZE", -8)
            try:
                o["dok"] = bool(project_dtype(np.dtype(h["_DTYPE"])) == project_dtype(dt))
            except Exception:  # noqa
                o["dok"] = False
            o["user"] = 1 if all(k in h and safe_eq(h[k], v) for k, v in user.items()) else 0
        else:
            size = h
        if isinstance(size, bool) or not isinstance(size, (int, np.integer)) or not (-8 <= size < 2 ** 31):
            size = -7
        o["size"] = int(size)
    return o


def exec_session(args):
    """run one session in this (fresh) process -> the record judged by BinRoundTripWorldTrace.tla"""
    sid, sess = args
    from esutil import sfile, recfile
    import esutil.io as eio
    dts, user = world_setup(int(sess["variant"]))
    wdir = tempfile.mkdtemp(prefix="world-", dir=_process_dir())
    paths = {p: os.path.join(wdir, "f%d.rec" % p) for p in (1, 2, 3, 4)}
    tab = {}
    v = int(sess["variant"])
    nrows0 = {1: 2, 2: 3, 3: 2, 4: 2}
    for p in (1, 2, 3, 4):
        a = world_rows([100 * p + i for i in range(1, nrows0[p] + 1)], dts[p], tab)
        if p == 4:
            do_write(RAW_WRITERS[v % 2], paths[p], a, None)
        else:
            do_write(HDR_WRITERS[(v + p) % len(HDR_WRITERS)], paths[p], a, dict(user))
    # the caller's buffers: one writable base per dtype, one read-only view object per path (made once)
    bases = {repr(dts[1].descr): np.zeros(8, dtype=dts[1]), repr(dts[3].descr): np.zeros(8, dtype=dts[3])}
    views = {}
    for p in (1, 2, 3, 4):
        views[p] = bases[repr(dts[p].descr)][:p + 2]
        views[p].flags.writeable = False
    sfobj = {1: sfile.SFile(), 2: sfile.SFile()}
    handles = {1: None, 2: None}
    hpath = {1: 0, 2: 0}
    held = []
    steps = []
    try:
        for j, s in enumerate(sess["steps"], 1):
            op, p, h, e = s["op"], int(s["p"]), int(s["h"]), s["e"]
            o = {"err": "none", "n": -1, "rows": [], "tdok": True, "size": -9, "user": -1, "dok": False}
            try:
                if op == "RH":
                    hd = {"sfile.read_header": lambda: sfile.read_header(paths[p]),
                          "io.read(header=only)": lambda: eio.read(paths[p], header="only"),
                          "io.read_header": lambda: eio.read_header(paths[p])}[e]()
                    held.append((None, hd, p))
                    o = world_obs(None, hd, dts[p], user, tab)
                elif op == "RT":
                    dt = dts[p]
                    if e == "sfile.read":
                        d, hd = sfile.read(paths[p], header=True)
                    elif e == "io.read":
                        d, hd = eio.read(paths[p], header=True)
                    elif e == "SFile.read":
                        with sfile.SFile(paths[p]) as sf:
                            d, hd = sf.read(header=True)
                    elif e == "SFile[:]":
                        with sfile.SFile(paths[p]) as sf:
                            d = sf[:]
                            hd = sf.get_header()
                    elif e == "recfile.read":
                        d, hd = recfile.read(paths[p], dt), None
                    elif e == "Recfile.read":
                        with recfile.Recfile(paths[p], dtype=dt) as r:
                            d, hd = r.read(), None
                    elif e == "Recfile[:]":
                        with recfile.Recfile(paths[p], dtype=dt.descr) as r:
                            d, hd = r[:], None
                    elif e == "io.read(dtype)":
                        d, hd = eio.read(paths[p], dtype=dt), None
                    else:
                        raise MachineryError("unknown reader %r" % e)
                    held.append((d, hd, p))
                    o = world_obs(d, hd, dt, user, tab)
                elif op == "WR":
                    k = p + 2
                    base = bases[repr(dts[p].descr)]
                    base[:k] = world_rows([2000 + 10 * j + i for i in range(1, k + 1)], dts[p], tab)   # MutateBase
                    do_write(e, paths[p], views[p], None if p == 4 else dict(user))
                elif op == "OP":
                    if p == 4:
                        handles[h] = recfile.Recfile(paths[p], mode="r+", dtype=dts[p])
                    else:
                        sfobj[h].open(paths[p], mode="r+")
                        handles[h] = sfobj[h]
                    hpath[h] = p
                elif op == "CL":
                    handles[h].close()
                    handles[h], hpath[h] = None, 0
                elif op == "AP":
                    shape = [int(x) for x in s["shape"]]
                    nn = int(np.prod(shape))
                    dt = dts[hpath[h]]
                    chunk = world_rows([1000 + 10 * j + i for i in range(1, nn + 1)], dt, tab).reshape(shape)
                    handles[h].write(chunk)
                elif op == "HR":
                    dt, hh = dts[hpath[h]], handles[h]
                    if e == "read":
                        o = world_obs(hh.read(), None, dt, user, tab)
                    elif e == "[:]":
                        o = world_obs(hh[:], None, dt, user, tab)
                    elif e == "read(header)":
                        d, hd = hh.read(header=True)
                        o = world_obs(d, hd, dt, user, tab)
                    elif e == "nrows":
                        o = world_obs(None, hh.nrows, dt, user, tab)
                    else:
                        raise MachineryError("unknown handle read %r" % e)
                elif op == "SC":
                    d, hd, _ = held[int(s["i"]) - 1]
                    if hd is not None:
                        keys = list(user)
                        hd["_SIZE"] = -5
                        hd[keys[0]] = "scribbled over by the caller"
                        hd.pop(keys[1], None)
                    if d is not None:
                        d.reshape(-1).view(np.uint8)[:] = 0xEE
                else:
                    raise MachineryError("unknown step %r" % op)
            except MachineryError:
                raise
            except Exception as ex:  # noqa
                o = dict(o, err=type(ex).__name__, msg=str(ex)[:200])
            steps.append({"s": {"op": op, "p": p, "h": h, "e": e, "shape": [int(x) for x in s["shape"]], "i": int(s["i"])},
                          "obs": o})
        final = [world_obs(d, hd, dts[p], user, tab) for d, hd, p in held]
    finally:
        for hh in list(handles.values()) + list(sfobj.values()):
            try:
                if hh is not None:
                    hh.close()
            except Exception:  # noqa
                pass
        shutil.rmtree(wdir, ignore_errors=True)
    return {"id": sid, "steps": steps, "final": final}


def _session_crash(unit, why):
    sid, sess = unit
    return {"id": sid, "steps": [{"s": dict(sess["steps"][0], shape=[int(x) for x in sess["steps"][0]["shape"]]),
                                  "obs": {"err": "crashed", "msg": why, "n": -1, "rows": [], "tdok": True, "size": -9,
                                          "user": -1, "dok": False}}], "final": []}


def run_sessions(sessions):
    """every session in a forked process of its own (the process IS the world)"""
    _session_root()
    return robust_map(exec_session, sessions, _session_crash, chunk=1)


def judge_sessions(ctx, sessions, recs, what):
    slimrecs = [{"id": r["id"], "steps": [{"s": st["s"], "obs": {k: v for k, v in st["obs"].items() if k != "msg"}}
                                           for st in r["steps"]], "final": r["final"]} for r in recs]
    rejects = tracecheck.validate(ctx, "BinRoundTripWorldTrace.tla", slimrecs, what=what, shard_size=2500)
    byid = dict(sessions)
    rid = {r["id"]: r for r in recs}
    for sid, failing in sorted(rejects.items()):
        if any(f[1] == "harness" for f in failing):
            raise MachineryError("session %s is outside the world specification: %s" % (sid, failing))
        seen = set()
        for j, op, clause in failing:
            st = rid[sid]["steps"][j - 1] if op != "kept_result" else None
            entry = "kept_result" if st is None else \
                ("%s(%s)" % (op, st["s"]["e"]) if op in ("HR",) else op)
            sig = "world|%s|%s" % (entry, clause)
            if sig in seen:
                continue
            seen.add(sig)
            ctx.violation(sig, "session of %d calls in one process: %s fails clause %s of BinRoundTripWorld.tla%s" %
                          (len(byid[sid]["steps"]), ("kept result %d" % j) if st is None else
                           "step %d (%s %s)" % (j, op, st["s"]["e"]), clause,
                           (" (%s: %s)" % (st["obs"]["err"], st["obs"].get("msg", "")) if st and st["obs"]["err"] != "none" else "")),
                          {"world": byid[sid]})
    return rejects


def world_selftest(ctx, sessions, recs, rejects):
    """corrupt an accepted session's observations: a kept header that changed, a short read through the handle"""
    import copy
    ok = [r for r in recs if r["id"] not in rejects]
    a = next((r for r in ok if any(f["size"] >= 0 for f in r["final"])), None)
    b = next((r for r in ok if any(st["s"]["op"] == "HR" and st["obs"]["n"] >= 2 for st in r["steps"])), None)
    if a is None or b is None:
        raise MachineryError("world self-test: no accepted session with a kept header / a read through a handle")
    ra, rb, rc = copy.deepcopy(a), copy.deepcopy(b), copy.deepcopy(a)
    next(f for f in ra["final"] if f["size"] >= 0)["size"] += 4
    st = next(st for st in rb["steps"] if st["s"]["op"] == "HR" and st["obs"]["n"] >= 2)
    st["obs"]["n"] -= 1
    st["obs"]["rows"] = st["obs"]["rows"][:-1]
    ra["id"], rb["id"], rc["id"] = 1, 2, 3
    saved = ctx.traces
    rej = tracecheck.validate(ctx, "BinRoundTripWorldTrace.tla",
                              [{"id": r["id"], "steps": [{"s": s["s"], "obs": {k: v for k, v in s["obs"].items() if k != "msg"}}
                                                         for s in r["steps"]], "final": r["final"]} for r in (ra, rb, rc)],
                              what="self-test: corrupted session observations rejected", workers=1)
    ctx.traces = saved
    if not any(f[1] == "kept_result" and f[2] == "hdr_row_count" for f in rej.get(1, [])) or \
            not any(f[2] == "row_count" for f in rej.get(2, [])) or 3 in rej:
        raise MachineryError("world self-test failed: %s" % rej)


# =========================================== case construction ====================================================
LOOKALIKE = ("delim", "size", "dtype", "version", "nrows", "shape", "has_fields")
_PLAUSIBLE = {"delim": ",", "size": 3, "dtype": [("zz", "<i2")], "version": "0.9", "nrows": 7, "shape": (2, 2),
              "has_fields": False}


def ukey_entry(u):
    """a user key that looks like a reserved name (without the underscore, any letter case) and its value"""
    name = {"lower": u["name"], "upper": u["name"].upper(), "cap": u["name"].capitalize()}[u["lc"]]
    return name, (_PLAUSIBLE[u["name"]] if u["val"] == "plausible" else "\t")


def case_from_mc(c, k):
    """a case exported by BinRoundTripMC (header id -> the catalogue's header, plus the look-alike key)"""
    h = HEADERS[c["hid"]]
    if c["ukey"]["name"] != "none":
        key, val = ukey_entry(c["ukey"])
        h = dict(h or {})
        h[key] = val
    return {"src": c["src"], "writer": c["writer"], "layout": c["layout"], "descr": c["descr"], "nrows": c["nrows"],
            "n": c["n"], "block": c["block"], "hdr": None if h is None else repr(h), "hid": c["hid"], "pat": k,
            "hmode": c["hmode"], "steps": [{"kind": st["kind"], "k": st["k"], "descr": st["descr"]} for st in c["steps"]]}


def case_from_fmt(hc, k):
    """a header case exported by SFileFormatMC: {key word: value} x a field name, two fields (<f8, >i4)"""
    hdr = {}
    for e in hc["ents"]:
        hdr[word(e["k"])] = value_of(e["v"])
    if len(hdr) != len(hc["ents"]):
        raise MachineryError("header case with colliding keys: %s" % hc)
    descr = [{"name": word(hc["name"]), "kind": "f", "size": 8, "shape": [], "order": "lt"},
             {"name": "i", "kind": "i", "size": 4, "shape": [], "order": "gt"}]
    return {"src": "hdrtext", "writer": HDR_WRITERS[k % len(HDR_WRITERS)], "layout": LAYOUTS[(k // 4) % 4], "descr": descr,
            "nrows": hc["n"],
            "hdr": repr(hdr), "hlen_model": hc["hlen"], "pinned_fails": bool(hc["pinned_fails"]), "pat": k}


_FRAG = ["END", "SIZE", "x", "_", "T", "R", "end", "a", "1", "NROWS", "DTYPE", "e", "é"]
_CHARS = ["END", "SIZE", "'", '"', "\n", "=", "\\", " ", "{", "}", "[", "]", "(", ")", ":", ",", "#", "a", "Z", "0", "\t", "\r",
          "\x00", "é", " ", "array(", "\nEND\n", "END\n", "\\n", "''", '""', "%s", "%"]


def rand_name(rng, used):
    while True:
        n = "".join(rng.choice(_FRAG) for _ in range(rng.choice([1, 1, 2, 3, 5])))
        if n.isidentifier() and n not in used and n != "":
            used.add(n)
            return n


def rand_str(rng):
    return "".join(rng.choice(_CHARS) for _ in range(rng.choice([0, 1, 1, 2, 3, 6, 20, 120])))


def rand_leaf(rng):
    r = rng.random()
    if r < 0.35:
        return rand_str(rng)
    if r < 0.5:
        return rng.choice([0, 1, -1, 2 ** 31, -2 ** 63, 2 ** 64, 10 ** 30, rng.randrange(-10 ** 6, 10 ** 6)])
    if r < 0.65:
        return rng.choice([0.0, -0.0, 0.1, 1e300, -1e-300, 5e-324, 1.7976931348623157e308, rng.uniform(-1e6, 1e6),
                           float(rng.randrange(-10 ** 6, 10 ** 6)) / 7, float("inf"), float("-inf"), float("nan")])
    if r < 0.75:
        return rand_str(rng).encode("utf-8", "surrogatepass")[: rng.choice([1, 5, 40])]
    if r < 0.85:
        return rng.choice([None, True, False])
    return bytes(rng.getrandbits(8) for _ in range(rng.choice([0, 1, 4, 30])))


def rand_value(rng, depth):
    if depth <= 0 or rng.random() < 0.55:
        return rand_leaf(rng)
    r = rng.random()
    n = rng.choice([0, 1, 2, 3, 8, 30])
    if r < 0.4:
        return [rand_value(rng, depth - 1) for _ in range(n)]
    if r < 0.7:
        return tuple(rand_value(rng, depth - 1) for _ in range(n))
    d = {}
    for _ in range(min(n, 6)):
        k = rng.choice([rand_str(rng), rng.randrange(-5, 5), None, (1, "a"), 2.5, b"k", True])
        d[k] = rand_value(rng, depth - 1)
    return d


def rand_header(rng):
    r = rng.random()
    if r < 0.1:
        return None
    hdr = {}
    for _ in range(rng.choice([0, 1, 1, 2, 3, 6, 25])):
        r2 = rng.random()
        if r2 < 0.75:
            k = rand_str(rng)
        elif r2 < 0.9:
            k = rng.choice(LOOKALIKE)
            k = rng.choice([k, k.upper(), k.capitalize(), k.swapcase()])
        else:
            k = rng.choice(["_x", "SIZE", "END", "_", "__"])
        if k.lower() in RESERVED:
            continue
        hdr[k] = rand_value(rng, 3)
    return hdr


def rand_case(rng, k):
    used = set()
    nf = rng.choice([1, 1, 2, 3, 4, 6, 8, 12])
    descr = []
    for _ in range(nf):
        kind = rng.choice(["i", "u", "f", "b", "c", "S", "S", "f"])
        size = {"i": [1, 2, 4, 8], "u": [1, 2, 4, 8], "f": [4, 8], "b": [1], "c": [8, 16],
                "S": [1, 2, 3, 5, 8, 12, 33]}[kind]
        size = rng.choice(size)
        shape = rng.choice([[], [], [], [1], [3], [2, 3], [2, 1, 2], [1, 1, 1], [3, 2, 2], [4, 1]])
        has = kind in "iufc" and size > 1
        descr.append({"name": rand_name(rng, used), "kind": kind, "size": size, "shape": shape,
                      "order": rng.choice(["lt", "gt"]) if has else "na"})
    writer = rng.choice(WRITERS)
    hdr = rand_header(rng) if writer in HDR_WRITERS else None
    nrows = rng.choice([1, 1, 2, 2, 5, 5, 17, 64])
    layout = rng.choice(LAYOUTS[:5] if nrows == 1 else LAYOUTS[:4])
    if k % 7 == 3:
        layout = "table2d"
    return {"src": "random", "writer": writer, "layout": layout, "descr": descr, "nrows": nrows,
            "hdr": None if hdr is None else repr(hdr), "pat": k}


# =========================================== judging ==================================================================
def _has_nonfinite(v):
    if isinstance(v, float):
        return v != v or v in (float("inf"), float("-inf"))
    if isinstance(v, dict):
        return any(_has_nonfinite(x) for x in v.values()) or any(_has_nonfinite(x) for x in v)
    if isinstance(v, (list, tuple)):
        return any(_has_nonfinite(x) for x in v)
    return False


def hdr_class(case):
    """structural class of the header text the reader has to get past: the first feature present"""
    if case["writer"] in RAW_WRITERS:
        return "no_header"
    h = header_of(case)
    text = (repr(h) if h is not None else "") + " " + " ".join(f["name"] for f in case["descr"])
    if _has_nonfinite(h):
        return "inf_or_nan_header_value"
    if h and any(k.lower() in LOOKALIKE for k in h):
        return "key_like_reserved_name"
    if "END" in text:
        return "END_in_header_text"
    if "SIZE" in text:
        return "SIZE_in_header_text"
    if "\\n" in text:
        return "newline_in_header_text"
    if '"' in text or "\\'" in text:
        return "quote_in_header_text"
    if "=" in text:
        return "equals_in_header_text"
    return "plain_header" if h else "no_user_header"


def order_class(case):
    orders = {f["order"] for f in case["descr"]} - {"na"}
    return "mixed_order" if len(orders) > 1 else ("big_endian" if orders == {"gt"} else "little_or_no_order")


def signatures(rec, failing):
    """<entry point>|<clause>|<structural class>.  Entry points that fail a clause together are named as a group
    (all self-describing readers: the header reader they share; all readers together with the raw data region: the
    writing side), so that one defect gives a small number of stable signatures."""
    case = rec["case"]
    by_clause = {}
    for entry, clause in failing:
        by_clause.setdefault(clause, set()).add(entry)
    hdr_file = case["writer"] in HDR_WRITERS
    all_self = set(SELF_READERS) if hdr_file else set()
    all_given = set(GIVEN_READERS)
    out = []
    if len(by_clause) > 1:
        by_clause.pop("cross_entry", None)      # implied by the clauses that name what differs
    for clause in sorted(by_clause):
        ents = by_clause[clause]
        selfs, givens = ents & set(SELF_READERS), ents & set(GIVEN_READERS)
        if clause in ("write_rejected", "process_crashed"):
            groups = [case["writer"]]
        elif clause == "raw_rows":
            groups = ["write"]                       # the bytes on disk are wrong: the writing side (named in `what`)
        elif selfs == all_self and givens == all_given:
            groups = ["write" if "raw_rows" in by_clause else "all_readers"]
        elif all_self and selfs == all_self and not givens:
            groups = ["read_header" if clause == "unexpected_error" else "self_describing_readers"]
        elif givens == all_given and not selfs:
            groups = ["low_level_readers"]
        else:
            groups = sorted(ents)
        outs = [st["out"] for st in rec["c"].get("steps", [])]
        hist = ("after_refused_append" if "rejected" in outs else "after_append") if outs else None
        for g in groups:
            if hist and clause not in ("hdr_key_missing", "hdr_value", "write_rejected", "process_crashed"):
                sig = "%s|%s|%s" % ("self_describing_readers" if g == "read_header" else g, clause, hist)
            elif g == "read_header":
                sig = "read_header|%s" % hdr_class(case)
            elif clause in ("hdr_key_missing", "hdr_value") or \
                    (clause == "unexpected_error" and (g in SELF_READERS or g == "self_describing_readers")):
                sig = "%s|%s|%s" % (g, clause, hdr_class(case))
            elif clause in ("unexpected_error", "write_rejected", "process_crashed"):
                sig = "%s|%s|%s" % (g, clause, "header_file" if hdr_file else "headerless_file")
            else:
                noncontig = case.get("layout", "contig") not in ("contig", "zerod", "table2d")
                big = case_block(case) > 1
                sig = "%s|%s|%s" % (g, clause, "non_contiguous_input" if noncontig else
                                    "two_dimensional_input" if case.get("layout") == "table2d" else
                                    "table_over_2^24_bytes" if big else order_class(case))
            rep = g if g in ents else (case["writer"] if case["writer"] in ents else sorted(ents)[0])
            out.append((sig, rep, clause))
    return out


def judge_records(ctx, recs, what):
    rejects = tracecheck.validate(ctx, "BinRoundTripTrace.tla", [slim(r) for r in recs], what=what, shard_size=2500)
    byid = {r["id"]: r for r in recs}
    for rid, failing in sorted(rejects.items()):
        r = byid[rid]
        if any(p[0] == "harness" for p in failing):
            raise MachineryError("record %s is outside the specification's scope: %s (%s)" % (rid, failing, r["case"]))
        for sig, entry, clause in signatures(r, failing):
            o = next((o for o in r["obs"] if o["reader"] == entry), None)
            ctx.violation(sig, "%s of a file written by %s: clause %s of BinRoundTrip.tla fails%s" %
                          (entry, r["case"]["writer"], clause,
                           (" (%s: %s)" % (o["err"], o.get("msg", "")) if o and o["err"] != "none" else
                            " (%s)" % r["w"].get("msg", "") if clause in ("write_rejected", "process_crashed") else "")),
                          {"prev": r["prev"], "cur": r["case"]})
    return rejects


def units(cases, start_id):
    """pair every case with its predecessor (same path, same re-used handle)"""
    out = []
    for i, c in enumerate(cases):
        out.append((start_id + i, cases[i - 1] if i > 0 else None, c))
    return out


# =========================================== the check ===================================================================
FMT_INV = ["DataStartRefines", "ParseRefines", "TerminatorUnique"]
BRT_INV = ["ReadInv", "SizeInv", "CrossEntry", "LastWriteWins", "LayoutIndependent", "CasesInScope", "HistOK"]
BRT_REQ = ["ChooseSingle", "ChooseFirst", "ChooseSecond", "ChooseIO", "ChooseBig", "ChooseHist", "DoWrite", "DoStep", "DoRead", "Rewrite"]


def fmt_consts(T, scanner="LINE5", export=False, **over):
    c = dict(T["fmt"], Scanner=scanner, Width=80, Toks=set(ALPHABET), DoExport=export)
    c.update(over)
    return c


def brt_consts(T, export=False, **over):
    c = dict(T["brt"], NHdr=len(HEADERS), DoExport=export)
    c.update(over)
    return c


def tlc_jobs(ctx, T, part):
    """all TLC model runs of the check; independent of each other, run side by side"""
    jobs = {}
    if part("fmt"):
        # 1. design level: the header mechanism refines the obligations on every header of the bounded space
        jobs["fmt"] = lambda: ctx.tlc(
            "SFileFormatMC.tla", what="header mechanism refines DataStart/ParseDict (exhaustive)",
            cfg_text=cfg(constants=fmt_consts(T), invariants=FMT_INV), workers=16, coverage=False, timeout=3000)
        # non-vacuity: the pinned scanner (first E,N,D anywhere) must violate the obligations - TLC finds the input
        jobs["fmt_selftest"] = lambda: ctx.tlc(
            "SFileFormatMC.tla", what="self-test: pinned END scanner violates the obligations",
            cfg_text=cfg(constants=fmt_consts(T, scanner="END3", TwoKeys=False, ValLen=1, KeyLen=1),
                         invariants=["DataStartRefines", "ParseRefines"]),
            workers=2, allow_violation=True, coverage=False, timeout=3000)
    if part("fmtcases"):
        # 2. spec -> code: every header case of the mechanism model
        jobs["fmt_export"] = lambda: ctx.tlc(
            "SFileFormatMC.tla", what="export header cases",
            cfg_text=cfg(constants=fmt_consts(T, export=True), next_="NextExport", constraints=["Export"]),
            workers=1, coverage=False, timeout=3000)
    if part("brt"):
        # 3. design level: the property-level state machine
        jobs["brt"] = lambda: ctx.tlc(
            "BinRoundTripMC.tla", what="file state machine: round trip, cross-entry, last write wins",
            cfg_text=cfg(constants=brt_consts(T), invariants=BRT_INV, properties=["ReadsArePure", "RejectIsStutter"]),
            workers=16, require=BRT_REQ, timeout=3000)
    if part("brtcases"):
        # 4. spec -> code: every dtype / entry-point case; simulated wider dtypes
        jobs["brt_export"] = lambda: ctx.tlc(
            "BinRoundTripMC.tla", what="export dtype x entry-point cases",
            cfg_text=cfg(constants=brt_consts(T, export=True), next_="NextExport", constraints=["Export"]),
            workers=1, coverage=False, timeout=3000)
        jobs["brt_sim"] = lambda: ctx.tlc(
            "BinRoundTripMC.tla", what="simulate %d wider dtypes" % T["sim"],
            cfg_text=cfg(constants=brt_consts(T), next_="NextSim"), workers=1, coverage=False, timeout=3000,
            simulate="num=%d" % T["sim"], extra=["-depth", str(11 + T["brt"]["MaxHist"]), "-seed", str(ctx.seed + 1)])
    if part("world"):
        # 5. world level: the faithful mechanism satisfies the world invariants on every session of <= MaxSteps calls;
        # the memoising header reader and the len()-counting handle must violate them (TLC finds the session)
        W = T["world"]

        def wc(mech, steps, free):
            return {"Mech": mech, "MaxSteps": steps, "FreeEntries": free}
        jobs["world"] = lambda: ctx.tlc(
            "BinRoundTripWorldMC.tla", what="world machine: every call = its fresh-world outcome, kept results stay (exhaustive)",
            cfg_text=cfg(constants=wc("faithful", W["MaxSteps"], False), invariants=WORLD_INV), workers=16, coverage=False,
            timeout=3000)
        jobs["world_memo"] = lambda: ctx.tlc(
            "BinRoundTripWorldMC.tla", what="self-test: header memo keyed on the header text violates the world invariants",
            cfg_text=cfg(constants=wc("memo_text", 4, False), invariants=WORLD_INV), workers=1, allow_violation=True,
            coverage=False, timeout=3000)
        jobs["world_len"] = lambda: ctx.tlc(
            "BinRoundTripWorldMC.tla", what="self-test: handle counting len(chunk) violates the world invariants",
            cfg_text=cfg(constants=wc("len_count", 4, False), invariants=WORLD_INV), workers=1, allow_violation=True,
            coverage=False, timeout=3000)
        jobs["world_sim"] = lambda: ctx.tlc(
            "BinRoundTripWorldMC.tla", what="simulate %d sessions of %d calls" % (W["sessions"], W["depth"]),
            cfg_text=cfg(constants=wc("faithful", W["depth"], True), next_="NextSim"), workers=1, coverage=False, timeout=3000,
            simulate="num=%d" % W["sessions"], extra=["-depth", str(W["depth"] + 3), "-seed", str(ctx.seed + 7)])
    order = ["fmt", "fmt_export", "brt_export", "brt_sim", "world_sim", "brt", "world", "fmt_selftest", "world_memo", "world_len"]
    names = [n for n in order if n in jobs]
    nthreads = 3 if int(os.environ.get("VH_MAX_WORKERS", "16")) <= 4 else 6
    out = {}
    with ThreadPoolExecutor(nthreads) as ex:
        futs = [(n, ex.submit(jobs[n])) for n in names]
        for n, f in futs:
            out[n] = f.result()
    return out


def run(ctx):
    T = TIERS[ctx.tier]
    only = getattr(ctx, "only", None) or set()

    def part(name):
        return not only or name in only

    res = tlc_jobs(ctx, T, part)          # no process is forked while these threads run
    # the order of the runs in the evidence must not depend on which finished first
    ctx.tlc_runs.sort(key=lambda r: r["what"])
    if "fmt_selftest" in res and not ({"DataStartRefines", "ParseRefines"} & set(res["fmt_selftest"].violated)):
        raise MachineryError("self-test failed: the END3 scanner does not violate the refinement obligations")
    groups = []                           # (label, cases)
    if "fmt_export" in res:
        hcs = res["fmt_export"].records.get("HCASE", [])
        if not hcs:
            raise MachineryError("no header cases exported")
        if "fmt" in res:
            # vacuity guard of the mechanism run (-coverage is too slow on this model): every exported case must have
            # gone through WriteHeader, ReadSfileHeader and ReadHeader (three more states each), i.e. the obligations
            # were evaluated on every header of the space
            r = res["fmt"]
            if r.depth < 6 or r.distinct < 4 * len(hcs):
                raise MachineryError("vacuous mechanism run: %d states, depth %d for %d header cases" %
                                     (r.distinct, r.depth, len(hcs)))
        groups.append(("hdrtext", [case_from_fmt(hc, k) for k, hc in enumerate(hcs)]))
        ctx.note(header_cases=len(hcs))
    if "brt_export" in res:
        mcs = res["brt_export"].records.get("CASE", [])
        sims = res["brt_sim"].records.get("CASE", [])
        if not mcs:
            raise MachineryError("no cases exported")
        if len(sims) < T["sim"] // 2:
            raise MachineryError("simulation exported only %d cases" % len(sims))
        groups.append(("dtype", [case_from_mc(c, k) for k, c in enumerate(mcs + sims)]))
        ctx.note(exhaustive_dtype_cases=len(mcs), simulated_dtype_cases=len(sims))
    if part("random"):
        # 5. code -> spec: seeded larger random dtypes, names, headers
        rng = random.Random(ctx.seed * 1000003 + 101)
        groups.append(("random", [rand_case(rng, k) for k in range(T["random"])]))
        ctx.note(random_cases=T["random"])
    if "world" in res:
        if not ({"CallInv", "HeldInv"} & set(res["world_memo"].violated)):
            raise MachineryError("self-test failed: the header memo does not violate the world invariants")
        if not ({"CallInv", "CountInv"} & set(res["world_len"].violated)):
            raise MachineryError("self-test failed: the len()-counting handle does not violate the world invariants")
        if res["world"].distinct < 1000 or res["world"].depth < T["world"]["MaxSteps"] + 1:
            raise MachineryError("vacuous world run: %d states, depth %d" % (res["world"].distinct, res["world"].depth))
        sess = res["world_sim"].records.get("SESSION", [])
        if len(sess) < T["world"]["sessions"] // 2:
            raise MachineryError("simulation exported only %d sessions" % len(sess))
        sessions = [(i, x) for i, x in enumerate(sess, 1)]
        wrecs = run_sessions(sessions)
        for _, x in sessions:
            ctx.count({"world": x})
        ops = collections.Counter(st["s"]["op"] for r in wrecs for st in r["steps"])
        ctx.note(world_sessions=len(sessions), world_calls=dict(sorted(ops.items())),
                 world_2d_appends_read_through_handle=sum(
                     1 for r in wrecs if any(st["s"]["op"] == "AP" and len(st["s"]["shape"]) == 2 for st in r["steps"])
                     and any(st["s"]["op"] == "HR" for st in r["steps"])))
        ctx.log("%d sessions executed, one process each (%s)" % (len(wrecs), ", ".join("%s %d" % kv for kv in sorted(ops.items()))))
        wrej = judge_sessions(ctx, sessions, wrecs, "judge sessions (BinRoundTripWorldTrace)")
        ctx.log("%d sessions judged, %d rejected" % (len(wrecs), len(wrej)))
        if not only:
            world_selftest(ctx, sessions, wrecs, wrej)
    cases = [c for _, cs in groups for c in cs]
    if not cases:
        return
    us = units(cases, 1)
    heavy = [u for u in us if case_block(u[2]) > 1 or (u[1] is not None and case_block(u[1]) > 1)]
    light = [u for u in us if not (case_block(u[2]) > 1 or (u[1] is not None and case_block(u[1]) > 1))]
    all_recs = sorted(run_units(light) + run_units(heavy, chunk=1), key=lambda r: r["id"])
    ctx.note(big_table_cases=sum(1 for c in cases if case_block(c) > 1))
    hrecs_ = [r for r in all_recs if r["c"].get("steps")]
    nrej = sum(1 for r in hrecs_ for st in r["c"]["steps"] if st["out"] == "rejected")
    nfree = sum(1 for r in hrecs_ if any(st["out"] == "ok" and st["descr"] != r["c"]["descr"] for st in r["c"]["steps"]))
    ctx.note(history_cases=len(hrecs_), history_steps=sum(len(r["c"]["steps"]) for r in hrecs_), refused_appends_observed=nrej,
             histories_unconstrained_after_accepted_foreign_append=nfree)
    if "brt_export" in res and not hrecs_:
        raise MachineryError("no history case was executed")
    for r in all_recs:
        ctx.count({"p": r["prev"], "c": r["case"]})
    ctx.log("%d write/read cycles executed (%s)" % (len(all_recs), ", ".join("%s %d" % (g, len(cs)) for g, cs in groups)))
    rejects = judge_records(ctx, all_recs, "judge write/read cycles (BinRoundTripTrace)")
    ctx.log("%d cycles judged, %d rejected" % (len(all_recs), len(rejects)))
    hrecs = [x for x in all_recs if x["case"]["src"] == "hdrtext"]
    if hrecs:
        # informational: the mechanism model's prediction for the pinned scanner against what the code did, and
        # the writer model's data offset against the file's
        predicted = {x["id"] for x in hrecs if x["case"]["pinned_fails"]}
        hrej = {x["id"] for x in hrecs} & set(rejects)
        mism = sum(1 for x in hrecs if x["w"]["err"] == "none" and x["info"].get("hlen") != x["case"]["hlen_model"])
        ctx.note(pinned_scanner_predicted_failures=len(predicted), header_model_offset_mismatches=mism)
        if hrej:
            ctx.log("note: %d header cases rejected; the END3 scanner model predicts %d failures, %d in common" %
                    (len(hrej), len(predicted), len(predicted & hrej)))
        if mism:
            ctx.log("note: the writer model of SFileFormat.tla predicts another data offset than the file has in %d of %d "
                    "cases (informational: the layout is not part of the property)" % (mism, len(hrecs)))
    if only:
        return
    drift = sum(1 for r in all_recs if r["info"].get("type_drift"))
    changed = sum(1 for r in all_recs if r["info"].get("arg_unchanged") is False)
    ctx.note(header_value_type_drift_cases=drift, write_modified_argument_cases=changed)
    for r in [x for x in all_recs if x["case"]["src"] == "hdrtext"][:2] + [x for x in all_recs if x["case"]["src"] == "pair"][:2] + \
            [x for x in all_recs if x["case"]["src"] == "random"][:2]:
        ctx.sample({"case": r["case"], "abstract": r["c"], "observed": r["groups"][0] if r["groups"] else None})
    # 6. binding self-test
    selftest(ctx, [r for r in all_recs if r["id"] not in rejects])
    F, B = T["fmt"], T["brt"]
    ctx.rule = ("(a) every user header {k: v} with k a word of <= %d and v a word of <= %d tokens over {END, SIZE, ', \", newline, =, "
                "backslash, a} or a one-/two-level list/tuple of such, plus two-entry headers, x field name in {x, END, TREND, SIZE_1} "
                "x row count %s (exported from SFileFormatMC.tla); (b) every one-field dtype of 15 element types x 5 sub-array shapes x "
                "byte orders and every two-field dtype over 6 types x 4 shapes x orders, %s, memory layout of the written array in {contiguous, "
                "every-second-row view, reversed view, column of a 2-d array, 0-d, 2-d table}, header ids 0..%d by a covering rule, plus %d "
                "simulated 3..%d-field dtypes, and tables just above 2^e bytes (e in %s) with row sizes %s written in one call and compared "
                "block-wise by digest; header-writing cases carry by a covering rule a user key that looks like a reserved name (delim, "
                "size, dtype, version, nrows, shape, has_fields x letter case x value kind) (BinRoundTripMC.tla); (c) %d seeded random tables (1..12 fields, rows up to 64) with random "
                "literal headers.  Each case is written through one entry point on a path that held the previous case, read back through "
                "every reading entry point (10 for header files, 5 for header-less ones) and judged by BinRoundTripTrace.tla.  A case is "
                "distinct by (previous case, case) and always non-trivial (>= 1 row written and read).  (d) %d simulated sessions of %d "
                "calls, one process each, over twin files / two r+ handles / kept and scribbled results (BinRoundTripWorldMC.tla), "
                "judged by BinRoundTripWorldTrace.tla; the world invariants are model-checked exhaustively for sessions of <= %d calls." %
                (F["KeyLen"], F["ValLen"], sorted(F["NRows"]),
                 "writer x row count %s crossed" % sorted(B["RowCounts"]) if B["CrossIO"] else
                 "writer and row count in %s by a covering rule" % sorted(B["RowCounts"]),
                 len(HEADERS) - 1, T["sim"], B["MaxFields"], sorted(B["BigExps"]), sorted(B["BigItems"]), T["random"],
                 T["world"]["sessions"], T["world"]["depth"], T["world"]["MaxSteps"]))
    ctx.exhaustive = True
    ctx.tlc_runs.sort(key=lambda r: r["what"])      # shards finish in any order
    ctx.note(bounds={"fmt": {k: sorted(v) if isinstance(v, set) else v for k, v in F.items()},
                     "brt": {k: sorted(v) if isinstance(v, set) else v for k, v in B.items()}},
             writers=list(WRITERS), readers=list(SELF_READERS + GIVEN_READERS), header_catalogue=len(HEADERS),
             layouts=list(LAYOUTS))
    ctx.assumptions = [
        "row tokens: the harness names distinct row byte patterns; equal token <=> equal bytes (tobytes of one row)",
        "header values: a value read back is given the id of the written value iff Python == holds (the statement's 'equal value'), "
        "a float nan being matched by a float nan (nan == nan is False: equality cannot hold for nan itself), also nested; "
        "type drift (1 vs True vs 1.0) is only counted in the evidence",
        "the written table is the array as indexed, whatever its memory layout; aligned (padded) dtypes are outside "
        "(their descr carries padding entries)",
        "keys starting with an underscore are treated as reserved (not constrained), the weaker reading of the statement",
        "the low-level readers are given dtype = the written array's dtype and offset = file size - rows*itemsize "
        "(the data region is the tail of the file; checked separately as clause raw_rows)",
        "the dtype space is sampled beyond two fields (simulation + seeded random), not exhausted",
        "world sessions: a file is read / replaced afresh only while no handle is open on it, one handle per path; the dict "
        "returned by get_header() of a still-open handle is not scribbled over (it is the handle's own on HEAD); results of "
        "module-level readers and of closed handles are the caller's",
        "world sessions are sampled by tlc -simulate (the invariants are exhaustive only at the model level)",
    ]


def selftest(ctx, recs):
    """corrupt single observations of accepted records: exactly those must be rejected, with the expected clause"""
    good = [r for r in recs if r["w"]["err"] == "none" and r["case"]["writer"] in HDR_WRITERS
            and all(o["err"] == "none" for o in r["obs"])]
    pick = next((r for r in good if len(r["c"]["rows"]) >= 2 and len(set(r["c"]["rows"])) >= 2
                 and any(f["order"] == "gt" for f in r["c"]["descr"]) and r["c"]["hdr"]["ents"]
                 and not r["c"]["hdr"]["ents"][0]["reserved"]), None)
    if pick is None:
        raise MachineryError("binding self-test: no suitable accepted record (rows>=2, big-endian field, user header)")
    import copy

    def full_obs(r):
        """one observation per reader again (the records keep them grouped)"""
        out = []
        for reader in SELF_READERS + GIVEN_READERS:
            g = next(g for g in r["groups"] if reader in g["readers"])
            o = copy.deepcopy({k: g[k] for k in ("err", "descr", "n", "rows", "hdr")})
            o["reader"] = reader
            out.append(o)
        return out

    def mutate(fn):
        r = copy.deepcopy(pick)
        r["obs"] = full_obs(r)
        fn(r)
        return r

    def m_rows(r):
        r["obs"][3]["rows"][0], r["obs"][3]["rows"][1] = r["obs"][3]["rows"][1], r["obs"][3]["rows"][0]

    def m_order(r):
        for o in r["obs"][:1]:
            f = next(f for f in o["descr"] if f["order"] == "gt")
            f["order"] = "lt"

    def m_hval(r):
        r["obs"][0]["hdr"]["ents"][0]["v"] = 0

    def m_hkey(r):
        r["obs"][4]["hdr"]["ents"] = r["obs"][4]["hdr"]["ents"][1:]

    def m_size(r):
        r["obs"][0]["hdr"]["size"] += 1

    def m_name(r):
        r["obs"][-1]["descr"][0]["name"] += "_"

    def m_err(r):
        r["obs"][5]["err"] = "SyntaxError"

    def m_raw(r):
        r["raw"]["rows"] = r["raw"]["rows"][:-1]

    def m_shape(r):
        r["obs"][6]["descr"][0]["shape"] = r["obs"][6]["descr"][0]["shape"] + [1]

    muts = [("row_bytes", m_rows), ("byte_order", m_order), ("hdr_value", m_hval), ("hdr_key_missing", m_hkey),
            ("hdr_row_count", m_size), ("field_names", m_name), ("unexpected_error", m_err), ("raw_rows", m_raw),
            ("subarray_shapes", m_shape)]
    batch = []
    for i, (clause, fn) in enumerate(muts, 1):
        r = mutate(fn)
        r["id"] = i
        batch.append(r)
    clean = copy.deepcopy(pick)
    clean["obs"] = full_obs(clean)
    clean["id"] = len(muts) + 1
    batch.append(clean)
    saved = ctx.traces
    for r in batch:
        r["groups"] = group_obs(r["obs"])
    rej = tracecheck.validate(ctx, "BinRoundTripTrace.tla", [slim(r) for r in batch], what="self-test: corrupted observations rejected", workers=1)
    ctx.traces = saved
    for i, (clause, _) in enumerate(muts, 1):
        got = {p[1] for p in rej.get(i, [])}
        if clause not in got:
            raise MachineryError("binding self-test failed: corruption %r not rejected with that clause (got %s)" % (clause, rej.get(i)))
    if len(muts) + 1 in rej:
        raise MachineryError("binding self-test failed: the uncorrupted record was rejected: %s" % rej[len(muts) + 1])
    ctx.note(selftest_corruptions=[m[0] for m in muts])


def replay(ctx, case):
    if "world" in case:
        sessions = [(1, case["world"])]
        recs = run_sessions(sessions)          # the whole session, in one fresh process
        print("replay: %s" % [(st["s"]["op"], st["s"]["e"], st["obs"]["err"]) for st in recs[0]["steps"]])
        judge_sessions(ctx, sessions, recs, "replay session")
        return
    recs = run_units([(1, case.get("prev"), case["cur"])])
    r = recs[0]
    print("replay: write %s; readers: %s" % (r["w"], [(o["reader"], o["err"], o.get("msg", "")) for o in r["obs"]]))
    judge_records(ctx, recs, "replay")
