"""C02 - row/column subset reads equal indexing the fully-read table.

spec -> code : SelectMC.tla enumerates every row request (slices, row lists, scalars) and
               every column request x option of the bounded space, and behaviours of
               <= MaxReads reads on one handle; each is executed against real sfile /
               recfile handles in every access style, on binary and text files.
code -> spec : every executed read is projected to (which columns, which original row
               indices, result form) and the per-handle event sequences - plus seeded
               random sessions on larger tables - are judged by SelectTrace.tla.
               Long histories (tlc -simulate over NextHist: 30-40 reads on ONE handle over tables of
               6-8 columns, new / repeated / earliest column selections, rejected calls interleaved)
               and scale cases (NextScale: tables of 10^5..3*10^5 rows, strided slices and run-length
               row lists across the 2^16 / 2^17 / 1 MiB-block row boundaries, with the block
               decomposition the concatenation law gives) are executed too; a long result is
               projected to the run-length form of the original row numbers (cells are counters,
               every cell is identified) and judged by the same trace module.
               Object lifetime (NextLife: heap of handle -> reader <- selection object, reference dropping and the
               collector as actions; LifeRefines): exported behaviours in which the caller keeps h[columns] and lets
               go of the handle (temporary of the expression, local of a helper, del, reference cycle + gc.collect())
               are executed with the real reference counting / collector; every read through the selection object is
               judged by the trace module, for which the caller's lifetime steps are stutter steps (HLife).
Python never decides what a read should return: TLC does (Select.tla: FailingT).
"""
import hashlib
import os
import random
import shutil
import tempfile
from concurrent.futures import ThreadPoolExecutor

import numpy as np

from .. import tracecheck
from ..core import MachineryError
from ..par import pmap
from ..tlc import cfg

NEEDS_EXT = True
NONE = 9999                       # Select.tla: None

ALLDEV = {"start_lt_minus_n", "start_gt_n", "neg_off_by_one", "stop_lt_start", "empty_rows", "single_clamp",
          "fields_scalar", "reduce_falls"}

BOUNDS = {
    "quick":    dict(MaxN=3, MaxListLen=3, Steps={1, 2, 3}, MaxReads=2, SeqN={2, 3},
                     HistCols={6, 7, 8}, HistN={4}, HistLen=36, ScaleNs={131073, 262143, 300000}, SmallNs={8, 9},
                     ScaleSteps={2, 3, 5, 7}, ScaleThin=40, RunsMaxLen=3, LifeN={3}, LifeLen=5),
    "thorough": dict(MaxN=5, MaxListLen=3, Steps={1, 2, 3}, MaxReads=3, SeqN={3},
                     HistCols={6, 7, 8}, HistN={3, 5}, HistLen=40,
                     ScaleNs={100003, 131072, 131073, 157284, 196608, 262143, 262144, 300000}, SmallNs={8, 9, 10, 11},
                     ScaleSteps={2, 3, 5, 7, 16}, ScaleThin=5, RunsMaxLen=4, LifeN={3}, LifeLen=6),
}
# long histories: behaviours simulated, text forms per behaviour
HIST = {"quick": dict(num=60, text=1), "thorough": dict(num=400, text=2)}
TEXT_DELIMS = [",", ":", "\t", " "]

# ---- tables: 3 columns, names NOT in alphabetical file order in most layouts ------------------
LAYOUTS = [
    [("a", "i4"), ("b", "f8", (2,)), ("c", "S3")],
    [("z", "i8"), ("y", "i8"), ("x", "i8")],
    [("b", "S5"), ("c", "f4"), ("a", "i2", (2, 2))],
    [("c", "u1"), ("a", "S2", (2,)), ("b", "f4")],
    # wide tables (long histories: dozens of distinct ordered column selections)
    [("c3", "i4"), ("c1", "i4"), ("c2", "i4"), ("c0", "i4"), ("c5", "i4"), ("c4", "i4")],
    [("g", "i4"), ("a", "f8"), ("e", "S3"), ("c", "i2"), ("f", "f4"), ("b", "i8"), ("d", "u1")],
    [("h", "S4"), ("b", "i4", (2,)), ("d", "f8"), ("a", "i8"), ("g", "S2"), ("c", "f4"), ("f", "u2"), ("e", "i2")],
]
NL3 = 4                                  # the 3-column layouts
WIDE = {6: 4, 7: 5, 8: 6}                # number of columns -> wide layout
# scale tables: row size -> layout; every column is a strictly increasing counter pattern, so the original
# row number of every returned cell is recoverable in O(log n)
BIG = {12: [("id", "i4"), ("x", "f8")],
       16: [("k", "i8"), ("t", "S4"), ("f", "f4")],
       20: [("z", "f8"), ("m", "i4"), ("a", "S8")]}
B62 = "0123456789ABCDEFGHIJKLMNOPQRSTUVWXYZabcdefghijklmnopqrstuvwxyz"     # in ASCII order
RUNCAP = 64                              # an observation of more runs than this is cut (it is wrong anyway)
ALPHA = "abcdefghijklmnopqrstuvwxyzABCDEFGHIJKLMNOPQRSTUVWXYZ0123456789"


def make_table(layout, n, be, seed):
    """n rows; every cell element distinct within its column AND across columns"""
    rng = random.Random(seed * 7919 + layout * 101 + n)
    dt = np.dtype(LAYOUTS[layout])
    if be:
        dt = dt.newbyteorder(">")
    t = np.zeros(n, dtype=dt)
    ints = list(range(1, 120))
    rng.shuffle(ints)
    words = {}
    for nm in dt.names:
        f = t[nm]
        k = f.size
        if f.dtype.kind == "S":
            w = f.dtype.itemsize
            pool = words.setdefault(w, [])
            if not pool:
                if w == 1:
                    pool.extend(ALPHA)
                else:
                    pool.extend(ALPHA[i % 62] + ALPHA[(i // 62 + 7 * i) % 62] + "x" * (w - 2) for i in range(400))
                    # half of the words begin with blanks: a text reader that skips rows or fields by scanning
                    # (rather than by counting) must not eat the leading blanks of the next string cell
                    pool.extend(" " * (1 + i % max(1, w - 2)) + (ALPHA[i % 62] + ALPHA[(i // 62 + 11 * i) % 62] + "y" * w)[:w - 1 - i % max(1, w - 2)]
                                for i in range(400))
                    pool[:] = sorted(set(x for x in pool if len(x) == w and x.strip()))
                rng.shuffle(pool)
            vals = [pool.pop() for _ in range(k)]
            t[nm] = np.array(vals, dtype=f.dtype).reshape(f.shape)
        elif f.dtype.kind == "f":
            vals = [ints.pop() + 0.5 for _ in range(k)]
            t[nm] = np.array(vals).reshape(f.shape)
        else:
            vals = [ints.pop() for _ in range(k)]
            t[nm] = np.array(vals).reshape(f.shape)
    return t


class Fixture:
    """one stored table: an sfile (header + data) and a bare recfile with the same rows"""
    big = False

    def __init__(self, root, layout, n, delim, be, seed):
        from esutil import recfile, sfile
        self.key = (layout, n, delim, be)
        self.layout, self.n, self.delim, self.be = layout, n, delim, be
        self.table = make_table(layout, n, be, seed)
        self.names = list(self.table.dtype.names)
        self.pos = {nm: i + 1 for i, nm in enumerate(self.names)}
        tag = "L%d_n%d_%s_%s" % (layout, n, "bin" if delim is None else "d%02x" % ord(delim), "be" if be else "ne")
        self.fn = os.path.join(root, tag + ".sf")
        self.rfn = os.path.join(root, tag + ".rec")
        sfile.write(self.table.copy(), self.fn, delim=delim)
        recfile.write(self.rfn, self.table.copy(), delim=delim)
        with sfile.SFile(self.fn) as sf:
            self.full = sf.read()
            self.offset = sf._data_start
        self.dtype = self.full.dtype
        with recfile.Recfile(self.rfn, dtype=self.dtype, delim=delim) as rf:
            full2 = rf.read()
        # the reference: the fully-read table (its faithfulness is C01/C04's subject - required here)
        self.ok = (self.full.shape == (n,) and full2.shape == (n,) and self.full.dtype.names == tuple(self.names)
                   and all(np.array_equal(self.full[nm], self.table[nm]) and np.array_equal(full2[nm], self.table[nm])
                           for nm in self.names))
        self.idx = {}
        for nm in self.names:
            col = self.full[nm]
            self.idx[nm] = {col[j:j + 1].tobytes(): j for j in range(n)}
            if len(self.idx[nm]) != n:
                self.ok = False

    def describe(self):
        return {"layout": self.layout, "n": self.n, "delim": self.delim, "be": self.be}


def counter_column(dt, n):
    i = np.arange(n, dtype="i8")
    if dt.kind == "S":
        w = dt.itemsize
        digits = np.zeros((n, w), dtype="u1")
        q = i.copy()
        alpha = np.frombuffer(B62.encode(), dtype="u1")
        for p in range(w - 1, -1, -1):
            digits[:, p] = alpha[q % 62]
            q //= 62
        return digits.view("S%d" % w).reshape(n)
    if dt.kind == "f":
        return (i * 2 + 1).astype(dt) if dt.itemsize == 4 else (i + 0.25).astype(dt)
    return (i * 3 + 7).astype(dt)


class BigFixture:
    """a long stored table (sfile + bare recfile) whose cells are counters"""
    big = True

    def __init__(self, root, rs, n, delim, be):
        from esutil import recfile, sfile
        self.key = ("B%d" % rs, n, delim, be)
        self.layout, self.n, self.delim, self.be = "B%d" % rs, n, delim, be
        dt = np.dtype(BIG[rs])
        if dt.itemsize != rs:
            raise MachineryError("scale layout of %d-byte rows has %d bytes" % (rs, dt.itemsize))
        if be:
            dt = dt.newbyteorder(">")
        self.table = np.zeros(n, dtype=dt)
        for nm in dt.names:
            self.table[nm] = counter_column(dt[nm], n)
        self.names = list(dt.names)
        self.pos = {nm: i + 1 for i, nm in enumerate(self.names)}
        tag = "B%d_n%d_%s_%s" % (rs, n, "bin" if delim is None else "d%02x" % ord(delim), "be" if be else "ne")
        self.fn = os.path.join(root, tag + ".sf")
        self.rfn = os.path.join(root, tag + ".rec")
        sfile.write(self.table.copy(), self.fn, delim=delim)
        recfile.write(self.rfn, self.table.copy(), delim=delim)
        with sfile.SFile(self.fn) as sf:
            self.full = sf.read()
            self.offset = sf._data_start
        self.dtype = self.full.dtype
        with recfile.Recfile(self.rfn, dtype=self.dtype, delim=delim) as rf:
            full2 = rf.read()
        self.ok = (self.full.shape == (n,) and full2.shape == (n,) and self.full.dtype.names == tuple(self.names)
                   and all(np.array_equal(self.full[nm], self.table[nm]) and np.array_equal(full2[nm], self.table[nm])
                           and bool(np.all(self.full[nm][1:] > self.full[nm][:-1])) for nm in self.names))
        self.cols = {nm: np.ascontiguousarray(self.full[nm]).astype(self.full[nm].dtype.newbyteorder("=")) for nm in self.names}
        self.table = None                   # not needed any more

    def decode(self, nm, el):
        """original row number of every cell of `el` (a result column), -1 where the cell is not a cell of column nm"""
        col = self.cols[nm]
        if el.shape[0] == 0:
            return np.zeros(0, dtype="i8")
        j = np.minimum(np.searchsorted(col, el), self.n - 1)
        return np.where(col[j] == el, j, -1).astype("i8")

    def describe(self):
        return {"layout": self.layout, "n": self.n, "delim": self.delim, "be": self.be}


FIX = {}          # key -> Fixture (created before the fork)
ROOT = [None]
SEED = [0]


def fixture(layout, n, delim, be):
    key = (layout, n, delim, bool(be and delim is None))
    fx = FIX.get(key)
    if fx is None:
        if ROOT[0] is None:
            ROOT[0] = tempfile.mkdtemp(prefix="c02-fix-")
        if isinstance(layout, str):
            fx = FIX[key] = BigFixture(ROOT[0], int(layout[1:]), n, delim, key[3])
        else:
            fx = FIX[key] = Fixture(ROOT[0], key[0], n, delim, key[3], SEED[0])
    return fx


def cleanup():
    if ROOT[0]:
        shutil.rmtree(ROOT[0], ignore_errors=True)
    ROOT[0] = None
    FIX.clear()


# ---- abstract request -> concrete arguments ---------------------------------------------------
def rows_arg(rq, var):
    k = rq["k"]
    if k == "scalar":
        return [int(rq["r"]), np.int64(rq["r"]), int(rq["r"]), np.int32(rq["r"])][var % 4]
    if k == "list":
        rs = [int(x) for x in rq["rs"]]
        return [rs, tuple(rs), np.array(rs, dtype="i8"), np.array(rs, dtype="i4")][var % 4]
    if k == "runs":
        parts = [a + st * np.arange(c, dtype="i8") for a, st, c in rq["rs"]]
        rs = np.concatenate(parts) if parts else np.zeros(0, dtype="i8")
        if rs.size > 64:
            return [rs, rs.astype("i4"), rs, rs.tolist()][var % 4]
        return [rs.tolist(), tuple(rs.tolist()), rs, rs.astype("i4")][var % 4]
    if k == "slice":
        return slice(*[None if rq[f] == NONE else int(rq[f]) for f in ("s", "e", "st")])
    return None


def col_name(fx, c):
    return fx.names[c - 1] if 1 <= c <= len(fx.names) else "nosuch%d" % c       # not a column: the statement is silent


def cols_arg(cq, fx, var):
    if cq["k"] == "name":
        return col_name(fx, cq["cs"][0])
    if cq["k"] == "list":
        nm = [col_name(fx, c) for c in cq["cs"]]
        return [nm, tuple(nm), np.array(nm)][(var // 4) % 3]
    return None


def key_of(var):
    return "fields" if (var // 2) % 2 else "columns"


STYLES = ("kw", "bracket", "chain", "chainread", "subset", "conv")


def applicable(style, hk, rq, cq, opt):
    rk, ck = rq["k"], cq["k"]
    if style in ("kw", "conv"):
        return rk != "slice" and (opt != "reduce" or hk == "SFile")
    if style == "bracket":
        return ck == "all" and opt == "none" and rk != "all"
    if style == "chain":
        return ck != "all" and opt == "none" and rk != "all"
    if style == "chainread":
        return ck != "all" and opt in ("none", "split") and rk != "slice"
    if style == "subset":
        return hk == "Recfile" and rk != "slice" and opt in ("none", "split")
    return False


def open_handle(fx, hk, var):
    from esutil import recfile, sfile
    if hk == "SFile":
        return sfile.SFile(fx.fn)
    if var % 2:     # a Recfile on the data region of the sfile, row count given
        return recfile.Recfile(fx.fn, dtype=fx.dtype, delim=fx.delim, offset=fx.offset, nrows=fx.n)
    return recfile.Recfile(fx.rfn, dtype=fx.dtype, delim=fx.delim)


def do_call(fx, h, hk, ev):
    from esutil import recfile, sfile
    rq, cq, opt, style, var = ev["rq"], ev["cq"], ev["opt"], ev["style"], ev["var"]
    R, C, key = rows_arg(rq, var), cols_arg(cq, fx, var), key_of(var)
    kw = {}
    if rq["k"] != "all":
        kw["rows"] = R
    if style in ("kw", "conv", "subset") and cq["k"] != "all":
        kw[key] = C
    if opt == "split" and style != "subset":
        kw["split"] = True
    if opt == "reduce":
        kw["reduce"] = True
    args = [a for a in (R, C) if isinstance(a, np.ndarray)]
    before = [a.tobytes() for a in args]
    try:
        if style == "kw":
            res = h.read(**kw)
        elif style == "bracket":
            res = h[R]
        elif style == "chain":
            res = h[C][R]
        elif style == "chainread":
            res = h[C].read(**kw)
        elif style == "subset":
            res = h.get_subset(**kw).read(split=(opt == "split"))
        elif style == "conv":
            if hk == "SFile":
                res = sfile.read(fx.fn, **kw)
            else:
                res = recfile.read(fx.rfn, fx.dtype, delim=fx.delim, **kw)
        else:
            raise MachineryError("unknown style " + style)
    finally:
        ev["frame_ok"] = all(a.tobytes() == b for a, b in zip(args, before))
    return res


# ---- observable projection: which columns, which original rows, what form ----------------------
def _mal(why):
    return {"err": "malformed", "shape": "none", "cols": [], "rows": [], "why": why}


def _plain(el, fx, hint):
    if not isinstance(el, np.ndarray) or el.dtype.names is not None:
        return None
    if el.ndim == 0:
        el = el.reshape(1)
    cands = [c for c, nm in enumerate(fx.names, 1)
             if fx.full[nm].dtype == el.dtype and fx.full[nm].shape[1:] == el.shape[1:]]
    if not cands:
        return 0, [-1] * el.shape[0]
    scored = {}
    for c in cands:
        ix = fx.idx[fx.names[c - 1]]
        scored[c] = [ix.get(el[i:i + 1].tobytes(), -1) for i in range(el.shape[0])]
    good = [c for c in cands if all(j >= 0 for j in scored[c])]
    # an empty array fits every column of its type: resolve towards the requested one
    c = hint if hint in good else (good[0] if good else (hint if hint in cands else cands[0]))
    return c, scored[c]


def project(res, fx, hint):
    if res is None:
        return _mal("returned_None")
    if isinstance(res, tuple):
        cols, rows = [], None
        for i, el in enumerate(res):
            p = _plain(el, fx, hint[i] if i < len(hint) else 0)
            if p is None:
                return _mal("split_element")
            cols.append(p[0])
            if rows is None:
                rows = p[1]
            elif rows != p[1]:
                return _mal("split_rows_differ")
        return {"err": "none", "shape": "split", "cols": cols, "rows": rows or []}
    if not isinstance(res, np.ndarray):
        return _mal("type_" + type(res).__name__)
    if res.dtype.names is None:
        p = _plain(res, fx, hint[0] if hint else 0)
        return {"err": "none", "shape": "plain", "cols": [p[0]], "rows": p[1]}
    if res.ndim == 0:
        res = res.reshape(1)
    if res.ndim != 1:
        return _mal("extra_axis")
    names = res.dtype.names
    for nm in names:
        if nm in fx.pos and res.dtype[nm] != fx.full.dtype[nm]:
            return _mal("field_dtype")
    rows = []
    for i in range(res.shape[0]):
        js = {fx.idx[nm].get(res[nm][i:i + 1].tobytes(), -1) for nm in names if nm in fx.pos}
        rows.append(js.pop() if len(js) == 1 else -1)
    return {"err": "none", "shape": "struct", "cols": [fx.pos.get(nm, 0) for nm in names], "rows": rows}


def rle(x):
    """a run-length encoding [[first, step, count], ...] of an integer array (any valid one: the trace module
    compares denotations); cut after RUNCAP runs"""
    m = len(x)
    runs = []
    if m == 0:
        return runs
    d = np.diff(x)
    brk = np.flatnonzero(d[1:] != d[:-1]) + 1 if m > 2 else np.zeros(0, dtype="i8")      # d[brk] != d[brk - 1]
    pos = 0
    while pos < m and len(runs) <= RUNCAP:
        if pos == m - 1:
            runs.append([int(x[pos]), 0, 1])
            break
        j = int(np.searchsorted(brk, pos, side="right"))
        e = int(brk[j]) if j < len(brk) else m - 1          # d[pos .. e-1] are equal: elements pos .. e form a run
        runs.append([int(x[pos]), int(d[pos]), e - pos + 1])
        pos = e + 1
    return runs


def _plain_big(el, fx, hint):
    if not isinstance(el, np.ndarray) or el.dtype.names is not None:
        return None
    if el.ndim == 0:
        el = el.reshape(1)
    cands = [c for c, nm in enumerate(fx.names, 1) if fx.full[nm].dtype == el.dtype and el.ndim == 1]
    if not cands:
        return 0, np.full(el.shape[0], -1, dtype="i8")
    scored = {c: fx.decode(fx.names[c - 1], el) for c in cands}
    good = [c for c in cands if bool(np.all(scored[c] >= 0))]
    c = hint if hint in good else (good[0] if good else (hint if hint in cands else cands[0]))
    return c, scored[c]


def project_big(res, fx, hint):
    """the same projection for a long table: rows in run-length form"""
    if res is None:
        return _mal("returned_None")
    if isinstance(res, tuple):
        cols, rows = [], None
        for i, el in enumerate(res):
            p = _plain_big(el, fx, hint[i] if i < len(hint) else 0)
            if p is None:
                return _mal("split_element")
            cols.append(p[0])
            if rows is None:
                rows = p[1]
            elif not np.array_equal(rows, p[1]):
                return _mal("split_rows_differ")
        return {"err": "none", "shape": "split", "cols": cols, "runs": rle(rows if rows is not None else np.zeros(0, "i8"))}
    if not isinstance(res, np.ndarray):
        return _mal("type_" + type(res).__name__)
    if res.dtype.names is None:
        p = _plain_big(res, fx, hint[0] if hint else 0)
        return {"err": "none", "shape": "plain", "cols": [p[0]], "runs": rle(p[1])}
    if res.ndim == 0:
        res = res.reshape(1)
    if res.ndim != 1:
        return _mal("extra_axis")
    names = res.dtype.names
    for nm in names:
        if nm in fx.pos and res.dtype[nm] != fx.full.dtype[nm]:
            return _mal("field_dtype")
    rows = None
    for nm in sorted((nm for nm in names if nm in fx.pos), key=lambda nm: fx.full[nm].dtype.kind == "S"):
        el = np.ascontiguousarray(res[nm])
        if rows is None:
            rows = fx.decode(nm, el)            # the original row of the first cell of every row ...
        elif rows.size:                         # ... must be the original row of every other cell of that row
            rows = np.where(fx.cols[nm][np.maximum(rows, 0)] == el, rows, -1)
    if rows is None:
        rows = np.full(res.shape[0], -1, dtype="i8")
    return {"err": "none", "shape": "struct", "cols": [fx.pos.get(nm, 0) for nm in names], "runs": rle(rows)}


def hint_cols(cq, fx):
    return list(range(1, len(fx.names) + 1)) if cq["k"] == "all" else sorted(set(cq["cs"]))


def observe(fx, h, hk, ev):
    try:
        res = do_call(fx, h, hk, ev)
    except MachineryError:
        raise
    except Exception as e:  # noqa - any exception is a rejection
        return {"err": "rejected", "shape": "none", "cols": [], "rows": [], "why": type(e).__name__}
    if fx.big:
        if isinstance(res, np.ndarray) and "sid" in ev:      # the bytes of the result, for the composition of the parts
            ev["dig"] = hashlib.sha1(np.ascontiguousarray(res).tobytes()).hexdigest() if ev["role"] == "whole" else None
            ev["_bytes"] = np.ascontiguousarray(res).tobytes() if ev["role"] == "part" else None
        return project_big(res, fx, hint_cols(ev["cq"], fx))
    return project(res, fx, hint_cols(ev["cq"], fx))


def run_session(s):
    """s = {layout, n, delim, be, hk, hvar, events:[{rq,cq,opt,style,var}], fresh}: one open handle
    (or, fresh=True, a new handle per event).  noise=True: now and then another handle is opened on the same
    file, read through, and then kept alive or dropped without close()."""
    if s.get("life"):
        return run_life(s)
    fx = fixture(s["layout"], s["n"], s["delim"], s["be"])
    out = dict(s)
    out["nc"] = len(fx.names)
    out["events"] = [dict(e) for e in s["events"]]
    h = None
    others = []
    parts = {}
    try:
        for k, ev in enumerate(out["events"]):
            if h is None or s.get("fresh"):
                if h is not None:
                    h.close()
                h = open_handle(fx, s["hk"], s.get("hvar", 0))
            if s.get("noise") and k % 5 == 2:
                g = open_handle(fx, ("SFile", "Recfile")[(k // 5) % 2], k // 5)
                try:
                    g.read(rows=[0], columns=[fx.names[(k // 5) % len(fx.names)]])
                except Exception:  # noqa - not an observation
                    pass
                if (k // 5) % 2:
                    others.append(g)            # stays alive next to the handle under test
                del g                           # ... or is dropped without close()
            ev["o"] = observe(fx, h, s["hk"], ev)
            b = ev.pop("_bytes", None)
            if b is not None:
                parts.setdefault(ev["sid"], hashlib.sha1()).update(b)
        for ev in out["events"]:
            if ev.get("role") == "whole" and ev.get("dig") and ev["sid"] in parts:
                ev["parts_dig"] = parts[ev["sid"]].hexdigest()
    finally:
        for g in [h] + others:
            if g is not None:
                try:
                    g.close()
                except Exception:  # noqa
                    pass
    return out


# ---- object lifetime: the caller keeps a selection object and lets go of the handle ----------------------
def life_call(obj, ev, fx):
    """one read through the handle (via h: keyword / bracket) or through the selection object (via v: v[rows] / v.read(rows=))"""
    rq, style = ev["rq"], ev["style"]
    R = rows_arg(rq, ev["var"])
    if style in ("bracket", "chain"):
        return obj[R]
    return obj.read(rows=R) if rq["k"] != "all" else obj.read()


def life_observe(obj, ev, fx):
    try:
        res = life_call(obj, ev, fx)
    except MachineryError:
        raise
    except Exception as e:  # noqa - any exception is a rejection
        return {"err": "rejected", "shape": "none", "cols": [], "rows": [], "why": type(e).__name__}
    return project(res, fx, hint_cols(ev["cq"], fx))


def life_until_drop(fx, s, evs, steps):
    """open the handle and run the steps before the drop; returns (handle, selection object, next step).  Run inside
    a helper for mode "scope": its locals - the handle among them - go away when it returns the selection object."""
    h = open_handle(fx, s["hk"], s.get("hvar", 0))
    v = None
    for i, st in enumerate(steps):
        if st["a"] == "derive":
            v = h[cols_arg(st["cq"], fx, s.get("hvar", 0))]
        elif st["a"] == "read":
            ev = evs[st["ev"]]
            ev["o"] = life_observe(h if ev["via"] == "h" else v, ev, fx)
        elif st["a"] == "drop":
            return h, v, i
        elif st["a"] == "collect":
            import gc
            gc.collect()
    return h, v, len(steps)


def life_scope(fx, s, evs, steps):
    h, v, i = life_until_drop(fx, s, evs, steps)
    del h
    return v, i


def run_life(s):
    """s = {layout, n, delim, be, hk, hvar, steps:[{a, via, mode, rq, cq, ev}], events:[reads]}: an exported lifetime
    behaviour with the real reference counting / garbage collector (automatic collection off: the collector runs
    at the "collect" steps)."""
    import gc
    fx = fixture(s["layout"], s["n"], s["delim"], s["be"])
    out = dict(s)
    out["nc"] = len(fx.names)
    evs = out["events"] = [dict(e) for e in s["events"]]
    steps = s["steps"][1:]                         # after "open"
    mode = next((st["mode"] for st in steps if st["a"] == "drop"), None)
    h = v = None
    was = gc.isenabled()
    gc.disable()
    gc.freeze()                                    # what exists already is not this session's: the collector need not scan it
    try:
        if mode == "temp":                         # SFile(f)[cols]: the handle is a temporary of the expression
            v = open_handle(fx, s["hk"], s.get("hvar", 0))[cols_arg(steps[0]["cq"], fx, s.get("hvar", 0))]
            i = 1
        elif mode == "scope":
            v, i = life_scope(fx, s, evs, steps)
        else:
            h, v, i = life_until_drop(fx, s, evs, steps)
            if mode == "cycle":                    # the handle is part of a reference cycle: only the collector frees it
                box = [h]
                box.append(box)
                del box
            if mode is not None:
                h = None
        for st in steps[i + 1:]:
            if st["a"] == "collect":
                gc.collect()
            elif st["a"] == "read":
                ev = evs[st["ev"]]
                if ev["via"] != "v":
                    raise MachineryError("lifetime behaviour reads through the dropped handle")
                ev["o"] = life_observe(v, ev, fx)
        if any("o" not in ev for ev in evs):
            raise MachineryError("lifetime behaviour not fully executed: %s" % s["steps"])
    finally:
        try:
            if h is not None:
                h.close()
        except Exception:  # noqa
            pass
        h = v = None
        gc.collect()
        gc.unfreeze()
        if was:
            gc.enable()
    return out


# ---- signatures ------------------------------------------------------------------------------
ROW_CLAUSES = {"slice_rule", "row_list", "scalar_row", "all_rows", "out_of_range_not_rejected"}


def slice_class(n, rq):
    s, e, st = [None if rq[f] == NONE else rq[f] for f in ("s", "e", "st")]
    s0 = 0 if s is None else s
    if s is not None and s < -n:
        c = "start<-n"
    elif s0 < 0:
        c = "start<0"
    elif s0 >= n:
        c = "start>=n"
    elif e is not None and e < 0:
        c = "stop<0"
    elif e is not None and s0 >= e:
        c = "start>=stop"
    else:
        c = ("stop>n" if (e is not None and e > n) else "inrange") + (",step>1" if (st or 1) > 1 else "")
    return c


def list_class(n, rq):
    rs = rq["rs"]
    if rq["k"] == "scalar":
        return "r<0" if rq["r"] < 0 else "r>=0"
    if rq["k"] == "runs":
        ends = [(a, a + (c - 1) * st) for a, st, c in rs]
        f = ["runs=%s" % ("1" if len(rs) == 1 else ">1")]
        if any(max(e) >= n for e in ends):
            f.append("r>=n")
        if any(min(e) < 0 for e in ends):
            f.append("r<0")
        if len(set(map(tuple, rs))) < len(rs) or any(st == 0 and c > 1 for a, st, c in rs):
            f.append("repeats")
        if any(st < 0 for a, st, c in rs) or [e[0] for e in ends] != sorted(e[0] for e in ends):
            f.append("unsorted")
        if any(abs(st) > 1 for a, st, c in rs):
            f.append("strided")
        return ",".join(f)
    ln = "len=0" if not rs else "len=1" if len(rs) == 1 else "len>1"
    f = []
    if any(r >= n for r in rs):
        f.append("r>=n")
    if any(r < -n for r in rs):
        f.append("r<-n")
    elif any(r < 0 for r in rs):
        f.append("r<0")
    if len(set(rs)) < len(rs):
        f.append("repeats")
    if rs != sorted(rs):
        f.append("unsorted")
    return ",".join([ln] + f)


def col_class(cq, opt):
    if cq["k"] == "name":
        return "scalar name"
    c = "all columns" if cq["k"] == "all" else "ncols=%d" % len(set(cq["cs"]))
    if cq["k"] == "list" and cq["cs"] != sorted(cq["cs"]):
        c += ",unordered"
    return c


def signature(s, ev, clause):
    """<entry point / code path>|<failing clause of the statement>|<structural class of the input>"""
    rq, cq, opt, style, hk = ev["rq"], ev["cq"], ev["opt"], ev["style"], s["hk"]
    form = "binary" if s["delim"] is None else "text"
    why = ev["o"].get("why") if ev["o"]["err"] == "malformed" else None
    cl = clause + (":" + why if why else "")
    big = ",long table" if isinstance(s["layout"], str) else ""
    if clause in ROW_CLAUSES:
        if rq["k"] == "slice":
            path = "slice/binary-allcols" if (form == "binary" and style == "bracket") else "slice/rows-path"
            return "%s|%s|%s%s" % (path, cl, slice_class(s["n"], rq), big)
        if rq["k"] in ("list", "scalar", "runs"):
            return "rows=|%s|%s%s" % (cl, list_class(s["n"], rq), big)
        return "%s.%s/%s|%s|all rows" % (hk, style, form, cl)
    if opt == "reduce":
        red = cq["k"] != "name" and (cq["k"] == "list" and len(set(cq["cs"])) == 1)
        return "sfile.read(reduce=True)|%s|%s" % (cl, "one column" if red else "nothing to reduce")
    if hk == "Recfile" and cq["k"] == "name" and key_of(ev["var"]) == "fields" and style in ("kw", "conv"):
        return "Recfile.read(fields=name)|%s|scalar name" % cl
    return "%s.%s/%s|%s|%s%s" % (hk, style, form, cl, col_class(cq, opt), ",split" if opt == "split" else "")


# ---- judging ---------------------------------------------------------------------------------------
def strip(ev):
    o = ev["o"]
    rows = {"runs": o["runs"]} if "runs" in o else {"rows": o["rows"]}
    return {"q": {"rq": ev["rq"], "cq": ev["cq"], "opt": ev["opt"]},
            "o": dict({"err": o["err"], "shape": o["shape"], "cols": o["cols"]}, **rows)}


def trace_events(s):
    """the trace of a session: its reads, each preceded by the lifetime steps of the caller ("pre"); and the
    (1-based) position of every read in it"""
    ev, posn = [], []
    for e in s["events"]:
        ev.extend({"a": a.split(":")[0]} for a in e.get("pre", ()))
        ev.append(strip(e))
        posn.append(len(ev))
    return ev, posn


def to_records(sessions, start=1):
    return [{"id": start + i, "n": s["n"], "nc": s["nc"], "ev": trace_events(s)[0]} for i, s in enumerate(sessions)]


def replay_case(s, k):
    """a self-contained, re-executable description of event k of session s"""
    if s.get("life"):
        return {"kind": "life", "seed": SEED[0], "layout": s["layout"], "n": s["n"], "delim": s["delim"], "be": s["be"], "hk": s["hk"],
                "hvar": s.get("hvar", 0), "focus": k + 1, "steps": s["steps"],
                "events": [{f: e[f] for f in ("rq", "cq", "opt", "style", "var", "via", "pre")} for e in s["events"]],
                "observed": [e["o"] for e in s["events"]]}
    evs = s["events"][:k + 1] if not s.get("fresh") else [s["events"][k]]
    return {"kind": "session", "seed": SEED[0], "layout": s["layout"], "n": s["n"], "delim": s["delim"], "be": s["be"], "hk": s["hk"],
            "hvar": s.get("hvar", 0), "fresh": bool(s.get("fresh")), "focus": (k if not s.get("fresh") else 0) + 1,
            "noise": bool(s.get("noise")),
            "events": [{f: e[f] for f in ("rq", "cq", "opt", "style", "var")} for e in evs],
            "observed": [e["o"] for e in evs]}


def describe(s, ev):
    if s.get("life"):
        return "%s: %s through %s on a %d-row %s file: rows=%s cols=%s returned %s" % (
            " ; ".join("open" if st["a"] == "open" else "v = h[cols]" if st["a"] == "derive" else "drop h (%s)" % st["mode"] if st["a"] == "drop"
                       else "gc.collect()" if st["a"] == "collect" else "read via %s" % st["via"] for st in s["steps"]),
            ev["style"], "the %s handle" % s["hk"] if ev["via"] == "h" else "the selection object of a dropped %s" % s["hk"],
            s["n"], "binary" if s["delim"] is None else "text(%r)" % s["delim"],
            {k: v for k, v in ev["rq"].items() if v not in (NONE, [], 0) or k == "k"}, ev["cq"]["cs"] or "all", ev["o"])
    key = "(%s=)" % key_of(ev["var"]) if ev["style"] in ("kw", "conv", "subset") and ev["cq"]["k"] != "all" else ""
    return "%s %s%s on a %d-row %s file: rows=%s cols=%s opt=%s returned %s" % (
        s["hk"], ev["style"], key, s["n"], "binary" if s["delim"] is None else "text(%r)" % s["delim"],
        {k: v for k, v in ev["rq"].items() if v not in (NONE, [], 0) or k == "k"}, ev["cq"]["cs"] or "all", ev["opt"], ev["o"])


def judge(ctx, sessions, what, failed=None):
    """TLC judges every session; failing events that are not the first on their handle are
    re-executed on a fresh handle and judged again, to tell a wrong read from a disturbed one.
    `failed` (optional dict) collects (session index, event index) -> clauses."""
    rejects = tracecheck.validate(ctx, "SelectTrace.tla", to_records(sessions), what=what)
    second = []
    for rid, failing in sorted(rejects.items()):
        s = sessions[rid - 1]
        byev = {}
        posn = trace_events(s)[1]
        for k, cl in failing:
            byev.setdefault(posn.index(k), []).append(cl)
        for k, cls in sorted(byev.items()):
            if failed is not None:
                failed[(rid - 1, k)] = cls
            if s.get("life") and any(a.startswith("drop") for e in s["events"][:k + 1] for a in e["pre"]):
                ev = s["events"][k]         # the handle had been let go of: the selection object did not survive it
                mode = next(a for e in s["events"][:k + 1] for a in e["pre"] if a.startswith("drop"))
                for cl in cls:
                    ctx.violation("lifetime/%s|%s|selection object read after its %s handle was let go of (%s)" %
                                  ("binary" if s["delim"] is None else "text", cl, s["hk"], mode.split(":")[1]),
                                  describe(s, ev), replay_case(s, k))
            elif k > 0 and not s.get("fresh"):
                second.append((s, k, cls))
            else:
                for cl in cls:
                    ctx.violation(signature(s, s["events"][k], cl), describe(s, s["events"][k]), replay_case(s, k))
    if second:
        fresh = [run_session(dict(s, events=[{f: s["events"][k][f] for f in ("rq", "cq", "opt", "style", "var")}], fresh=True, life=False))
                 for s, k, _ in second]
        saved = ctx.traces
        rej2 = tracecheck.validate(ctx, "SelectTrace.tla", to_records(fresh), what=what + " [failing events re-run on a fresh handle]")
        ctx.traces = saved
        for i, (s, k, cls) in enumerate(second):
            ev = s["events"][k]
            if (i + 1) in rej2:
                for _, cl in rej2[i + 1]:
                    ctx.violation(signature(fresh[i], fresh[i]["events"][0], cl), describe(fresh[i], fresh[i]["events"][0]),
                                  replay_case(fresh[i], 0))
            else:       # correct on a fresh handle, wrong after the earlier reads: history dependence
                prev = s["events"][k - 1]
                for cl in cls:
                    ctx.violation("handle-sequence|%s|correct on a fresh handle" % cl,
                                  "read disturbed by earlier reads on the same handle (previous: %s %s): %s" %
                                  (prev["style"], prev["rq"]["k"], describe(s, ev)), replay_case(s, k))
    for s in sessions:
        for k, ev in enumerate(s["events"]):
            if not ev.get("frame_ok", True):
                ctx.violation("%s.%s|argument_modified" % (s["hk"], ev["style"]), "the call modified an array argument",
                              replay_case(s, k))
    return rejects


# ---- building sessions from exported cases -----------------------------------------------------------
ROW_REPS = lambda n: [  # noqa: E731  representative row requests for the column sweep
    dict(k="all", r=0, rs=[], s=NONE, e=NONE, st=NONE),
    dict(k="scalar", r=-1, rs=[], s=NONE, e=NONE, st=NONE),
    dict(k="list", r=0, rs=[n - 1, 0], s=NONE, e=NONE, st=NONE),
    dict(k="list", r=0, rs=[0], s=NONE, e=NONE, st=NONE),
    dict(k="slice", r=0, rs=[], s=1, e=NONE, st=NONE),
    dict(k="slice", r=0, rs=[], s=NONE, e=NONE, st=2),
]
CALL = dict(k="all", cs=[])


def forms_for(ctx, i):
    if not ctx.quick:
        return [None] + TEXT_DELIMS
    return [None, TEXT_DELIMS[i % 4], TEXT_DELIMS[(i + 2) % 4]] if i % 2 else [None, TEXT_DELIMS[i % 4]]


def sessions_rows(ctx, rowcases, colreqs):
    """E1: every row request x {all columns, a rotating column selection} x every applicable style"""
    out = []
    sub = [c for c in colreqs if c["k"] != "all"]
    for i, c in enumerate(rowcases):
        n, rq = c["n"], c["rq"]
        cq2 = sub[i % len(sub)]
        for fi, delim in enumerate(forms_for(ctx, i)):
            hks = ("SFile", "Recfile") if not ctx.quick else (("SFile", "Recfile")[(i + fi) % 2],)
            for hk in hks:
                evs = []
                var = i + 3 * fi
                for style in STYLES:
                    if style == "conv" and (i + fi) % 4:
                        continue        # the convenience readers re-open the file: a quarter of the cases
                    for cq in (CALL, cq2):
                        if applicable(style, hk, rq, cq, "none"):
                            evs.append(dict(rq=rq, cq=cq, opt="none", style=style, var=var))
                            var += 1
                out.append(dict(layout=(i + fi) % NL3, n=n, delim=delim, be=(i % 3 == 0), hk=hk, hvar=i + fi,
                                events=evs, src=("row", i)))
    return out


def sessions_cols(ctx, colcases, ns):
    """E2: every column request x option x representative row requests x every applicable style"""
    out = []
    for i, c in enumerate(colcases):
        cq, opt = c["cq"], c["opt"]
        for n in ns:
            for li in range(NL3) if not ctx.quick else ((i + n) % NL3, (i + n + 2) % NL3):
                for fi, delim in enumerate(forms_for(ctx, i + li)):
                    for hk in ("SFile", "Recfile"):
                        evs = []
                        var = i + li + fi
                        for rq in ROW_REPS(n):
                            for style in STYLES:
                                if style == "conv" and rq["k"] != "list":
                                    continue
                                if applicable(style, hk, rq, cq, opt):
                                    evs.append(dict(rq=rq, cq=cq, opt=opt, style=style, var=var))
                                    var += 1
                        if evs:
                            out.append(dict(layout=li, n=n, delim=delim, be=(i % 2 == 0), hk=hk, hvar=i + fi, events=evs,
                                            src=("col", i)))
    return out


def pick_style(rng, hk, rq, cq, opt):
    ok = [st for st in STYLES if applicable(st, hk, rq, cq, opt)]
    return rng.choice(ok) if ok else None


def sessions_beh(ctx, behs):
    """E3: exported behaviours (sequences of reads) replayed on ONE open handle"""
    out = []
    rng = random.Random(ctx.seed * 31 + 5)
    for i, b in enumerate(behs):
        forms = forms_for(ctx, i) if ctx.quick else [None, TEXT_DELIMS[i % 4], TEXT_DELIMS[(i + 1) % 4]]
        for fi, delim in enumerate(forms):
            for hk in ("SFile", "Recfile"):
                evs = []
                for q in b["reqs"]:
                    st = pick_style(rng, hk, q["rq"], q["cq"], q["opt"])
                    if st is None:
                        raise MachineryError("no access style for exported request %s" % q)
                    evs.append(dict(rq=q["rq"], cq=q["cq"], opt=q["opt"], style=st, var=rng.randrange(24)))
                out.append(dict(layout=(i + fi) % NL3, n=b["n"], delim=delim, be=(i % 2 == 1), hk=hk, hvar=i,
                                events=evs, src=("beh", i)))
    return out


def random_request(rng, n):
    kind = rng.choice(["all", "scalar", "list", "list", "slice", "slice", "slice"])
    rq = dict(k=kind, r=0, rs=[], s=NONE, e=NONE, st=NONE)
    if kind == "scalar":
        rq["r"] = rng.randrange(-n - 2, n + 2)
    elif kind == "list":
        if rng.random() < 0.6:      # a valid list: subset / permutation with repeats
            rq["rs"] = [rng.randrange(0, n) for _ in range(rng.randrange(1, min(n, 6) + 2))]
        else:
            rq["rs"] = [rng.randrange(-n - 1, n + 3) for _ in range(rng.randrange(0, 5))]
    elif kind == "slice":
        b = lambda: NONE if rng.random() < 0.25 else rng.randrange(-n - 3, n + 4)  # noqa: E731
        rq["s"], rq["e"] = b(), b()
        rq["st"] = rng.choice([NONE, 1, 1, 2, 3, 4, 5, 7, n + 1])
    ck = rng.choice(["all", "name", "list", "list"])
    cq = dict(k=ck, cs=[])
    if ck == "name":
        cq["cs"] = [rng.randrange(1, 4)]
    elif ck == "list":
        cq["cs"] = rng.sample([1, 2, 3], rng.randrange(1, 4))
    opt = rng.choice(["none", "none", "none", "split", "reduce"])
    return rq, cq, opt


def sessions_random(ctx, count, maxn):
    """E4: seeded random sessions on larger tables (code -> spec)"""
    rng = random.Random(ctx.seed * 1000003 + 17)
    out = []
    for i in range(count):
        n = rng.choice([1, 2, 5, 7, maxn, rng.randrange(1, maxn + 1)])
        hk = rng.choice(["SFile", "Recfile"])
        evs = []
        for _ in range(rng.randrange(1, 7)):
            for _try in range(20):
                rq, cq, opt = random_request(rng, n)
                st = pick_style(rng, hk, rq, cq, opt)
                if st:
                    break
            if st:
                evs.append(dict(rq=rq, cq=cq, opt=opt, style=st, var=rng.randrange(24)))
        out.append(dict(layout=rng.randrange(NL3), n=n, delim=rng.choice([None, None] + TEXT_DELIMS),
                        be=rng.random() < 0.3, hk=hk, hvar=rng.randrange(2), events=evs, src=("rand", i)))
    return out


def sessions_hist(ctx, hists):
    """E5: long simulated histories on ONE handle over a wide table; every read judged as now"""
    out = []
    rng = random.Random(ctx.seed * 8191 + 3)
    H = HIST[ctx.tier]
    for i, b in enumerate(hists):
        forms = [None] + [TEXT_DELIMS[(i + j) % 4] for j in range(H["text"])]
        for fi, delim in enumerate(forms):
            for hk in ("SFile", "Recfile"):
                evs = []
                for q in b["reqs"]:
                    opt = q["opt"]
                    st = pick_style(rng, hk, q["rq"], q["cq"], opt)
                    if st is None:          # no way to ask this handle for that option: ask without it
                        opt = "none"
                        st = pick_style(rng, hk, q["rq"], q["cq"], opt)
                    if st is None:
                        raise MachineryError("no access style for exported request %s" % q)
                    evs.append(dict(rq=q["rq"], cq=q["cq"], opt=opt, style=st, var=rng.randrange(24)))
                out.append(dict(layout=WIDE[b["nc"]], n=b["n"], delim=delim, be=(i % 3 == 1), hk=hk, hvar=i + fi,
                                noise=((i + fi) % 3 == 0), events=evs, src=("hist", i)))
    return out


def sessions_life(ctx, lifes):
    """E7: exported lifetime behaviours - open, derive a selection object, reads, let go of the handle (temporary / scope of
    a helper / del / reference cycle), collector runs, reads through the selection object"""
    out = []
    for i, b in enumerate(lifes):
        evs, steps, pre = [], [], []
        cq = CALL
        for st in b["steps"]:
            st = {f: st[f] for f in ("a", "via", "mode", "rq", "cq")}
            if st["a"] == "derive":
                cq = st["cq"]
                pre.append("derive")
            elif st["a"] == "drop":
                pre.append("drop:" + st["mode"])
            elif st["a"] == "collect":
                pre.append("collect")
            elif st["a"] == "read":
                rk, alt = st["rq"]["k"], (i + len(evs)) % 2
                if st["via"] == "h":
                    style = "bracket" if rk == "slice" else "kw" if rk == "all" else ("kw", "bracket")[alt]
                else:
                    style = "chain" if rk == "slice" else "chainread" if rk == "all" else ("chain", "chainread")[alt]
                st["ev"] = len(evs)
                evs.append(dict(rq=st["rq"], cq=(cq if st["via"] == "v" else CALL), opt="none", style=style, var=i + len(evs),
                                via=st["via"], pre=pre, life=">".join(pre)))
                pre = []
            steps.append(st)
        forms = [None, TEXT_DELIMS[i % 4]] if not ctx.quick else [(None, TEXT_DELIMS[(i // 2) % 4])[i % 2]]
        for fi, delim in enumerate(forms):
            out.append(dict(layout=(i + fi) % NL3, n=b["n"], delim=delim, be=(i % 5 == 0), hk=b["hk"], hvar=i + fi, life=True,
                            steps=steps, events=evs, src=("life", i)))
    return out


SCALE_STYLES = {"slice": ("bracket", "chain"), "list": ("kw", "bracket", "chain", "chainread", "subset", "conv"),
                "runs": ("kw", "bracket", "chain", "chainread", "subset", "conv")}


def sessions_scale(ctx, scales):
    """E6: scale cases - the whole request and (slices) the block sub-requests the concatenation law gives, on one
    handle of a long table; binary for every case, the text form for the cases of the shortest 16-byte-row table"""
    big = [c for c in scales if c["rs"] and c["mode"] != "free"]
    seen, cases = set(), []
    for c in big:
        key = repr(sorted(c.items()))
        if key not in seen:
            seen.add(key)
            cases.append(c)
    if not cases:
        return []
    nmin = min(c["n"] for c in cases)
    groups = {}
    for i, c in enumerate(cases):
        forms = [None] + ([","] if (c["rs"] == 16 and c["n"] == nmin and (ctx.quick is False or i % 2 == 0)) else [])
        for delim in forms:
            hk = ("SFile", "Recfile")[(i + (delim is not None)) % 2]
            groups.setdefault((c["rs"], c["n"], delim, hk), []).append((i, c))
    out = []
    for (rs, n, delim, hk), lst in sorted(groups.items(), key=repr):
        for j in range(0, len(lst), 10):
            evs = []
            for i, c in lst[j:j + 10]:
                ok = [st for st in SCALE_STYLES[c["rq"]["k"]] if applicable(st, hk, c["rq"], c["cq"], "none")]
                if not ok:
                    raise MachineryError("no access style for scale case %s" % c)
                style = ok[i % len(ok)]
                evs.append(dict(rq=c["rq"], cq=c["cq"], opt="none", style=style, var=i, sid=i, role="whole"))
                for pq in c["parts"]:
                    evs.append(dict(rq=pq, cq=c["cq"], opt="none", style=style, var=i, sid=i, role="part"))
            out.append(dict(layout="B%d" % rs, n=n, delim=delim, be=(not ctx.quick and delim is None and j % 20 == 10),
                            hk=hk, hvar=j, events=evs, src=("scale", j)))
    return out


def check_composition(sessions, failed):
    """the law as a relation between implementation outputs: the bytes of the block sub-reads, concatenated, are the bytes
    of the whole read.  TLC has judged every one of them; a difference that it did not see is a hole in the projection."""
    nchk = 0
    for si, s in enumerate(sessions):
        if s["src"][0] != "scale":
            continue
        bad = {e["sid"] for k, e in enumerate(s["events"]) if (si, k) in failed or e["o"]["err"] != "none"}
        for e in s["events"]:
            if e.get("role") == "whole" and "parts_dig" in e and e["sid"] not in bad:
                nchk += 1
                if e["dig"] != e["parts_dig"]:
                    raise MachineryError("scale case %s: the block sub-reads do not concatenate to the whole read although "
                                         "every one was accepted by the trace module" % {f: e[f] for f in ("rq", "cq", "style")})
    return nchk


def prepare_fixtures(sessions):
    bad = []
    for s in sessions:
        fx = fixture(s["layout"], s["n"], s["delim"], s["be"])
        if not fx.ok:
            bad.append(fx.describe())
    return bad


def execute(ctx, sessions):
    bad = prepare_fixtures(sessions)       # before the fork: workers only open what exists
    if bad:
        raise MachineryError("reference table does not read back as written (C01/C04 matter, not C02): %s" % bad[:3])
    done = pmap(run_session, sessions)
    for s in done:
        for ev in s["events"]:
            ctx.count((s["layout"], s["n"], s["delim"], s["be"], s["hk"], ev["rq"], ev["cq"], ev["opt"], ev["style"], ev["var"] % 24)
                      + ((ev["life"],) if "life" in ev else ()))
    return done


# ---- the check ------------------------------------------------------------------------------------------
def model_runs(ctx, B):
    base = dict(B, DoExport=False)
    jobs = {
        "refine": lambda: ctx.tlc("SelectMC.tla", what="normalisation mechanism (deviations off) refines Select; spec theorems "
                                  "(concatenation law, run-length closed form and comparison)",
                                  cfg_text=cfg(constants=dict(base, Dev=set()), next_="NextLaws",
                                               invariants=["BinRefines", "TxtRefines", "PostRefines", "SpecSane", "ColsSane",
                                                           "RunsLaw", "ConcatLaw", "RunsSameSound", "BlockRefines"]),
                                  workers=8, require=["ChooseN", "ChooseRows", "ChooseCols", "ChooseXa", "ChooseXb"], timeout=3000),
        "scale": lambda: ctx.tlc("SelectMC.tla", what="scale cases: block law in closed form, closed form = oracle on small tables; export",
                                 cfg_text=cfg(constants=dict(base, Dev=set(), DoExport=True), next_="NextScale",
                                              invariants=["ScaleBlocks", "ScaleLaw"], constraints=["ExportScale"]),
                                 workers=1, require=["ChooseScaleOf"], timeout=3000),
        "hist": lambda: ctx.tlc("SelectMC.tla", what="simulate long histories on one handle over wide tables",
                                cfg_text=cfg(constants=dict(base, Dev=set(), DoExport=True), next_="NextHist",
                                             invariants=["HistStable"], properties=["HandleStep"], constraints=["ExportHist"]),
                                workers=1, coverage=False, timeout=3000, simulate="num=%d" % HIST[ctx.tier]["num"],
                                extra=["-depth", str(2 * B["HistLen"] + 2), "-seed", str(4000 + ctx.seed)]),
        "selftest": lambda: ctx.tlc("SelectMC.tla", what="self-test: pinned deviations violate the refinement invariants",
                                    cfg_text=cfg(constants=dict(base, Dev=ALLDEV | {"phase_restart"}, MaxN=2, MaxListLen=1, Steps={2}),
                                                 next_="NextCases", invariants=["BinRefines", "TxtRefines", "PostRefines", "BlockRefines"]),
                                    workers=1, allow_violation=True, coverage=False, continue_=True),
        "export": lambda: ctx.tlc("SelectMC.tla", what="export row / column cases with the mechanism's prediction",
                                  cfg_text=cfg(constants=dict(base, Dev=ALLDEV, DoExport=True), next_="NextCases",
                                               constraints=["ExportCases"]), workers=1, coverage=False, timeout=3000),
        "cursor": lambda: ctx.tlc("SelectMC.tla", what="file cursor protocol refines history-free reads (read sequences)",
                                  cfg_text=cfg(constants=dict(base, Dev=set(), MaxReads=3, SeqN={1, 2, 3}), next_="NextCursor",
                                               invariants=["CursorRefines", "CursorInFile"]),
                                  workers=8, timeout=3000,
                                  require=["COpen", "BeginColumns", "BeginSlice", "GotoOffset", "SkipRows", "ReadCell",
                                           "SkipRest", "SkipFirst", "ReadRow", "EndRead"]),
        "cursor_selftest": lambda: ctx.tlc("SelectMC.tla", what="self-test: a reader that does not rewind violates CursorRefines",
                                           cfg_text=cfg(constants=dict(base, Dev={"no_goto"}, MaxReads=2, SeqN={2}), next_="NextCursor",
                                                        invariants=["CursorRefines"]),
                                           workers=1, allow_violation=True, coverage=False),
        "life": lambda: ctx.tlc("SelectMC.tla", what="object lifetime: reads through a held selection object refine fresh reads "
                                "whatever became of the handle's names (heap + collector as actions); export",
                                cfg_text=cfg(constants=dict(base, Dev=set(), DoExport=True), next_="NextLife",
                                             invariants=["LifeRefines", "LifeSane"], constraints=["ExportLife"]),
                                workers=1, require=["LOpen", "LDerive", "LDrop", "LCollect", "LRead"], timeout=3000),
        "life_selftest_f": lambda: ctx.tlc("SelectMC.tla", what="self-test: a handle whose finaliser closes the shared reader violates LifeRefines",
                                           cfg_text=cfg(constants=dict(base, Dev={"finalizer_closes"}, LifeLen=4), next_="NextLife",
                                                        invariants=["LifeRefines"]),
                                           workers=1, allow_violation=True, coverage=False),
        "life_selftest_w": lambda: ctx.tlc("SelectMC.tla", what="self-test: a selection object that does not keep the reader alive violates LifeRefines",
                                           cfg_text=cfg(constants=dict(base, Dev={"view_weak"}, LifeLen=4), next_="NextLife",
                                                        invariants=["LifeRefines"]),
                                           workers=1, allow_violation=True, coverage=False),
        "seq": lambda: ctx.tlc("SelectMC.tla", what="handle state machine: export read sequences",
                               cfg_text=cfg(constants=dict(base, Dev=set(), DoExport=True), next_="NextSeq",
                                            invariants=["HandleStable"], properties=["HandleStep"], constraints=["ExportSeq"]),
                               workers=1, require=["Open", "Read"], timeout=3000),
    }
    n0 = len(ctx.tlc_runs)
    with ThreadPoolExecutor(4) as ex:
        futs = {k: ex.submit(f) for k, f in jobs.items()}
        res = {k: f.result() for k, f in futs.items()}
    ctx.tlc_runs[n0:] = sorted(ctx.tlc_runs[n0:], key=lambda r: r["what"])
    for r in ctx.tlc_runs[n0:]:
        r["violated"] = sorted(set(r["violated"]))      # -continue names an invariant once per violating state
    need = {"BinRefines", "TxtRefines", "PostRefines", "BlockRefines"}
    if not need <= set(res["selftest"].violated):
        raise MachineryError("self-test failed: deviating mechanism violates only %s" % sorted(set(res["selftest"].violated)))
    for k in ("life_selftest_f", "life_selftest_w"):
        if "LifeRefines" not in res[k].violated:
            raise MachineryError("self-test failed: LifeRefines not violated by the deviating lifetime mechanism (%s)" % k)
    if "CursorRefines" not in res["cursor_selftest"].violated:
        raise MachineryError("self-test failed: CursorRefines not violated by a reader that does not rewind")
    return res


def mech_binding(ctx, rowcases, colcases, sessions, failed):
    """lead + binding: where the mechanism model (pinned deviations) departs from the property,
    compared with where the real code was rejected by the trace spec"""
    real = {"bin": set(), "txt": set(), "fields": set(), "sfile_opt": set()}
    seen = {"bin": set(), "txt": set(), "fields": set(), "sfile_opt": set()}
    for si, s in enumerate(sessions):
        kind, ci = s["src"]
        for k, ev in enumerate(s["events"]):
            cls = failed.get((si, k), [])
            if kind == "row":
                if ev["rq"]["k"] == "slice":
                    path = "bin" if (s["delim"] is None and ev["style"] == "bracket") else "txt"
                else:       # scalars and lists: one normalisation on every path
                    path = "bin" if s["delim"] is None else "txt"
                seen[path].add(ci)
                if any(c in ROW_CLAUSES for c in cls):
                    real[path].add(ci)
            if kind == "col" and ev["rq"]["k"] == "all":
                if s["hk"] == "Recfile" and ev["style"] in ("kw", "conv") and key_of(ev["var"]) == "fields":
                    seen["fields"].add(ci)
                    if any(c not in ROW_CLAUSES for c in cls):
                        real["fields"].add(ci)
                if s["hk"] == "SFile" and ev["style"] in ("kw", "conv"):
                    seen["sfile_opt"].add(ci)
                    if any(c not in ROW_CLAUSES for c in cls):
                        real["sfile_opt"].add(ci)
    model = {"bin": {i for i, c in enumerate(rowcases) if c["devb"]}, "txt": {i for i, c in enumerate(rowcases) if c["devt"]},
             "fields": {i for i, c in enumerate(colcases) if c["devr"]}, "sfile_opt": {i for i, c in enumerate(colcases) if c["devs"]}}
    rep = {}
    for k in real:
        m = model[k] & seen[k]
        rep[k] = {"cases_executed": len(seen[k]), "model_deviates": len(m), "code_deviates": len(real[k]),
                  "both": len(m & real[k]), "only_model": len(m - real[k]), "only_code": len(real[k] - m)}
        ctx.log("mechanism binding %-9s model %d / code %d / both %d (of %d cases)" %
                (k, len(m), len(real[k]), len(m & real[k]), len(seen[k])))
    ctx.note(mechanism_vs_code=rep)
    return rep


def self_test(ctx, sessions, failed):
    """binding: a corrupted observation must be rejected, and only it"""
    dirty = {si for si, _ in failed}
    probe = next((s for si, s in enumerate(sessions) if si not in dirty and not s.get("fresh") and not s.get("life") and
                  any(e["o"]["err"] == "none" and len(e["o"].get("rows", [])) >= 2 for e in s["events"])), None)
    if probe is None:
        raise MachineryError("binding self-test: no accepted session with a two-row result to corrupt")
    k = next(i for i, e in enumerate(probe["events"]) if e["o"]["err"] == "none" and len(e["o"].get("rows", [])) >= 2)
    base = to_records([probe])[0]
    variants = []
    for field, f in (("rows", lambda o: dict(o, rows=o["rows"][1:])),
                     ("rows", lambda o: dict(o, rows=list(reversed(o["rows"])))),
                     ("cols", lambda o: dict(o, cols=[(c % 3) + 1 for c in o["cols"]])),
                     ("shape", lambda o: dict(o, shape={"struct": "plain", "plain": "struct", "split": "struct"}[o["shape"]])),
                     ("err", lambda o: dict(o, err="rejected", shape="none", cols=[], rows=[]))):
        r = {"id": len(variants) + 2, "n": base["n"], "nc": base["nc"], "ev": [dict(e) for e in base["ev"]]}
        r["ev"][k] = {"q": base["ev"][k]["q"], "o": f(base["ev"][k]["o"])}
        variants.append(r)
    saved = ctx.traces
    clean = tracecheck.validate(ctx, "SelectTrace.tla", [dict(base, id=1)] + variants, what="self-test: corrupted observations rejected",
                                workers=1)
    ctx.traces = saved
    before = clean.get(1, [])
    for r in variants:
        got = [x for x in clean.get(r["id"], []) if x not in before]
        if not any(x[0] == k + 1 for x in got):
            raise MachineryError("binding self-test failed: corrupted record %d not rejected at event %d (%s)" % (r["id"], k + 1, clean))
    # the same for a late read of a long history (another selection's columns) and for a run-length observation
    # (the stride phase slips after the first part of the run; a row missing; a row of another table)
    recs, want = [], {}
    hs = next((s for si, s in enumerate(sessions) if si not in dirty and s["src"][0] == "hist"), None)
    if hs is not None:
        base = to_records([hs])[0]
        k = max(i for i, e in enumerate(hs["events"]) if e["o"]["err"] == "none" and e["o"]["cols"])
        if k < 16:
            raise MachineryError("binding self-test: no late accepted read in a long history")
        o = base["ev"][k]["o"]
        recs.append(dict(base, id=1))
        r = dict(base, id=2, ev=[dict(e) for e in base["ev"]])
        r["ev"][k] = {"q": base["ev"][k]["q"], "o": dict(o, cols=[(c % hs["nc"]) + 1 for c in o["cols"]])}
        recs.append(r)
        want[2] = k + 1
    bs = next(((s, i) for si, s in enumerate(sessions) if si not in dirty and s["src"][0] == "scale"
               for i, e in enumerate(s["events"]) if e["o"]["err"] == "none" and len(e["o"].get("runs", [])) == 1
               and e["o"]["runs"][0][2] >= 4), None)
    if bs is not None:
        s0, k = bs
        base = to_records([s0])[0]
        a, st, c = base["ev"][k]["o"]["runs"][0]
        recs.append(dict(base, id=11))
        for j, runs in enumerate(([[a, st, c // 2], [a + (c // 2) * st + 1, st, c - c // 2]], [[a, st, c - 1]],
                                  [[a, st, c - 1], [-1, 0, 1]], [[a, st, c], [a + c * st, 0, 1]])):
            r = dict(base, id=12 + j, ev=[dict(e) for e in base["ev"]])
            r["ev"][k] = {"q": base["ev"][k]["q"], "o": dict(base["ev"][k]["o"], runs=runs)}
            recs.append(r)
            want[12 + j] = k + 1
        # a different encoding of the same rows must be accepted
        r = dict(base, id=20, ev=[dict(e) for e in base["ev"]])
        r["ev"][k] = {"q": base["ev"][k]["q"], "o": dict(base["ev"][k]["o"], runs=[[a, 5, 1], [a + st, st, c - 2], [a + (c - 1) * st, 0, 1]])}
        recs.append(r)
    # ... and for a read through a selection object whose handle has been let go of
    ls = next((s for si, s in enumerate(sessions) if si not in dirty and s.get("life") and s["events"][-1]["o"]["err"] == "none"
               and any(a.startswith("drop") for a in s["events"][-1]["pre"])), None)
    if ls is not None:
        base = to_records([ls])[0]
        recs.append(dict(base, id=31))
        r = dict(base, id=32, ev=[dict(e) for e in base["ev"]])
        r["ev"][-1] = {"q": base["ev"][-1]["q"], "o": {"err": "rejected", "shape": "none", "cols": [], "rows": []}}
        recs.append(r)
        want[32] = len(base["ev"])
    if recs:
        saved = ctx.traces
        got = tracecheck.validate(ctx, "SelectTrace.tla", recs, what="self-test: corrupted late reads / run-length observations rejected",
                                  workers=1)
        ctx.traces = saved
        for rid, ev in want.items():
            if not any(x[0] == ev for x in got.get(rid, [])):
                raise MachineryError("binding self-test failed: corrupted record %d not rejected at event %d (%s)" % (rid, ev, got))
        if any(rid in got for rid in (1, 11, 20, 31)):
            raise MachineryError("binding self-test failed: an uncorrupted record was rejected (%s)" % got)
    return hs is not None, bs is not None and (ls is not None or not any(s.get("life") for s in sessions))


def run(ctx):
    B = BOUNDS[ctx.tier]
    SEED[0] = ctx.seed
    only = getattr(ctx, "only", None)
    try:
        res = model_runs(ctx, B)
        rowcases = res["export"].records.get("ROWCASE", [])
        colcases = res["export"].records.get("COLCASE", [])
        behs = res["seq"].records.get("BEH", [])
        if not rowcases or not colcases or not behs:
            raise MachineryError("no cases exported (rows %d, cols %d, behaviours %d)" % (len(rowcases), len(colcases), len(behs)))
        # tlc -simulate evaluates the export constraint on every successor of the last step: one history per behaviour
        hists, seenp = [], set()
        for hh in res["hist"].records.get("HIST", []):
            pre = repr(hh["reqs"][:-1])
            if pre not in seenp and len(hh["reqs"]) == B["HistLen"]:
                seenp.add(pre)
                hists.append(hh)
        scales = res["scale"].records.get("SCALE", [])
        nbig = len([c for c in scales if c["rs"]])
        if len(hists) < HIST[ctx.tier]["num"] // 2 or nbig < 40 or not any(c["rs"] == 0 for c in scales):
            raise MachineryError("too few long histories (%d) / scale cases (%d) exported" % (len(hists), nbig))
        if not any(q["rq"]["k"] == "list" and max(q["rq"]["rs"]) >= hh["n"] for hh in hists for q in hh["reqs"][:-1]):
            raise MachineryError("no rejected call inside a long history")
        lifes = res["life"].records.get("LIFE", [])
        modes = {st["mode"] for b in lifes for st in b["steps"] if st["a"] == "drop"}
        if len(lifes) < 200 or modes != {"del", "scope", "temp", "cycle"} or not any(st["a"] == "collect" for b in lifes for st in b["steps"]):
            raise MachineryError("too few lifetime behaviours exported (%d, drop modes %s)" % (len(lifes), sorted(modes)))
        colreqs = [c["cq"] for c in colcases if c["opt"] == "none"]
        sessions = []
        if not only or "e1" in only:
            sessions += sessions_rows(ctx, rowcases, colreqs)
        if not only or "e2" in only:
            sessions += sessions_cols(ctx, colcases, (1, 3) if ctx.quick else (1, 2, 4))
        if not only or "beh" in only:
            sessions += sessions_beh(ctx, behs)
        nrand, maxn = (1500, 12) if ctx.quick else (30000, 16)
        if not only or "rand" in only:
            sessions += sessions_random(ctx, nrand, maxn)
        if not only or "hist" in only:
            sessions += sessions_hist(ctx, hists)
        if not only or "scale" in only:
            sessions += sessions_scale(ctx, scales)
        if not only or "life" in only:
            sessions += sessions_life(ctx, lifes)
        ctx.log("executing %d handle sessions, %d reads (%d long histories, %d scale cases)" %
                (len(sessions), sum(len(s["events"]) for s in sessions), len(hists), nbig))
        done = execute(ctx, sessions)
        for s in done[:: max(1, len(done) // 5)][:5]:
            ctx.sample({"table": fixture(s["layout"], s["n"], s["delim"], s["be"]).describe(), "handle": s["hk"],
                        "events": [{"style": e["style"], "rq": e["rq"], "cq": e["cq"], "opt": e["opt"], "observed": e["o"]}
                                   for e in s["events"][:3]]})
        failed = {}
        judge(ctx, done, "judge every read of every handle session (SelectTrace)", failed)
        rep = mech_binding(ctx, rowcases, colcases, done, failed)
        ncomp = check_composition(done, failed)
        st_hist, st_scale = self_test(ctx, done, failed)
        if not only and not (st_hist and st_scale and ncomp):
            raise MachineryError("binding self-test: no clean long history / scale session (%s, %s, %d compositions)" %
                                 (st_hist, st_scale, ncomp))
        nev = sum(len(s["events"]) for s in done)
        ctx.rule = ("every row request for tables of 1..%d rows (every slice with start, stop in [-n-2, n+2] or None and step in None,%s; "
                    "every row list of length 0..%d over [-n-1, n+1] and every permutation of 0..n-1; every scalar in [-n-1, n]) and "
                    "every column request (all, each scalar name, each non-empty ordered subset of 3 columns) x {none, split, reduce}, "
                    "exported from SelectMC.tla; each executed in every applicable access style (keyword read, bracket, chained "
                    "columns-then-rows, column-subset read, get_subset, convenience readers) on SFile and Recfile handles over binary "
                    "and text files (delimiters , : tab space) of %d table layouts; %d exported behaviours of <= %d reads on one handle; "
                    "%d seeded random sessions on tables up to %d rows; %d histories of %d reads on one handle (tlc -simulate over "
                    "NextHist: tables of 6-8 columns, each column selection new / requested before / one of the first three, out-of-range "
                    "row lists and unknown column names interleaved, other handles on the file opened and dropped meanwhile), every read "
                    "judged as now; %d scale cases on tables of %s rows with 12-, 16- and 20-byte rows (slices with step in %s and "
                    "run-length row lists across and at the 2^16 / 2^17 / 1 MiB-block row boundaries, each slice also as the block "
                    "sub-slices the concatenation law gives; binary, and text for one table), judged in run-length form; %d lifetime "
                    "behaviours of %d steps (open, v = h[columns], reads through h and v, the handle let go of as a temporary / "
                    "local of a helper / del / member of a reference cycle, gc.collect(), reads through v; SFile and Recfile, "
                    "binary and text). A case is "
                    "distinct by (table layout, n, file form, handle, request, style, argument container variant); every one selects "
                    "from a non-empty table" %
                    (B["MaxN"], ",".join(str(x) for x in sorted(B["Steps"])), B["MaxListLen"], NL3, len(behs), B["MaxReads"],
                     nrand, maxn, len(hists), B["HistLen"], nbig, ",".join(str(x) for x in sorted(B["ScaleNs"])),
                     ",".join(str(x) for x in sorted(B["ScaleSteps"])), len(lifes), B["LifeLen"]))
        # the first case listed per signature should be a readable one: prefer 3-4 rows and short sessions
        ctx.violations.sort(key=lambda v: (v[0], abs(v[2].get("n", 0) - 3), len(v[2].get("events", []))))
        ctx.exhaustive = True
        ctx.note(bounds={k: sorted(v) if isinstance(v, set) else v for k, v in B.items()}, row_cases=len(rowcases),
                 column_cases=len(colcases), behaviours=len(behs), handle_sessions=len(done), reads=nev,
                 fixtures=len(FIX), long_histories=len(hists), reads_per_long_history=B["HistLen"], scale_cases=nbig,
                 scale_compositions_checked=ncomp, lifetime_behaviours=len(lifes))
        ctx.assumptions = [
            "the fully-read table is the reference (its faithfulness to what was written is C01/C04; the fixtures are verified to read back as written)",
            "cells are unique tokens, so a result is identified with (columns, original row indices, form); an empty plain array is attributed to the requested column when its dtype fits",
            "scalar rows outside [-n, n) are outside the quantifier (unconstrained); negative entries inside a row list and the empty row list may be rejected or served as numpy would",
            "reduce=True on a selection that is not exactly one structured column must leave the result as it is (the docstring's only reading besides reducing)",
            "a column name that is not in the table, and a run-length row list with negative or interleaved runs, are outside the statement (any outcome); the calls are made all the same, as steps of the history",
            "a selection object h[columns] the caller still holds stands for the stored table whatever became of the caller's names of the handle (temporary, helper local, del, collected); after an explicit close() the statement is silent - close() is never part of an exported lifetime behaviour",
            "long tables carry counter cells (every column strictly increasing), so the original row of every returned cell is identified exactly; the rows are handed to TLC in run-length form",
        ]
    finally:
        cleanup()


def replay(ctx, case):
    SEED[0] = case.get("seed", ctx.seed)
    try:
        if case.get("kind") == "life":
            s = dict(layout=case["layout"], n=case["n"], delim=case["delim"], be=case["be"], hk=case["hk"], hvar=case.get("hvar", 0),
                     life=True, steps=case["steps"], events=case["events"], src=("replay", 0))
            if not fixture(s["layout"], s["n"], s["delim"], s["be"]).ok:
                raise MachineryError("reference table does not read back as written")
            done = run_life(s)
            for k, e in enumerate(done["events"]):
                print("replay read %d: %s" % (k + 1, describe(done, e)))
            judge(ctx, [done], "replay")
            return
        s = dict(layout=case["layout"], n=case["n"], delim=case["delim"], be=case["be"], hk=case["hk"], hvar=case.get("hvar", 0),
                 fresh=case.get("fresh", False), noise=case.get("noise", False), events=case["events"], src=("replay", 0))
        fx = fixture(s["layout"], s["n"], s["delim"], s["be"])
        if not fx.ok:
            raise MachineryError("reference table does not read back as written")
        done = run_session(s)
        for k, e in enumerate(done["events"]):
            print("replay event %d: %s" % (k + 1, describe(done, e)))
        judge(ctx, [done], "replay")
    finally:
        cleanup()
