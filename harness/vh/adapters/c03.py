"""C03 - appends accumulate: the file equals the concatenation of all writes.

spec -> code : RecStoreMC.tla explores every history of file operations up to a depth and checks the
               invariants / action properties of RecStore.tla on it; its behaviours are exported (all
               behaviours up to a length, a transition tour of the state graph, -simulate behaviours) and
               each is executed step by step on the real esutil (SFile handles, sfile.write(append=True),
               io.write), every file being read back through a fresh reader after every action.
code -> spec : those recorded step-by-step traces, plus seeded random longer call sequences, are validated
               by RecStoreTrace.tla, which re-uses RecStore's actions and evaluates every invariant at
               every step.  TLC names the clause(s) no allowed outcome satisfies.
mechanism    : RecStoreMech.tla - the implementation-shaped model (SIZE line rewritten in place, the row counts cached in
               SFile / Recfile / the C++ object, the compatibility check): its own invariants are model-checked and a
               transition tour of its behaviours is judged by RecStoreTrace.tla like traces of the real code (refinement by
               trace inclusion); each known deviation of the code is a constant whose FALSE variant must be rejected.
Python never judges: it maps abstract events to calls, records, and builds signatures from what TLC reports.
"""
import json
import os
import random
from concurrent.futures import ThreadPoolExecutor

from .. import recstore_common as rc
from .. import tracecheck
from ..core import MachineryError
from ..par import pmap
from ..tlc import cfg

NEEDS_EXT = True

ALL_ACTS = {"open", "hwrite", "hread", "hclose", "hdrop", "create", "overwrite", "append", "appendbad", "appendmissing",
            "read", "readhdr"}
WRITE_ACTS = ALL_ACTS - {"read", "readhdr"}
HANDLE_ACTS = {"open", "hwrite", "hread", "hclose", "hdrop", "append", "appendbad", "read"}
REQUIRE = ["MOpen", "MHWrite", "MHRead", "MHClose", "MHDrop", "MCreate", "MOverwrite", "MAppendCompatible",
           "MAppendIncompatible", "MAppendMissing", "MReadBack", "MReadHeader"]
PROPS = dict(invariants=["SizeInv", "HandleInv", "ReadInv", "ConcatInv"], properties=["AppendsAccumulate", "FrameProp"])

CHUNKS5 = {"a", "b", "n", "t", "o"}
CHUNKS8 = CHUNKS5 | {"s", "f", "r"}
MODES = {"w", "w+", "r+", "r"}
SELS = {"all", "first", "head", "cols"}

TIERS = {
    "quick": dict(
        models=[  # (what, constants)
            ("1 path, 1 handle, depth 5", dict(Paths={1}, Handles={1}, ChunkIds=CHUNKS5, Hdrs={"none", "h1"},
                                               Delims={"none", "c"}, Modes=MODES, MaxDepth=5)),
            ("2 paths, 1 handle, depth 3", dict(Paths={1, 2}, Handles={1}, ChunkIds=CHUNKS5, Hdrs={"none", "h1"},
                                                Delims={"none", "c"}, Modes=MODES, MaxDepth=3)),
        ],
        behaviours=dict(Paths={1}, Handles={1}, ChunkIds={"b", "n"}, Hdrs={"none", "h1"}, Delims={"none", "c"},
                        Modes={"w", "r+"}, MaxDepth=3),
        tour=dict(Paths={1}, Handles={1}, ChunkIds={"a", "b", "n", "o"}, Hdrs={"none", "h1"}, Delims={"none", "c"},
                  Modes=MODES, MaxDepth=4),
        tour_keep=3000,
        simulate=dict(num=200, depth=10, keep=1000,
                      consts=dict(Paths={1, 2}, Handles={1, 2}, ChunkIds=CHUNKS8, Hdrs={"none", "h1", "h2"},
                                  Delims={"none", "c", "t", "s"}, Modes=MODES)),
        random=800,
        scale=16,
        orders=dict(keep=360, depth=3),
        mechanism=dict(depth=4, tour_depth=3, dev_depth=4),
    ),
    "thorough": dict(
        models=[
            ("1 path, 1 handle, depth 7", dict(Paths={1}, Handles={1}, ChunkIds=CHUNKS5, Hdrs={"none", "h1"},
                                               Delims={"none", "c"}, Modes=MODES, MaxDepth=7)),
            ("2 paths, 1 handle, 8 chunks, 3 delimiters, depth 4",
             dict(Paths={1, 2}, Handles={1}, ChunkIds=CHUNKS8, Hdrs={"none", "h1"}, Delims={"none", "c", "s"},
                  Modes=MODES, MaxDepth=4)),
            ("2 paths, 2 handles, depth 4", dict(Paths={1, 2}, Handles={1, 2}, ChunkIds=CHUNKS5, Hdrs={"none", "h1"},
                                                 Delims={"none", "c"}, Modes=MODES, MaxDepth=4)),
        ],
        behaviours=dict(Paths={1}, Handles={1}, ChunkIds=CHUNKS5, Hdrs={"none", "h1"}, Delims={"none", "c"},
                        Modes=MODES, MaxDepth=3),
        tour=dict(Paths={1}, Handles={1}, ChunkIds={"a", "b", "n", "o"}, Hdrs={"none", "h1"}, Delims={"none", "c", "s"},
                  Modes=MODES, MaxDepth=5),
        tour_keep=30000,
        simulate=dict(num=3000, depth=12, keep=30000,
                      consts=dict(Paths={1, 2}, Handles={1, 2}, ChunkIds=CHUNKS8, Hdrs={"none", "h1", "h2"},
                                  Delims={"none", "c", "t", "s"}, Modes=MODES)),
        random=8000,
        scale=96,
        orders=dict(keep=6000, depth=4),
        mechanism=dict(depth=7, tour_depth=4, dev_depth=5),
    ),
}

CLAUSE_ORDER = ["unexpected_error", "not_rejected", "read_rows", "read_descr", "read_header", "read_count", "read_delim",
                "file_state", "rows", "stored_count", "header", "descr", "delim",
                "rejected_bytes_changed", "combination", "spec_invariant", "out_of_scope"]

CLAUSE_TEXT = {
    "unexpected_error": "the call raised although the statement requires it to succeed",
    "not_rejected": "'an append whose fields are incompatible with the file is rejected with an error'",
    "read_rows": "'reading the file returns the concatenation of all written chunks in order' (read through the handle / reader)",
    "rows": "'reading the file returns the concatenation of all written chunks in order'",
    "stored_count": "'the stored row count equals the total number of rows'",
    "read_count": "'the stored row count equals the total number of rows'",
    "header": "'the user header given at creation is retained unchanged by later appends'",
    "read_header": "'the user header given at creation is retained unchanged by later appends'",
    "file_state": "the file is missing / empty / unreadable where the statement requires a readable file (or vice versa)",
    "descr": "the fields of the file changed",
    "read_descr": "the fields of the file changed",
    "delim": "the storage form (binary / delimiter) of the file changed",
    "read_delim": "the storage form (binary / delimiter) of the file changed",
    "rejected_bytes_changed": "'... is rejected with an error and leaves the file's bytes unchanged'",
}


def mc_constants(c, keep=False, export_at=0, acts=ALL_ACTS, max_rows=12):
    out = dict(c)
    out.setdefault("Sels", SELS)
    out.update(MaxRows=max_rows, KeepHist=keep, ExportAt=export_at, Acts=set(acts))
    return out


# ---- behaviours -> traces ----------------------------------------------------------------------
def clean_events(beh):
    """events as exported by RecStoreMC (or generated here): keep the call, drop the model's outcome"""
    return [dict({k: e[k] for k in ("op", "h", "p", "mode", "delim", "chunk", "hdr")}, sel=e.get("sel", "all")) for e in beh]


def variant(i, seed):
    """concretisation of behaviour number i: dtype family, writer / reader entry points, observation schedule"""
    k = i + seed
    return dict(fam=k % rc.GENERAL_FAMS, writer=(k // 2) % len(rc.WRITERS), reader=(k // 3) % len(rc.READERS),
                sched="every" if k % 4 else "sparse",
                # the handle objects: SFile, or a bare recfile.Recfile (no header: only the calls that need none);
                # one object per handle id opened again and again, or (1 in 5) a new object for every open
                lib="recfile" if k % 7 == 3 else "sfile", reuse=k % 5 != 4,
                # how many rows a block token stands for (only histories with a BIG chunk): sizes around the 16 MiB boundary
                bigkind=k % rc.BIG_KINDS)


def exec_trace(job):
    """job = (id, events, variant dict, npaths, seed) -> record"""
    tid, events, v, npaths, seed = job
    kept, done = rc.run_trace(seed, v["fam"], events, npaths=npaths, writer=v["writer"], reader=v["reader"],
                              sched=v["sched"], lib=v.get("lib", "sfile"), reuse=v.get("reuse", True), bigkind=v.get("bigkind", 0))
    return {"id": tid, "events": kept, "v": v, "npaths": npaths, "seed": seed, "done": done}


def quiet_pmap(fn, jobs):
    """the C++ layer prints diagnostics on fd 2 while replaying"""
    rc.session_root()
    saved = os.dup(2)
    null = os.open(os.devnull, os.O_WRONLY)
    try:
        os.dup2(null, 2)
        return pmap(fn, jobs)
    finally:
        os.dup2(saved, 2)
        os.close(null)
        os.close(saved)


def parse_failing(failing):
    d = {}
    for k, v in failing:
        d.setdefault(k, []).append(v)
    clauses = sorted(d.get("clause", []), key=lambda c: CLAUSE_ORDER.index(c) if c in CLAUSE_ORDER else 99)
    step = int(d["step"][0]) if "step" in d else 0
    cls = {k: v[0] for k, v in d.items() if k not in ("clause", "step")}
    return step, clauses, cls


def signature(rec, step, clauses, cls):
    """<entry point>|<first failing clause>|<structural class of the step> (state of the file before the call, storage
    kind, compatibility of the chunk; the mode only where the handle's mode is what matters; for calls on a handle how
    the handle object was used before - input-side features only)"""
    e = rec["done"][step - 1]
    entry = rc.entry_name(e, rec["v"]["writer"], rec["v"]["reader"] if e["op"] != "hread" else 0, rec["v"].get("lib", "sfile"))
    op = e["op"]
    if op == "open" and still_open(rec["done"], step):
        # opening an object again closes what it had open: what it wrote there becomes observable at this step
        c = "file=%s,implicit_close,writes=%s,object=%s" % (cls.get("pre"), handle_writes_class(rec["done"], step),
                                                            object_use(rec, step, before_this_open=True))
    elif op == "open":
        c = "file=%s,object=%s" % (cls.get("pre"), object_use(rec, step))
    elif op == "hwrite":
        c = "first_write=%s,chunk=%s,%s,object=%s" % (cls.get("fresh"), cls.get("compat"), cls.get("kind"), object_use(rec, step))
    elif op == "hread":
        c = "mode=%s,%s,sel=%s,object=%s" % (cls.get("mode"), cls.get("kind"), e.get("sel", "all"), object_use(rec, step))
    elif op in ("hclose", "hdrop"):
        # what the handle wrote becomes observable only now: class of the chunks written through it since it was opened
        c = "writes=%s,%s,object=%s" % (handle_writes_class(rec["done"], step), cls.get("kind"), object_use(rec, step))
    else:
        c = "file=%s,chunk=%s,%s" % (cls.get("pre"), cls.get("compat"), cls.get("kind"))
    if any(t >= rc.BIG_TOK for t in e["chunk"]["rows"]):
        c += ",big_chunk"                 # more rows than one 16 MiB I/O block holds
    if e["chunk"]["rows"] and e["chunk"]["descr"][1] in rc.MIXED_ORDERS:
        c += ",byteorder_mixed_per_field"   # only the sub-array fields / only the scalar fields non-native
    return "%s|%s|%s" % (entry, clauses[0], c)


def still_open(done, step):
    """the handle of the open call at `step` was open when it was called"""
    h = done[step - 1]["h"]
    for e in reversed(done[:step - 1]):
        if e["h"] == h and e["op"] in ("hclose", "hdrop"):
            return False
        if e["h"] == h and e["op"] == "open":
            return e["res"]["err"] == "none" and e["res"].get("size", -1) is not None
    return False


def object_use(rec, step, before_this_open=False):
    """how the handle object of the call at `step` was used before (for the signature only): `new` - first opened for
    this; `reopened` - the object was opened before (closed or not) and opened again; plus `+partial_read` when a
    partial read through it preceded a write since its last open"""
    done = rec["done"]
    h = done[step - 1]["h"]
    opens = [i for i, e in enumerate(done[:step - 1 if before_this_open else step]) if e["op"] == "open" and e["h"] == h]
    use = "new" if len(opens) <= 1 or not rec["v"].get("reuse", True) else "reopened"
    since = done[(opens[-1] if opens else 0):(step - 1 if before_this_open else step)]
    partial = False
    for e in since:
        if e["h"] != h:
            continue
        if e["op"] == "hread" and e.get("sel", "all") != "all":
            partial = True
        elif e["op"] == "hwrite" and partial:
            return use + "+partial_read_before_write"
    return use


def handle_writes_class(done, step):
    """structural class of the chunks accepted through the handle closed at `step` since it was opened (used for the
    signature only)"""
    h = done[step - 1]["h"]
    descrs = []
    for e in reversed(done[:step - 1]):
        if e["h"] != h:
            continue
        if e["op"] == "open":
            o = e["obs"][e["p"] - 1]
            if e["mode"] == "r+" and o["st"] == "ok":      # appending to a file that was there: its fields count too
                descrs.append(tuple(o["descr"]))
            break
        if e["op"] == "hwrite" and e["res"]["err"] == "none":
            descrs.append(tuple(e["chunk"]["descr"]))
    if len(set(descrs)) <= 1:
        return "uniform"
    return "byteorder_mixed" if len({d[0] for d in descrs}) == 1 else "fields_mixed"


def judge(ctx, recs, what, npaths=2, nhandles=2, allow_out_of_scope=False):
    """hand the recorded traces to RecStoreTrace.tla; turn what TLC rejects into violations"""
    consts = {"Paths": set(range(1, npaths + 1)), "Handles": set(range(1, nhandles + 1))}

    def validate(rs, w):
        return tracecheck.validate(ctx, "RecStoreTrace.tla",
                                   [{"id": r["id"], "ev": [rc.tla_event(e) for e in r["done"]]} for r in rs],
                                   what=w, constants=consts)

    rejects = validate(recs, what)
    byid = {r["id"]: r for r in recs}
    for r in recs:
        r["rejected"] = r["id"] in rejects
    # a trace recorded with sparse observation shows a deviation at a later step than the call that caused it:
    # record it again with every file read back after every call, so that the failing step (and the signature) is
    # that of the first deviating call
    sparse = [byid[i] for i in sorted(rejects) if byid[i]["v"]["sched"] == "sparse"]
    if sparse:
        again = quiet_pmap(exec_trace, [(r["id"], r["events"], dict(r["v"], sched="every"), r["npaths"], r["seed"])
                                        for r in sparse])
        saved = ctx.traces
        rej2 = validate(again, what + " (rejected sparse traces, observed after every call)")
        ctx.traces = saved
        for r2 in again:
            if r2["id"] in rej2:
                r2["rejected"] = True
                byid[r2["id"]] = r2
                rejects[r2["id"]] = rej2[r2["id"]]
    nviol = 0
    for rid, failing in sorted(rejects.items()):
        rec = byid[rid]
        step, clauses, cls = parse_failing(failing)
        if "spec_invariant" in clauses:
            raise MachineryError("RecStore invariant violated while validating a trace: %s" % failing)
        if "out_of_scope" in clauses:
            if allow_out_of_scope:
                continue
            raise MachineryError("harness produced an event outside the specification's scope: trace %s step %s %s" %
                                 (rid, step, rec["events"][step - 1]))
        e = rec["done"][step - 1]
        sig = signature(rec, step, clauses, cls)
        whatv = ("step %d %s%s: not allowed by RecStore.tla, clause(s) %s - %s; observed res=%s%s files=%s" %
                 (step, rc.entry_name(e, rec["v"]["writer"], rec["v"]["reader"], rec["v"].get("lib", "sfile")),
                  "" if not e["chunk"]["rows"] else " chunk descr=%s rows=%s" % (e["chunk"]["descr"], e["chunk"]["rows"]),
                  "+".join(clauses), CLAUSE_TEXT.get(clauses[0], clauses[0]),
                  {k: v for k, v in e["res"].items() if v not in ("none", [], -1, ["none", "na"])},
                  " (%s)" % e["exc"] if "exc" in e else "",
                  [{k: v for k, v in o.items() if v not in ("none", [], ["none", "na"])} for o in e["obs"]]))
        ctx.violation(sig, whatv, {"kind": "trace", "seed": rec["seed"], "v": rec["v"], "npaths": rec["npaths"],
                                   "events": rec["events"][:step], "failing_step": step, "clauses": clauses, "class": cls})
        nviol += 1
    return rejects, nviol


def count_trace(ctx, r):
    ctx.count({"e": r["events"], "v": r["v"]}, nontrivial=any(e["op"] in ("hwrite", "write", "append") for e in r["events"]))


def run_and_judge(ctx, behaviours, what, npaths, id0, offset=0):
    jobs = [(id0 + i, ev, variant(i + offset, ctx.seed), npaths, ctx.seed) for i, ev in enumerate(behaviours)]
    recs = quiet_pmap(exec_trace, jobs)
    for r in recs:
        count_trace(ctx, r)
    rejects, nviol = judge(ctx, recs, what)
    ctx.log("%-40s %6d traces, %d rejected" % (what, len(recs), len(rejects)))
    return recs


# ---- seeded random call sequences (code -> spec) ------------------------------------------------
def random_events(rng, npaths=2, nhandles=2):
    n = rng.choice([6, 8, 12, 16, 24])
    tok = [100]
    open_h = {}                        # handle -> path (bookkeeping for the scope guards only)
    cur = {}                           # path -> base last created there (steers the mix, decides nothing)
    ev = []

    def chunk(p):
        base = cur.get(p, "D") if rng.random() < 0.75 else rng.choice(rc.BASES)
        x = rng.random()
        order = "gt" if x < 0.09 else "vg" if x < 0.17 else "sg" if x < 0.21 else "lt"
        k = rng.choice([1, 1, 2, 3, 5])
        rows = list(range(tok[0], tok[0] + k))
        tok[0] += k
        return {"descr": [base, order], "rows": rows}

    def E(op, h=0, p=0, mode="none", delim="none", c=None, hdr="none", sel="all"):
        ev.append({"op": op, "h": h, "p": p, "mode": mode, "delim": delim, "chunk": c or dict(rc.NO_CHUNK), "hdr": hdr,
                   "sel": sel})

    for _ in range(n):
        free_h = [h for h in range(1, nhandles + 1) if h not in open_h]
        free_p = [p for p in range(1, npaths + 1) if p not in open_h.values()]
        r = rng.random()
        if open_h and r < 0.45:
            h = rng.choice(sorted(open_h))
            q = rng.random()
            if q < 0.6:
                c = chunk(open_h[h])
                E("hwrite", h=h, p=open_h[h], c=c, hdr=rng.choice(["none", "none", "h1", "h2"]))
                cur.setdefault(open_h[h], c["descr"][0])
            elif q < 0.85:
                E("hread", h=h, p=open_h[h], sel=rng.choice(["all", "first", "head", "cols"]))
            else:
                E("hclose" if rng.random() < 0.6 else "hdrop", h=h, p=open_h[h])
                del open_h[h]
        elif r < 0.62 and (free_h or open_h):
            # open a handle object - a new one, a closed one again, or (1 in 3) one that is still open
            pool = free_h if free_h and (not open_h or rng.random() < 0.67) else sorted(open_h)
            h = rng.choice(pool)
            ok_p = [p for p in range(1, npaths + 1) if p not in [q for g, q in open_h.items() if g != h]]
            if not ok_p:
                continue
            p = rng.choice(ok_p)
            m = rng.choice(["w", "w", "r+", "r+", "r+", "w+", "r"])
            E("open", h=h, p=p, mode=m, delim=rng.choice(["none", "none", "c", "t", "s"]))
            open_h[h] = p
            if m in ("w", "w+"):
                cur.pop(p, None)
        elif free_p:
            p = rng.choice(free_p)
            q = rng.random()
            if q < 0.25:
                c = chunk(p)
                cur[p] = c["descr"][0]
                E("write", p=p, c=c, delim=rng.choice(["none", "none", "c", "t", "s"]), hdr=rng.choice(["none", "h1", "h2"]))
            elif q < 0.8:
                c = chunk(p)
                cur.setdefault(p, c["descr"][0])
                E("append", p=p, c=c, delim=rng.choice(["none", "none", "none", "c", "s"]),
                  hdr=rng.choice(["none", "none", "none", "h1"]))
            elif q < 0.9:
                E("read", p=p)
            else:
                E("readhdr", p=p)
        else:
            E("read", p=rng.choice(range(1, npaths + 1)))
    return ev


# ---- the check ---------------------------------------------------------------------------------
def run(ctx):
    T = TIERS[ctx.tier]
    only = getattr(ctx, "only", None) or set()

    def part(name):
        return not only or name in only

    # 1. design level: invariants and action properties of RecStore on every bounded history
    if part("mc"):
        for what, consts in T["models"]:
            ctx.tlc("RecStoreMC.tla", what="RecStore histories: " + what,
                    cfg_text=cfg(constants=mc_constants(consts), constraints=["Bounded"], **PROPS),
                    workers=16, require=REQUIRE, timeout=3000)
        # the running concatenation `cat` of the model is the fold of the recorded history (cross-check, small depth)
        small = dict(T["models"][0][1], MaxDepth=3, Hdrs={"none"} if ctx.quick else {"none", "h1"})
        ctx.tlc("RecStoreMC.tla", what="running concatenation = fold of the recorded history (depth 3)",
                cfg_text=cfg(constants=mc_constants(small, keep=True, export_at=99, acts=WRITE_ACTS),
                             constraints=["BoundedHist"], invariants=["ConcatHistInv", "ConcatInv", "SizeInv"]),
                workers=16, coverage=False, timeout=3000)

    nid = 1
    all_recs = []
    # 2. spec -> code: every behaviour up to a length
    if part("behaviours"):
        B = T["behaviours"]
        r = ctx.tlc("RecStoreMC.tla", what="export every behaviour of length %d" % B["MaxDepth"],
                    cfg_text=cfg(constants=mc_constants(B, keep=True, export_at=B["MaxDepth"], acts=WRITE_ACTS),
                                 constraints=["BoundedHist", "Export"]),
                    workers=1, coverage=False, timeout=3000)
        behs = dedupe(r.records.get("BEH", []))
        if not behs:
            raise MachineryError("no behaviours exported")
        recs = run_and_judge(ctx, behs, "replay: every behaviour of length %d" % B["MaxDepth"], 2, nid)
        nid += len(recs)
        all_recs += recs
        ctx.note(behaviours_exhaustive=len(behs))
    # 3. spec -> code: transition tour (every edge of the state graph, reached by the breadth-first history of its source)
    if part("tour"):
        U = T["tour"]
        r = ctx.tlc("RecStoreMC.tla", what="export transition tour (depth %d)" % U["MaxDepth"],
                    cfg_text=cfg(constants=mc_constants(U, keep=True, export_at=0), constraints=["BoundedHist", "Export"],
                                 view="View"),
                    workers=1, coverage=False, timeout=3000)
        edges = dedupe(r.records.get("BEH", []))
        # an edge history that is a proper prefix of another one is replayed as part of it
        keep = maximal(edges)
        nedges, nmax = len(edges), len(keep)
        if len(keep) > T["tour_keep"]:
            # the path-level writes (chunk x header x delimiter) are most of the edges: 60% of the budget goes to the
            # histories that end in a write through / the close of a handle (where a handle's past can show), the rest
            # to the others
            rng = random.Random(ctx.seed * 7919 + 11)
            hot = [b for b in keep if b[-1]["op"] in ("hwrite", "hclose", "hdrop")]
            cold = [b for b in keep if b[-1]["op"] not in ("hwrite", "hclose", "hdrop")]
            nhot = min(len(hot), max(T["tour_keep"] * 6 // 10, T["tour_keep"] - len(cold)))
            keep = sorted(rng.sample(hot, nhot) + rng.sample(cold, min(len(cold), T["tour_keep"] - nhot)), key=json.dumps)
        if not keep:
            raise MachineryError("empty transition tour")
        recs = run_and_judge(ctx, keep, "replay: transition tour", 2, nid, offset=1)
        nid += len(recs)
        all_recs += recs
        ctx.note(tour_edges=nedges, tour_maximal_histories=nmax, tour_histories_replayed=len(keep))
    # 4. spec -> code: long simulated behaviours of the full model
    if part("simulate"):
        S = T["simulate"]
        # TLC's random walk picks uniformly among successor *states*: in the full model the path-level writes (chunk x
        # header x delimiter) crowd out the handle calls, so half of the walks run a handle-centred sub-model
        # (files are created and grown through handles and path-level appends only)
        walks = [("full model", S["consts"], ALL_ACTS),
                 ("handle-centred", dict(S["consts"], ChunkIds=CHUNKS5, Hdrs={"none", "h1"}, Delims={"none", "c"}), HANDLE_ACTS)]
        sims, nsims = [], 0
        for k, (wname, wconsts, wacts) in enumerate(walks):
            r = ctx.tlc("RecStoreMC.tla", what="simulate %d behaviours of depth %d (%s)" % (S["num"], S["depth"], wname),
                        cfg_text=cfg(constants=mc_constants(dict(wconsts, MaxDepth=S["depth"]), keep=True,
                                                            export_at=S["depth"], max_rows=60, acts=wacts),
                                     constraints=["Export"]),
                        workers=1, coverage=False, timeout=3000,
                        simulate="num=%d" % S["num"],
                        extra=["-depth", str(S["depth"] + 1), "-seed", str(ctx.seed + 1 + k)])
            got = dedupe(r.records.get("BEH", []))
            if len(got) < S["num"] // 2:
                raise MachineryError("simulation (%s) exported only %d behaviours" % (wname, len(got)))
            # (the export constraint is evaluated on every candidate successor of the last step: TLC prints many
            # behaviours per simulated one, differing in their last call)
            nsims += len(got)
            share = S["keep"] // len(walks)
            if len(got) > share:
                rng = random.Random(ctx.seed * 104729 + 5 + k)
                got = [got[i] for i in sorted(rng.sample(range(len(got)), share))]
            sims += got
        recs = run_and_judge(ctx, sims, "replay: simulated behaviours", 2, nid, offset=2)
        nid += len(recs)
        all_recs += recs
        ctx.note(simulated_behaviours_exported=nsims, simulated_behaviours_replayed=len(sims))
    # 5. code -> spec: seeded random call sequences, unique row tokens, all bases / orders / delimiters / headers
    if part("random"):
        rng = random.Random(ctx.seed * 1000003 + 17)
        jobs = [(nid + i, random_events(rng), variant(i, ctx.seed), 2, ctx.seed) for i in range(T["random"])]
        recs = quiet_pmap(exec_trace, jobs)
        for r in recs:
            count_trace(ctx, r)
        rejects, _ = judge(ctx, recs, "judge seeded random call sequences (RecStoreTrace)")
        ctx.log("%-40s %6d traces, %d rejected" % ("random call sequences", len(recs), len(rejects)))
        nid += len(recs)
        all_recs += recs
        ctx.note(random_sequences=len(recs))
    # 5b. scale: histories in which one chunk is BIG (a block token: more rows than one 16 MiB I/O block holds, counter
    # pattern, binary), written before / after small chunks through handles and path-level calls.  The law - rows
    # concatenate, counts add (RecStore!RowCount) - is the one TLC checked on all histories; here the real code is held
    # to it at sizes across and at the block boundary, for row sizes that do and do not divide it
    if part("scale"):
        C = dict(Paths={1}, Handles={1}, ChunkIds={"a", "g"}, Hdrs={"none", "h1"}, Delims={"none"}, Modes={"w", "r+"},
                 Sels={"all"}, MaxDepth=3)
        acts = {"open", "hwrite", "hclose", "hdrop", "create", "overwrite", "append", "appendmissing"}
        r = ctx.tlc("RecStoreMC.tla", what="scale: histories with a BIG chunk (block token), invariants + export",
                    cfg_text=cfg(constants=mc_constants(C, keep=True, export_at=3, acts=acts),
                                 constraints=["BoundedHist", "Export"], invariants=["SizeInv", "ConcatInv", "ConcatHistInv"]),
                    workers=1, coverage=False, timeout=3000)
        behs = [b for b in dedupe(r.records.get("BEH", []))
                if any(t >= rc.BIG_TOK for e in b for t in e["chunk"]["rows"]) and sum(1 for e in b if e["chunk"]["rows"]) >= 2]
        if len(behs) < T["scale"]:
            raise MachineryError("only %d scale histories exported" % len(behs))
        rng = random.Random(ctx.seed * 15485863 + 3)
        behs = [behs[i] for i in sorted(rng.sample(range(len(behs)), T["scale"]))]
        # every (row-size family x block size) combination in turn
        jobs = [(nid + i, ev, dict(variant(i, ctx.seed), fam=i % rc.GENERAL_FAMS,
                                   bigkind=(i // rc.GENERAL_FAMS) % rc.BIG_KINDS, sched="every"), 2, ctx.seed)
                for i, ev in enumerate(behs)]
        recs = quiet_pmap(exec_trace, jobs)
        for rr in recs:
            count_trace(ctx, rr)
        rejects, _ = judge(ctx, recs, "judge scale histories (RecStoreTrace)")
        ctx.log("%-40s %6d traces, %d rejected" % ("scale histories (BIG chunks)", len(recs), len(rejects)))
        nid += len(recs)
        all_recs += recs
        ctx.note(scale_histories=len(recs),
                 scale_rows=sorted({rc.big_nrows(j[2]["fam"], "D", j[2]["bigkind"]) for j in jobs}))

    # 5c. byte order per field class: histories in which chunks of one field structure come in every byte order - uniform
    # (lt, gt) and MIXED (vg: only the sub-array fields big-endian; sg: only the scalar fields) - written to / appended to
    # binary and text files through handles and path-level calls.  TLC checks on this alphabet that byte order never
    # decides an append to a text file (TextOrderFree) next to the invariants; every behaviour is exported and replayed
    # under the families that have numeric sub-array fields (rc.ORDER_FAMS)
    if part("orders"):
        O = T["orders"]
        C = dict(Paths={1}, Handles={1}, ChunkIds={"a", "o", "v", "w"}, Hdrs={"none"}, Delims={"none", "c", "s"},
                 Modes={"w", "r+"}, Sels={"all"}, MaxDepth=O["depth"])
        acts = {"open", "hwrite", "hclose", "create", "append", "appendmissing"}
        r = ctx.tlc("RecStoreMC.tla", what="byte order per field class: invariants, TextOrderFree + export (depth %d)" % O["depth"],
                    cfg_text=cfg(constants=mc_constants(C, keep=True, export_at=O["depth"], acts=acts),
                                 constraints=["BoundedHist", "Export"],
                                 invariants=["SizeInv", "ConcatInv", "ConcatHistInv", "TextOrderFree"]),
                    workers=1, coverage=False, timeout=3000)

        def mixed_after_first(b):
            # a chunk in a mixed order that is not the first chunk event (it lands on a file / handle that has rows)
            cs = [e for e in b if e["chunk"]["rows"]]
            return len(cs) >= 2 and any(e["chunk"]["descr"][1] in rc.MIXED_ORDERS for e in cs[1:])
        behs = dedupe(r.records.get("BEH", []))
        nall = len(behs)
        behs = [b for b in behs if mixed_after_first(b)]
        if len(behs) < 20:
            raise MachineryError("only %d byte-order histories exported" % len(behs))
        if len(behs) > O["keep"]:
            # the text histories are the ones in which the order must not matter at all: two thirds of the budget
            rng = random.Random(ctx.seed * 32452843 + 7)
            txt = [b for b in behs if any(e["delim"] != "none" for e in b)]
            bins = [b for b in behs if not any(e["delim"] != "none" for e in b)]
            ntxt = min(len(txt), max(O["keep"] * 2 // 3, O["keep"] - len(bins)))
            behs = sorted(rng.sample(txt, ntxt) + rng.sample(bins, min(len(bins), O["keep"] - ntxt)), key=json.dumps)
        jobs = [(nid + i, ev, dict(variant(i, ctx.seed), fam=rc.ORDER_FAMS[(i + ctx.seed) % len(rc.ORDER_FAMS)], sched="every"),
                 2, ctx.seed)
                for i, ev in enumerate(behs)]
        recs = quiet_pmap(exec_trace, jobs)
        for rr in recs:
            count_trace(ctx, rr)
        rejects, _ = judge(ctx, recs, "judge byte-order histories (RecStoreTrace)")
        ctx.log("%-40s %6d traces, %d rejected" % ("byte-order histories (mixed per field class)", len(recs), len(rejects)))
        nid += len(recs)
        all_recs += recs
        ctx.note(order_histories_exported=nall, order_histories_replayed=len(recs))

    if part("mechanism") and only:
        mechanism(ctx)
    if only:
        return
    # 6. vacuity of the dimensions: handle objects opened again after use, partial reads before writes, bare Recfile handles
    dimension_guard(ctx, all_recs)
    # 7. binding self-test: corrupt single observations of accepted traces; exactly those must be rejected
    selftest(ctx, all_recs)
    # 7. mechanism
    mechanism(ctx)

    for r in all_recs[:: max(1, len(all_recs) // 4)][:4]:
        ctx.sample({"events": [dict(op=e["op"], h=e["h"], p=e["p"], mode=e["mode"], delim=e["delim"],
                                    chunk=e["chunk"], hdr=e["hdr"], res=e["res"], obs=e["obs"]) for e in r["done"][:4]],
                    "variant": r["v"]})
    ctx.exhaustive = True
    x = ctx.extra
    ctx.rule = ("RecStore.tla actions Open/HWrite/HRead/HClose/Create/Overwrite/AppendReopen(compatible, incompatible, "
                "missing)/ReadBack/ReadHeader; TLC explores every history up to the depths listed in `models` (invariants "
                "SizeInv HandleInv ReadInv ConcatInv, action properties AppendsAccumulate FrameProp); replayed into the real "
                "code: every behaviour of length %d over %s (%d), a transition tour of the depth-%d graph (%d edges, each "
                "reached by the breadth-first history of its source = %d maximal histories, %d replayed), %d of the %d "
                "behaviours of depth %d exported by tlc -simulate on the full model, and %d seeded random call sequences of "
                "6-24 calls; a handle id is one handle object for the whole history: Open on it again (closed or still "
                "open, any of the modes w w+ r+ r, any path) re-opens the same SFile object (1 trace in 5: a new object "
                "per open), reads through a handle ask for all rows / rows=[0] / [0:2] / two columns of row 0 and are "
                "interleaved with writes through it in every order, 1 trace in 7 drives bare recfile.Recfile handles "
                "(header-less calls only), handles left open are closed at the end so that what they wrote is judged; the "
                "model's ghost variable obj (last header held, stream position class) keeps apart for the tour the "
                "histories an implementation could tell apart; "
                "byte order is a dimension per FIELD CLASS: chunks come little-endian, big-endian and mixed (vg: only the "
                "sub-array fields big-endian, sg: only the scalar fields) - every behaviour of length %d over chunks "
                "{lt, gt, vg, sg} x {binary, ',', ' '} x {handle writes, path-level write / append / append-to-missing} in "
                "which a mixed-order chunk is not the first one (%d exported, %d replayed under the families with numeric "
                "sub-array fields; TLC checks TextOrderFree: no order decides an append to a text file), mixed orders "
                "also in the random call sequences; "
                "each under one of %d dtype families x %d writer x %d reader entry points, every file read back "
                "by a fresh reader after every call (3 of 4 traces) or after the last call and after every rejected call; all "
                "recorded traces judged by RecStoreTrace.tla; a case is distinct by (event list, concretisation), "
                "non-trivial when it contains a write" %
                (T["behaviours"]["MaxDepth"], _fmt(T["behaviours"]), x.get("behaviours_exhaustive", 0), T["tour"]["MaxDepth"],
                 x.get("tour_edges", 0), x.get("tour_maximal_histories", 0), x.get("tour_histories_replayed", 0),
                 x.get("simulated_behaviours_replayed", 0), x.get("simulated_behaviours_exported", 0), T["simulate"]["depth"],
                 T["random"], T["orders"]["depth"], x.get("order_histories_exported", 0), x.get("order_histories_replayed", 0),
                 rc.GENERAL_FAMS, len(rc.WRITERS), len(rc.READERS)))
    ctx.note(models=[{"what": w, "constants": _fmt(c)} for w, c in T["models"]])
    ctx.assumptions = [
        "while a write-mode handle is open on a path the bytes on disk are unconstrained (stdio buffering); only reads through "
        "that handle and every reader after close are judged; two writers on one path at a time are outside the quantifier",
        "an append differing from the file only in byte order: rejected-unchanged or accepted value-correct (DESIGN 7)",
        "byte order is modelled per field class (all scalar fields / all sub-array fields), not per single field; a mixed "
        "order is a dtype of its own only in families with a numeric scalar and a numeric sub-array field (else it is one "
        "of the uniform orders and counted as such); text rows of every order carry the same benign values",
        "a header passed with a non-first write: ignored, or the write rejected; never stored",
        "opening 'r+' a missing path through a handle: creating or rejected (the path-level append must create); opening "
        "'w+': creating or rejected, possibly truncating (the statement names no mode that must be openable)",
        "reading through a handle opened for writing: mode 'w' unconstrained; 'r+'/'w+' may reject, but a table it returns must "
        "be the concatenation with its header and count",
        "the byte order a reader hands rows back in is not judged (rows are identified by value; C01 decides bit fidelity); what "
        "a path holds after a handle was opened on it and nothing written is not judged; the writing handle's own nrows "
        "attribute is not judged (the stored count is)",
        "text files carry benign values (C04 decides text value fidelity); binary rows are adversarial byte patterns",
        "bare recfile.Recfile handles: only calls that need no header (matching chunks, no append to a missing file, plain "
        "path names); the caller-supplied dtype / delimiter are the ones the file was created with",
        "opening for reading ('r') something that is not a record file: unconstrained",
        "a BIG chunk is one block token of weight BigW (RecStore!RowCount): the harness identifies the block bit for bit "
        "as a whole and re-encodes an observed count of q blocks + r rows as q*BigW + r (r < BigW, else no count); blocks "
        "are written in binary form only; partial reads are not asked of files holding a block",
        "a handle released without close() (del + gc.collect()) is judged exactly like a closed one",
        "crash points are not modelled",
    ]
    ctx.trusted_base.append("recstore_common: token <-> row bytes tables, descr/header id projection, fresh-reader observation")


def _fmt(c):
    return {k: (sorted(v) if isinstance(v, (set, frozenset)) else v) for k, v in c.items()}


def dedupe(behs):
    seen, out = set(), []
    for b in behs:
        ev = clean_events(b)
        k = json.dumps(ev, sort_keys=True)
        if k not in seen:
            seen.add(k)
            out.append(ev)
    return out


def maximal(behs):
    """drop histories that are a proper prefix of another exported history"""
    keys = [[json.dumps(e, sort_keys=True) for e in b] for b in behs]
    prefixes = set()
    for k in keys:
        for n in range(1, len(k)):
            prefixes.add("\x00".join(k[:n]))
    return [b for b, k in zip(behs, keys) if "\x00".join(k) not in prefixes]


def open_paths(done):
    """paths a write-mode handle is open on after the recorded events (bookkeeping from the recorded outcomes)"""
    h2p = {}
    for e in done:
        if e["op"] == "open" and e["res"]["err"] == "none":
            h2p[e["h"]] = e["p"]
        elif e["op"] in ("hclose", "hdrop"):
            h2p.pop(e["h"], None)
    return set(h2p.values())


SELFTEST_MUTS = {
    "rows": lambda o: o.__setitem__("rows", o["rows"][::-1] if o["rows"] != o["rows"][::-1] else o["rows"][:-1] + [0]),
    "stored_count": lambda o: o.__setitem__("size", o["size"] - 1),
    "header": lambda o: o.__setitem__("hdr", "h2" if o["hdr"] != "h2" else "none"),
    "dropped_row": lambda o: (o.__setitem__("rows", o["rows"][:-1]), o.__setitem__("size", o["size"] - 1)),
}
SELFTEST_WANT = {"rows": {"rows"}, "stored_count": {"stored_count"}, "header": {"header"},
                 "dropped_row": {"rows", "stored_count"}}


def dimension_guard(ctx, all_recs):
    """how many executed traces exercise each added dimension (accepted writes only); none -> the run is vacuous"""
    n = {"reopened_object_then_write": 0, "reopened_while_open": 0, "partial_read_then_write": 0,
         "bare_recfile_handle_writes": 0, "read_mode_handle_reads": 0, "dropped_after_appending_write": 0,
         "big_chunk_written": 0, "mixed_order_chunk_appended_to_text": 0, "mixed_order_chunk_appended_to_binary": 0,
         "mixed_order_binary_file_created": 0}
    for r in all_recs:
        used, state, hit = {}, {}, set()
        lib = r["v"].get("lib", "sfile")
        for e in r["done"]:
            h, ok = e["h"], e["res"]["err"] == "none"
            if e["op"] == "open":
                if h in state and state[h] != "closed" and r["v"].get("reuse", True):
                    hit.add("reopened_while_open")
                state[h] = ("reopened" if used.get(h) and r["v"].get("reuse", True) else "new") if ok else "closed"
                if ok and e["mode"] in ("r", "r+"):
                    used[h] = True
                state[(h, "mode")] = e["mode"]
                state[(h, "partial")] = False
                state[(h, "nw")] = 0
                state[(h, "appended")] = False
            elif e["op"] in ("hclose", "hdrop"):
                if e["op"] == "hdrop" and state.get((h, "nw"), 0) >= 1 and state.get((h, "appended")):
                    hit.add("dropped_after_appending_write")
                state[h] = "closed"
            elif e["op"] == "hread" and ok:
                if e.get("sel", "all") != "all":
                    state[(h, "partial")] = True
                if state.get((h, "mode")) == "r":
                    hit.add("read_mode_handle_reads")
            elif e["op"] == "hwrite" and ok:
                if state.get(h) == "reopened":
                    hit.add("reopened_object_then_write")
                if state.get((h, "partial")):
                    hit.add("partial_read_then_write")
                if lib == "recfile":
                    hit.add("bare_recfile_handle_writes")
                used[h] = True
                state[(h, "nw")] = state.get((h, "nw"), 0) + 1
                # a write that was not the first one of the file: second through a creating handle, any through 'r+'
                if state[(h, "nw")] >= 2 or state.get((h, "mode")) == "r+":
                    state[(h, "appended")] = True
        if any(t >= rc.BIG_TOK for e in r["done"] if e["res"]["err"] == "none" for t in e["chunk"]["rows"]):
            hit.add("big_chunk_written")
        # accepted writes of a chunk whose byte order differs per field class (in a family where that is a dtype of its
        # own), by what the target path held before the call (the observation of the previous call)
        prev = None
        for e in r["done"]:
            d = e["chunk"]["descr"]
            if (e["chunk"]["rows"] and e["res"]["err"] == "none" and d[1] in rc.MIXED_ORDERS
                    and rc.order_effective(r["v"]["fam"], d[0], d[1])):
                before = prev["obs"][e["p"] - 1] if prev is not None else {"st": "missing"}
                after = e["obs"][e["p"] - 1]
                if before["st"] == "ok" and e["op"] in ("append", "hwrite") and after["st"] == "ok":
                    hit.add("mixed_order_chunk_appended_to_text" if before["delim"] != "none"
                            else "mixed_order_chunk_appended_to_binary")
                elif after["st"] == "ok" and after["delim"] == "none" and e["op"] in ("write", "append"):
                    hit.add("mixed_order_binary_file_created")
            prev = e
        for k in hit:
            n[k] += 1
    ctx.note(dimension_traces=n)
    missing = [k for k, v in n.items() if v == 0]
    if missing:
        raise MachineryError("no executed trace exercises: %s" % missing)


def maximal_raw(behs):
    keys = [[json.dumps(e, sort_keys=True) for e in b] for b in behs]
    prefixes = set()
    for k in keys:
        for n in range(1, len(k)):
            prefixes.add("\x00".join(k[:n]))
    return [b for b, k in zip(behs, keys) if "\x00".join(k) not in prefixes]


def selftest(ctx, all_recs):
    """corrupt one recorded observation of traces TLC accepted - the read-back of a file nobody has open for writing,
    after the last event: TLC must reject exactly the corrupted copies, at that step, naming the corrupted clause"""
    picks = []
    for r in all_recs:
        if r.get("rejected") or len(r["done"]) < 2:
            continue
        last = r["done"][-1]
        busy = open_paths(r["done"])
        ok_obs = [i for i, o in enumerate(last["obs"]) if o["st"] == "ok" and len(o["rows"]) >= 2 and (i + 1) not in busy]
        if ok_obs:
            picks.append((r, ok_obs[0]))
        if len(picks) >= 40:
            break
    if len(picks) < 8:
        raise MachineryError("self-test: too few accepted traces with a readable multi-row file")
    recs, expect = [], {}
    for k, (r, q) in enumerate(picks, 1):
        base = {"id": 0, "ev": [rc.tla_event(e) for e in r["done"]]}
        name = list(SELFTEST_MUTS)[k % len(SELFTEST_MUTS)]
        c = json.loads(json.dumps(base))
        SELFTEST_MUTS[name](c["ev"][-1]["obs"][q])
        c["id"] = 2 * k
        recs.append(c)
        expect[2 * k] = (name, len(r["done"]))
        u = json.loads(json.dumps(base))
        u["id"] = 2 * k + 1
        recs.append(u)
    saved_traces = ctx.traces
    rej = tracecheck.validate(ctx, "RecStoreTrace.tla", recs, what="self-test: corrupted observations rejected",
                              constants={"Paths": {1, 2}, "Handles": {1, 2}})
    ctx.traces = saved_traces
    for i, (name, nsteps) in sorted(expect.items()):
        if i + 1 in rej:
            raise MachineryError("binding self-test: an accepted trace was rejected when validated again: %s" % rej[i + 1])
        if i not in rej:
            raise MachineryError("binding self-test failed: corrupted observation (%s) accepted" % name)
        step, clauses, _ = parse_failing(rej[i])
        if step != nsteps or not (SELFTEST_WANT[name] & set(clauses)):
            raise MachineryError("binding self-test: corruption %s at step %d reported as %s at step %d" %
                                 (name, nsteps, clauses, step))
    ctx.note(selftest_corruptions=len(expect))


MECH_REQUIRE = ["MOpen", "MWrite", "MRead", "MClose", "MDrop", "MPathWrite", "MPathAppend"]
MECH_INVS = ["SizeLineInv", "SizeAfterInv", "CacheInv", "CppCountInv", "RowsInv", "RewriteInv", "ClosedInv", "StreamInv"]
# deviating variant -> (mechanism invariant it must violate or None, clauses RecStoreTrace must name on its behaviours,
#                       the small alphabet in which it shows within four calls)
MECH_DEVIATIONS = {
    # create a text file; append a chunk whose only non-native fields are the sub-array fields
    "FixedNative": ("RowsInv", {"rows"}, dict(ChunkIds={"a", "v"}, Sels={"all"}, Delims={"c"})),
    "FixedCompat": ("RowsInv", {"not_rejected", "rows"}, dict(ChunkIds={"a", "n", "o"}, Sels={"all"})),
    "FixedCount": ("CppCountInv", {"read_rows"}, dict(ChunkIds={"a", "n"}, Sels={"all"})),
    "FixedMissing": (None, {"unexpected_error"}, dict(ChunkIds={"a"}, Sels={"all"})),
    # one object used for a second file: open 'w'; write; open 'w' again; write
    "FixedClose": ("ClosedInv", {"file_state"}, dict(ChunkIds={"a", "n"}, Sels={"all"}, Delims={"none"}, deeper=1)),
    # open 'w'; write; write; the handle is dropped without close: the stored count must be the total
    "FixedSizeNow": ("SizeAfterInv", {"stored_count", "rows"}, dict(ChunkIds={"a"}, Sels={"all"}, Delims={"none"})),
    # create (3 rows); open 'r+'; partial read; write: the rows must land at the end of the file
    # (and close, after which the file is judged: one call deeper)
    "FixedSeek": ("StreamInv", {"rows", "stored_count", "file_state"}, dict(ChunkIds={"b"}, Sels={"all", "first", "cols"}, deeper=1)),
}


# the alphabet a deviation needs to violate its invariant, where the base alphabet of the tier lacks it
MECH_VIOLATES_ALPHABET = {"FixedNative": dict(ChunkIds={"a", "v"})}


def mechanism(ctx):
    """RecStoreMech.tla: the implementation-shaped model of the append mechanism (SIZE line rewritten in place, the
    three cached row counts, the compatibility check).  Its own invariants are model-checked; refinement of the
    property-level RecStore is checked by trace inclusion - a transition tour of the mechanism's behaviours is judged
    by RecStoreTrace.tla like traces of the real code.  The repaired variant must pass both; each known deviation of
    the code (a constant) must be *seen* by both.  A lead generator, never a verdict about esutil."""
    M = TIERS[ctx.tier]["mechanism"]
    base = dict(ChunkIds={"a", "b", "n", "o"} | (set() if ctx.quick else {"v"}), Hdrs={"none", "h1"}, Delims={"none", "c"}, Modes=MODES, PathOps=True,
                FixedCompat=True, FixedCount=True, FixedMissing=True, FixedClose=True, FixedSeek=True, FixedSizeNow=True, FixedNative=True, Sels=SELS)

    # the deviations need four calls to show (create; open r+; write; read through the handle): smaller alphabet, deeper
    small = dict(Hdrs={"none"}, Modes={"w", "r+"})

    def consts(depth, keep, export_at, **dev):
        return dict(base, MaxDepth=depth, KeepHist=keep, ExportAt=export_at, **dev)

    def invariants():
        ctx.tlc("RecStoreMech.tla", what="mechanism invariants (repaired variant, depth %d)" % M["depth"],
                cfg_text=cfg(constants=consts(M["depth"], False, 99), invariants=MECH_INVS, properties=["AppendOnly"],
                             constraints=["Bounded"]),
                workers=16, require=MECH_REQUIRE, timeout=3000)

    def violates(dev, inv):
        # (stops at the violation: one worker, so that the state count does not depend on the schedule)
        r = ctx.tlc("RecStoreMech.tla", what="mechanism self-test: %s=FALSE violates %s" % (dev, inv),
                    cfg_text=cfg(constants=consts(M["depth"], False, 99, **dict(MECH_VIOLATES_ALPHABET.get(dev, {}), **{dev: False})),
                                 invariants=[inv],
                                 constraints=["Bounded"]),
                    workers=1, allow_violation=True, coverage=False, timeout=3000)
        if inv not in r.violated:
            raise MachineryError("mechanism self-test: %s=FALSE does not violate %s" % (dev, inv))

    def tour(what, depth, **dev):
        r = ctx.tlc("RecStoreMech.tla", what="mechanism tour: " + what,
                    cfg_text=cfg(constants=consts(depth, True, 0, **dev), constraints=["Export"], view="MView"),
                    workers=1, coverage=False, timeout=3000)
        seen, behs = set(), []
        for b in r.records.get("BEH", []):
            k = json.dumps(b, sort_keys=True)
            if k not in seen:
                seen.add(k)
                behs.append(b)
        if not behs:
            raise MachineryError("mechanism tour exported nothing")
        nedges = len(behs)
        behs = maximal_raw(behs)      # an edge history that is a proper prefix of another one is judged as part of it
        rej = tracecheck.validate(ctx, "RecStoreTrace.tla", [{"id": i + 1, "ev": b} for i, b in enumerate(behs)],
                                  what="mechanism behaviours judged by RecStoreTrace: " + what,
                                  constants={"Paths": {1}, "Handles": {1}})
        clauses = {}
        for rid, failing in sorted(rej.items()):
            _, cl, _ = parse_failing(failing)
            if "spec_invariant" in cl or "out_of_scope" in cl:
                raise MachineryError("mechanism behaviour outside RecStoreTrace's scope: %s" % failing)
            for c in cl:
                clauses[c] = clauses.get(c, 0) + 1
        clauses = dict(sorted(clauses.items()))
        ctx.log("mechanism tour %-40s %d edges, %d maximal behaviours, %d rejected %s" % (what, nedges, len(behs), len(rej),
                                                                                         clauses or ""))
        return len(behs), len(rej), clauses

    # the runs are independent: a few at a time (JVM start-up dominates them)
    jobs = [("inv", invariants, ())]
    jobs += [("violates " + dev, violates, (dev, inv)) for dev, (inv, _, _) in sorted(MECH_DEVIATIONS.items()) if inv]
    jobs += [("tour repaired", tour, ("repaired variant refines RecStore", M["tour_depth"]))]
    # the alphabet in which FixedNative=FALSE is rejected, repaired: must refine (chunks of every byte order, text and binary)
    jobs += [("tour repaired orders", tour, ("repaired variant refines RecStore (byte orders per field class)", M["tour_depth"]),
              dict(small, ChunkIds={"a", "o", "v", "w"}, Sels={"all"}, Delims={"none", "c"}))]
    saved_traces, first_run = ctx.traces, len(ctx.tlc_runs)
    with ThreadPoolExecutor(4) as ex:
        futs = {j[0]: ex.submit(j[1], *j[2], **(j[3] if len(j) > 3 else {})) for j in jobs}
        for dev in sorted(MECH_DEVIATIONS):
            over = dict(MECH_DEVIATIONS[dev][2])
            deeper = over.pop("deeper", 0)
            futs["tour " + dev] = ex.submit(lambda d=dev, o=over, k=deeper: tour("%s=FALSE is rejected" % d, M["dev_depth"] + k,
                                                                                 **dict(small, **dict(o, **{d: False}))))
        results = {name: f.result() for name, f in futs.items()}
    ctx.traces = saved_traces                   # behaviours of a model, not of the implementation
    ctx.tlc_runs[first_run:] = sorted(ctx.tlc_runs[first_run:], key=lambda r: r["what"])   # completion order -> fixed order

    n, nrej, clauses = results["tour repaired"]
    if nrej:
        raise MachineryError("the repaired mechanism model does not refine RecStore: %d of %d behaviours rejected %s" %
                             (nrej, n, clauses))
    summary = {"repaired": {"behaviours": n, "rejected": 0}}
    n, nrej, clauses = results["tour repaired orders"]
    if nrej:
        raise MachineryError("the repaired mechanism model does not refine RecStore on the byte-order alphabet: %d of %d "
                             "behaviours rejected %s" % (nrej, n, clauses))
    summary["repaired_byte_orders"] = {"behaviours": n, "rejected": 0}
    for dev, (_, want, _) in sorted(MECH_DEVIATIONS.items()):
        n, nrej, clauses = results["tour " + dev]
        if not nrej or not (want & set(clauses)):
            raise MachineryError("mechanism self-test: deviation %s=FALSE not rejected as expected (%d rejected, %s)" %
                                 (dev, nrej, clauses))
        summary[dev + "=FALSE"] = {"behaviours": n, "rejected": nrej, "clauses": clauses}
    ctx.note(mechanism=summary)


def replay(ctx, case):
    if case.get("kind") != "trace":
        raise MachineryError("unknown replay case kind %r" % case.get("kind"))
    v = case["v"]
    rec = exec_trace((1, case["events"], v, case.get("npaths", 2), case["seed"]))
    for e in rec["done"]:
        print("replay %-7s %-40s res=%s%s" % (e["op"], rc.entry_name(e, v["writer"], v["reader"], v.get("lib", "sfile")),
                                              {k: x for k, x in e["res"].items() if x not in ("none", [], -1, ["none", "na"])},
                                              " (%s)" % e["exc"] if "exc" in e else ""))
        for p, o in enumerate(e["obs"], 1):
            print("         file %d: %s" % (p, {k: x for k, x in o.items() if x not in ("none", [], ["none", "na"])}))
    judge(ctx, [rec], "replay")
