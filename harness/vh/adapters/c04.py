"""C04 - delimited-text record files round-trip values and structure.

spec -> code : TextCodecMC.tla enumerates every table of several bounded families
               (adjacency-exhaustive layouts, every numeric type with its extremes,
               sub-arrays, string widths 1..12, the text shapes of floats) and chooses
               for each table the delimiters it is written with: the delimiter is a
               dimension of the model (TextCodec.tla classifies every single-character
               delimiter: tab, VT, FF, space and the 95 printable ASCII characters, of
               which the 22 that occur in or continue the text of a number are
               inherently ambiguous and outside the quantifier; 76 remain).  Every
               exported (table, delimiter) pair is written and read back with
               esutil.sfile and esutil.recfile in both byte orders (plus mixed).
code -> spec : what came back - and larger seeded tables - is abstracted by the same
               byte -> token map as what was written and judged by TextCodecTrace.tla
               (property level of TextCodec.tla).
mechanism    : the character-level writer/scanner of records.cpp (TextCodec.tla) is
               checked by TLC against the round-trip obligation; its named hazards
               give the signatures, its predicted failing set is compared with the
               real failures (evidence note `mechanism_binding`).
Python never judges a result; it maps abstract <-> concrete, projects and records.
"""
import atexit
import contextlib
import os
import random
import shutil
import tempfile
from concurrent.futures import ThreadPoolExecutor
from fractions import Fraction

import numpy as np

from .. import tracecheck
from ..core import MachineryError
from ..par import pmap
from ..tlc import cfg

NEEDS_EXT = True

LISTED = [",", ":", "\t", " ", ";", "|"]          # the catalogue of the quantifier text
_DNAMES = {",": "comma", ":": "colon", ";": "semicolon", "|": "bar", "\t": "tab", " ": "space", "\v": "vtab", "\f": "formfeed",
           "%": "percent", "\\": "backslash", "'": "quote", '"': "dquote", "#": "hash"}
# the delimiter catalogue (code -> class, group, inside the quantifier) is defined in TextCodec.tla and printed by
# TLC with the export; python never classifies a delimiter itself
CATALOG = {}


def dname(delim):
    return _DNAMES.get(delim) or ("chr%d(%s)" % (ord(delim), delim))


NUMTYPES = {"i1", "u1", "i2", "u2", "i4", "u4", "i8", "u8", "f4", "f8"}
MECH_INVS = ["MechRefinesModHazards", "HazardsHit", "StepsAgree", "ScanSafe", "RefAccepted", "SplitLaws", "WriteLaws"]
DELIM_INVS = ["CatalogueOK", "DelimIndependent"]
ROWS_CLAUSES = ("rows_error", "rows_count", "rows_int", "rows_str", "rows_float")


# the bounded families are defined in TextCodecMC.tla (FamDefs); TLC prints their definitions
FAMILIES = {
    "quick": ["q_adj2", "q_adj3", "q_arr", "q_types", "q_types22", "q_numpair", "q_widths", "q_nul", "q_delim", "q_dtype", "q_fshape"],
    "thorough": ["t_adj2", "t_adj2x", "t_adj3", "t_rows3", "t_arr", "t_types", "t_types22", "t_numpair", "t_widths", "t_widths3", "t_nul",
                 "t_delim", "t_dtype", "t_fshape"],
}
RANDOM_TABLES = {"quick": 1200, "thorough": 28000}
DELIM_FAMILIES = {"quick": ["q_delim", "q_dtype"], "thorough": ["t_delim", "t_dtype"]}   # carry the delimiter dimension

# ---------------------------------------------------------------------------------
# lattices (DESIGN 4.1): short decimals on which "%.16g"/"%.7g" -> strtod is the identity
# ---------------------------------------------------------------------------------
_F32 = np.float32


def nearest_f32(fr):
    """the binary32 value nearest to the exact rational fr (ties: the candidate numpy picks)"""
    c = _F32(float(fr))
    best = c
    for n in (np.nextafter(c, _F32(np.inf)), np.nextafter(c, _F32(-np.inf))):
        if np.isfinite(n) and abs(Fraction(float(n)) - fr) < abs(Fraction(float(best)) - fr):
            best = n
    return best


def lattice_f8(rng):
    """a decimal with <= 15 significant digits over the decades 1e-300..1e300, as binary64"""
    while True:
        nd = rng.choice([1, 1, 2, 3, 5, 8, 12, 14, 15, 15])
        m = rng.randrange(10 ** (nd - 1), 10 ** nd)
        e = rng.randrange(-300, 301 - nd) if rng.random() < 0.6 else rng.randrange(-12, 6)
        fr = Fraction(m) * (Fraction(10) ** e)
        x = float(fr) * rng.choice([1, -1])
        if x != 0 and np.isfinite(x) and abs(x) > 1e-300 and float("%.16g" % x) == x:   # lattice membership, correct rounding
            return x


def lattice_f4(rng):
    """a decimal with <= 6 significant digits over the decades 1e-30..1e30, as binary32"""
    while True:
        nd = rng.choice([1, 1, 2, 3, 5, 6, 6])
        m = rng.randrange(10 ** (nd - 1), 10 ** nd)
        e = rng.randrange(-30, 31 - nd) if rng.random() < 0.6 else rng.randrange(-6, 4)
        x = nearest_f32(Fraction(m) * (Fraction(10) ** e))
        if rng.random() < 0.5:
            x = -x
        if x != 0 and np.isfinite(x) and nearest_f32(Fraction("%.7g" % float(x))) == x:
            return float(x)


def generic_f8(rng):
    """any normal binary64 value (needs up to 17 digits): decided to the weak tolerance only"""
    while True:
        x = float(np.frombuffer(rng.getrandbits(64).to_bytes(8, "little"), dtype="<f8")[0])
        if np.isfinite(x) and 1e-300 < abs(x) < 1e300:
            return x


def generic_f4(rng):
    while True:
        x = float(np.frombuffer(rng.getrandbits(32).to_bytes(4, "little"), dtype="<f4")[0])
        if np.isfinite(x) and 1e-30 < abs(x) < 1e30:
            return x


def _on_lattice(x, w):
    """the print/scan cycle ("%.16g" / "%.7g", correctly rounded both ways) is the identity on x"""
    if w == 8:
        return float("%.16g" % x) == x
    return float(nearest_f32(Fraction("%.7g" % x))) == x


def shape_value(tok, w, rng):
    """a finite float of the text shape `tok` (TCFltShapes of TextCodec.tla) for the item size w: a value of the
    type, verified to survive the print/scan cycle unchanged, whose printed text has the shape"""
    nd, emax, ebig = (16, 300, 100) if w == 8 else (7, 37, 10)
    for _ in range(10000):
        m = rng.randrange(10 ** (nd - 1), 10 ** nd)
        if m % 10 == 0:
            m += rng.randrange(1, 10)                                  # the last digit is needed
        if tok == "fs":
            x = float(rng.randrange(1, 10))
        elif tok == "fl":                                              # -d.ddde-ddd : the longest text
            e = rng.randrange(ebig, emax + 1) * rng.choice([1, -1])
            x = -float(Fraction(m) * Fraction(10) ** (e - (nd - 1)))
        elif tok == "fz":                                              # -0.000ddd : the longest fixed notation
            x = -float(Fraction(m) / Fraction(10) ** (nd + 3))
        elif tok == "fi":                                              # ddd : integral, every digit
            m = rng.randrange(10 ** (nd - 1), (1 << 53) if w == 8 else 10 ** nd)
            x = float(m + (1 if m % 10 == 0 else 0))
        elif tok == "fd":                                              # subnormal
            if w == 8:
                x = rng.choice([1, -1]) * rng.randrange(1, 1 << rng.randrange(1, 52)) * 2.0 ** -1074
            else:
                x = rng.choice([1, -1]) * float(_F32(rng.randrange(1, 1 << rng.randrange(1, 23)) * 2.0 ** -149))
        elif tok == "fx":                                              # the largest magnitudes on the lattice
            x = rng.choice([1, -1]) * (1.79769313486231e+308 if w == 8 else float(_F32(3.40282e+38)))
        else:
            raise MachineryError("unknown float shape %r" % tok)
        if w == 4:
            x = float(_F32(x))
        if x == 0 or not np.isfinite(x) or not _on_lattice(x, w):
            continue
        text = ("%.16g" if w == 8 else "%.7g") % x
        want = {"fs": len(text) == 1,
                "fl": len(text) == (23 if w == 8 else 13),
                "fz": text.startswith("-0.000") and len(text) == nd + 6,
                "fi": text.isdigit() and len(text) == nd,
                "fd": abs(x) < (2.2250738585072014e-308 if w == 8 else 1.17549435e-38),
                "fx": True}[tok]
        if want:
            return x
    raise MachineryError("no lattice value of shape %s for f%d" % (tok, w))


def int_range(k, w):
    return (-(1 << (8 * w - 1)), (1 << (8 * w - 1)) - 1) if k == "i" else (0, (1 << (8 * w)) - 1)


# ---------------------------------------------------------------------------------
# abstraction (bytes/values -> tokens) and concretisation (tokens -> numpy)
# ---------------------------------------------------------------------------------
def ftoken(v):
    v = float(v)
    if v != v:
        return "nan"
    if v == float("inf"):
        return "pinf"
    if v == float("-inf"):
        return "ninf"
    if v == 0:
        return "nz" if np.signbit(v) else "pz"
    return v.hex()


FSHAPES = ("fs", "fl", "fz", "fi", "fd", "fx")
# "nnan" is a NaN with the sign bit set (printf writes "-nan"); the abstraction maps every NaN to "nan"
_SPECIAL = {"nan": float("nan"), "nnan": -float("nan"), "pinf": float("inf"), "ninf": float("-inf"), "pz": 0.0, "nz": -0.0}


def ffromtoken(s):
    return _SPECIAL[s] if s in _SPECIAL else float.fromhex(s)


def chars_of(b, delim):
    out = []
    d = ord(delim)
    for c in b:
        if c == d:
            out.append("dl")
        elif c == 32:
            out.append("sp")
        elif c == 9:
            out.append("tb")
        elif c == 0:
            out.append("nul")
        elif 33 <= c <= 126:
            out.append(chr(c))
        else:
            out.append("x%02x" % c)
    return out


def bytes_of(toks, delim):
    out = bytearray()
    for t in toks:
        if t == "dl":
            out += delim.encode()
        elif t == "sp":
            out += b" "
        elif t == "tb":
            out += b"\t"
        elif t == "nul":
            out += b"\0"
        elif len(t) == 3 and t[0] == "x":
            out.append(int(t[1:], 16))
        else:
            out += t.encode("ascii")
    return bytes(out)


def order_chars(fields, order):
    """byte-order character per field for the order class lt | gt | mixed"""
    out, flip = [], True
    for f in fields:
        if f["k"] == "S" or f["w"] == 1:
            out.append("|")
        elif order == "lt":
            out.append("<")
        elif order == "gt":
            out.append(">")
        else:
            out.append(">" if flip else "<")
            flip = not flip
    return out


def can_mix(fields):
    return sum(1 for f in fields if f["k"] != "S" and f["w"] > 1) >= 2


def np_dtype(fields, order):
    descr = []
    for f, bo in zip(fields, order_chars(fields, order)):
        ts = "%s%s%d" % (bo, f["k"], f["w"])
        descr.append((f["name"], ts, tuple(f["sh"])) if f["sh"] else (f["name"], ts))
    return np.dtype(descr)


def build_array(ct, delim, order):
    """concretisation: canonical table -> numpy structured array in the requested byte order"""
    fields = ct["fields"]
    arr = np.zeros(len(ct["rows"]), dtype=np_dtype(fields, order))
    for r, row in enumerate(ct["rows"]):
        for f, cell in zip(fields, row):
            if f["k"] == "S":
                vals = np.array([bytes_of(e, delim) for e in cell], dtype="S%d" % f["w"])
            elif f["k"] == "f":
                vals = np.array([ffromtoken(e) for e in cell], dtype="f%d" % f["w"])
            else:
                vals = np.array([int(e) for e in cell], dtype="%s%d" % (f["k"], f["w"]))
            arr[f["name"]][r] = vals.reshape(tuple(f["sh"])) if f["sh"] else vals[0]
    return arr


def project_fields(dt, names=None):
    """observable structure of a result dtype (of the named columns)"""
    out = []
    for name in (dt.names or ()) if names is None else names:
        fd = dt.fields[name][0]
        base = fd.base
        bo = base.byteorder
        native = "none" if bo == "|" else ("native" if bo == "=" or bo == ("<" if np.little_endian else ">") else "swapped")
        out.append({"name": name, "k": base.kind, "w": int(base.itemsize), "sh": [int(x) for x in fd.shape], "bo": native})
    return out


def project_rows(arr, fields, delim, expect=None, names=None):
    """abstraction of the cells.  Fields of float tier "gen" are projected onto the expected
    token when the deviation is within the weak tolerance of the statement (relative
    1e-15 / 1e-6), else onto "off:<value>" (BUILDING.md, exception ii)."""
    rows = []
    names = arr.dtype.names if names is None else names
    for r in range(arr.shape[0]):
        row = []
        for i, f in enumerate(fields):
            col = arr[names[i]][r]
            flat = np.asarray(col).reshape(-1)
            if f["k"] == "S":
                cell = [chars_of(bytes(v), delim) for v in flat]
            elif f["k"] == "f":
                cell = [ftoken(v) for v in flat]
                if expect is not None and f.get("ft") == "gen" and r < len(expect) and len(expect[r][i]) == len(cell):
                    tol = Fraction(1, 10 ** 15 if f["w"] == 8 else 10 ** 6)
                    for e, (want, got) in enumerate(zip(expect[r][i], cell)):
                        if want != got and want.startswith(("0x", "-0x")) and got.startswith(("0x", "-0x")):
                            a, b = Fraction(float.fromhex(want)), Fraction(float.fromhex(got))
                            cell[e] = want if abs(a - b) <= tol * abs(a) else "off:" + got
            else:
                cell = [str(int(v)) for v in flat]
            row.append(cell)
        rows.append(row)
    return rows


def project_header(hdr, delim):
    if not isinstance(hdr, dict):
        return {"has": True, "delim": "missing", "dtype": []}
    d = hdr.get("_DELIM", None)
    out = {"has": True, "delim": "missing" if d is None else ("dl" if d == delim else "other"), "dtype": []}
    descr = hdr.get("_DTYPE", [])
    if isinstance(descr, str):
        descr = [("", descr)]
    for ent in descr:
        name, ts = ent[0], str(ent[1])
        sh = ent[2] if len(ent) > 2 else ()
        sh = [int(sh)] if isinstance(sh, (int, np.integer)) else [int(x) for x in sh]
        bofree = not (ts[:1] in "<>=|")
        try:
            b = np.dtype(ts)
            if b.subdtype is not None:                      # '2i4' style
                sh = [int(x) for x in b.shape] + sh
                b = b.base
            k, w = b.kind, int(b.itemsize)
        except TypeError:
            k, w = "?", 0
        out["dtype"].append({"name": name, "k": k, "w": w, "sh": sh, "bofree": bofree})
    return out


# ---------------------------------------------------------------------------------
# one write/read cycle against the real code
# ---------------------------------------------------------------------------------
_TMP = None


def _tmpdir():
    global _TMP
    if _TMP is None or not os.path.isdir(_TMP):
        base = "/dev/shm" if os.path.isdir("/dev/shm") and os.access("/dev/shm", os.W_OK) else tempfile.gettempdir()
        _TMP = tempfile.mkdtemp(prefix="vh-c04-", dir=base)
        atexit.register(shutil.rmtree, _TMP, True)
    return _TMP


@contextlib.contextmanager
def quiet_fd2():
    """the C++ reader prints diagnostics on fd 2"""
    saved = os.dup(2)
    dn = os.open(os.devnull, os.O_WRONLY)
    try:
        os.dup2(dn, 2)
        yield
    finally:
        os.dup2(saved, 2)
        os.close(saved)
        os.close(dn)


NOHDR = {"has": False, "delim": "missing", "dtype": []}


def cycle(ct, written, delim, entry, order):
    """write the table with one entry point in one byte order, read it back, project"""
    from esutil import sfile, recfile
    arr = build_array(ct, delim, order)
    path = os.path.join(_tmpdir(), "t%d.rec" % os.getpid())
    obs = {"entry": entry, "order": order, "err": "none", "stage": "", "fields": [], "rows": [], "hdr": NOHDR}
    try:
        with quiet_fd2():
            try:
                if entry == "sfile":
                    sfile.write(path, arr, delim=delim)
                else:
                    with recfile.Recfile(path, mode="w", delim=delim) as rf:
                        rf.write(arr)
            except Exception as e:  # noqa
                obs["err"], obs["stage"] = type(e).__name__, "write"
                return obs
            dt = np_dtype(ct["fields"], order)
            try:
                if entry == "sfile":
                    res, hdr = sfile.read(path, header=True)
                    obs["hdr"] = project_header(hdr, delim)
                else:
                    with recfile.Recfile(path, mode="r", delim=delim, dtype=dt) as rf:
                        res = rf.read()
            except Exception as e:  # noqa
                obs["err"], obs["stage"] = type(e).__name__, "read"
                return obs
        if not isinstance(res, np.ndarray) or res.dtype.names is None or res.ndim != 1:
            obs["err"], obs["stage"] = "NotATable", "read"
            return obs
        obs["fields"] = project_fields(res.dtype)
        same = [(g["k"], g["w"], g["sh"]) for g in obs["fields"]] == [(f["k"], f["w"], f["sh"]) for f in ct["fields"]]
        obs["rows"] = project_rows(res, ct["fields"], delim, expect=written) if same else \
            [[[] for _ in obs["fields"]] for _ in range(res.shape[0])]
        return obs
    finally:
        try:
            os.unlink(path)
        except OSError:
            pass


def plan(idx, ct, tier):
    """which (entry, order) cycles a table gets for one delimiter; all combinations in the
    thorough tier, a rotation that hits every combination equally often in the quick tier"""
    combos = [("sfile", "lt"), ("recfile", "gt"), ("sfile", "gt"), ("recfile", "lt")]
    out = list(combos) if tier == "thorough" else [combos[(2 * idx) % 4], combos[(2 * idx + 1) % 4]]
    if can_mix(ct["fields"]) and (tier == "thorough" or idx % 2 == 0):
        out.append(("sfile" if idx % 4 < 2 else "recfile", "mixed"))
    return out


def run_record(job):
    """job = (id, ct, delim, cycles) -> record for TextCodecTrace"""
    rid, ct, delim, cycles = job
    fields = [{"name": f["name"], "k": f["k"], "w": f["w"], "sh": f["sh"]} for f in ct["fields"]]
    written = project_rows(build_array(ct, delim, "lt"), ct["fields"], delim)
    obs = [cycle(ct, written, delim, e, o) for e, o in cycles]
    return {"id": rid, "dcode": ord(delim), "delim": delim, "t": {"fields": fields, "rows": written}, "obs": obs}


# ---------------------------------------------------------------------------------
# instantiation of the symbolic tables exported by TextCodecMC
# ---------------------------------------------------------------------------------
def instantiate(t, rng):
    """symbolic number tokens -> values of the field's type; finite float slots fa/fb -> lattice"""
    fields = [dict(name=f["name"], k=f["k"], w=f["w"], sh=list(f["sh"]), ft="lat") for f in t["fields"]]
    slots = {}
    rows = []
    for row in t["rows"]:
        out = []
        for f, cell in zip(fields, row):
            if f["k"] == "S":
                out.append([list(e) for e in cell])
            elif f["k"] == "f":
                c = []
                for e in cell:
                    if e in ("fa", "fb"):
                        key = (e, f["w"])
                        while key not in slots:
                            # fa > 0, fb < 0, printed with a leading non-zero digit like the model's texts "1.5" / "-2e9"
                            x = abs((lattice_f8 if f["w"] == 8 else lattice_f4)(rng))
                            if not 1e-4 <= x < 1:
                                slots[key] = x if e == "fa" else -x
                        c.append(ftoken(slots[key]))
                    elif e == "nan":
                        c.append("nan" if rng.random() < 0.7 else "nnan")
                    elif e in FSHAPES:
                        key = (e, f["w"])
                        if key not in slots:
                            slots[key] = shape_value(e, f["w"], rng)
                        c.append(ftoken(slots[key]))
                    else:
                        c.append(e)
                out.append(c)
            else:
                lo, hi = int_range(f["k"], f["w"])
                out.append([str({"min": lo, "m1": -1, "z": 0, "p1": 1, "max": hi}[e]) for e in cell])
        rows.append(out)
    return {"fields": fields, "rows": rows}


# ---------------------------------------------------------------------------------
# larger seeded tables (code -> spec)
# ---------------------------------------------------------------------------------
_PLAIN = [chr(c) for c in range(33, 127)]
_NUMISH = list("0123456789+-.eEnaifNAIF")
_SHAPES = [[], [], [], [2], [3], [2, 2], [2, 3]]
_TYPES = [("i", 1), ("u", 1), ("i", 2), ("u", 2), ("i", 4), ("u", 4), ("i", 8), ("u", 8), ("f", 4), ("f", 8)] + \
         [("S", w) for w in range(1, 13)]
_NAMES = ["x", "y", "flux", "name", "id", "ra", "dec", "mag_r", "Flag", "z9", "obj", "w"]


def random_word(rng, w):
    n = rng.choice([0, 1, w, w, rng.randrange(0, w + 1)])
    out = []
    for _ in range(n):
        u = rng.random()
        out.append("sp" if u < 0.18 else "dl" if u < 0.30 else "tb" if u < 0.35 else "nul" if u < 0.40 else
                   rng.choice(_NUMISH) if u < 0.52 else rng.choice(_PLAIN))
    while out and out[-1] == "nul":
        out.pop()
    return out


def random_int(rng, k, w):
    lo, hi = int_range(k, w)
    u = rng.random()
    if u < 0.25:
        return rng.choice([lo, hi, lo + 1, hi - 1])
    if u < 0.5:
        return max(lo, min(hi, rng.choice([-1, 0, 1, 9, 10, -10, 99, 100, 255, 256, -128, 65535])))
    return rng.randrange(lo, hi + 1)


def random_float(rng, w, ft):
    u = rng.random()
    if u < 0.25:
        return rng.choice(["nan", "nnan", "pinf", "ninf", "pz", "nz"])
    if u < 0.40:
        return ftoken(shape_value(rng.choice(FSHAPES), w, rng))
    if ft == "gen":
        return ftoken((generic_f8 if w == 8 else generic_f4)(rng))
    return ftoken((lattice_f8 if w == 8 else lattice_f4)(rng))


def random_table(rng):
    nf = rng.choice([1, 2, 2, 3, 3, 4, 5, 6])
    names = rng.sample(_NAMES, nf)
    fields = []
    for n in names:
        k, w = rng.choice(_TYPES)
        f = {"name": n, "k": k, "w": w, "sh": list(rng.choice(_SHAPES)), "ft": ""}
        if k == "f":
            f["ft"] = "gen" if rng.random() < 0.3 else "lat"
        fields.append(f)
    nrows = rng.choice([1, 2, 2, 3, 5, 8])
    rows = []
    for _ in range(nrows):
        row = []
        for f in fields:
            nel = int(np.prod(f["sh"])) if f["sh"] else 1
            if f["k"] == "S":
                row.append([random_word(rng, f["w"]) for _ in range(nel)])
            elif f["k"] == "f":
                row.append([random_float(rng, f["w"], f["ft"]) for _ in range(nel)])
            else:
                row.append([str(random_int(rng, f["k"], f["w"])) for _ in range(nel)])
        rows.append(row)
    return {"fields": fields, "rows": rows}


# ---------------------------------------------------------------------------------
# judging (TLC) and signatures
# ---------------------------------------------------------------------------------
def kinds_of(t):
    return "".join(sorted({f["k"] for f in t["fields"]}))


def signatures(rec, k, clauses, hz, dl):
    """one defect family -> one signature: the failing clause and the structural class of the
    input (delimiter class [+ syntactic group] as TLC names it, first named hazard, or the byte-order
    class), never raw values"""
    o = rec["obs"][k]
    dc = dl.split("/")[0]
    dg = dc + "{G}"                 # Tally.flush decides whether the syntactic group of the delimiter belongs to the signature
    out = []
    rows = [c for c in clauses if c in ROWS_CLAUSES]
    if rows:
        if hz != "none":
            out.append(("text.read|same_rows|delim=%s|%s" % (dc, hz), "same rows (integers and strings exactly, floats on the lattice)"))
        elif o["order"] == "mixed":
            out.append(("text.write|same_rows|order=mixed", "same rows (integers and strings exactly, floats on the lattice)"))
        else:
            for c in rows:
                stage = ("@" + o["stage"]) if c == "rows_error" else ""
                out.append(("%s|%s%s|delim=%s|nohazard|kinds=%s|order=%s" % (o["entry"], c, stage, dg, kinds_of(rec["t"]), o["order"]), c))
    for c in clauses:
        if c not in ROWS_CLAUSES:
            out.append(("%s|%s|order=%s%s" % (o["entry"], c, o["order"], "|delim=" + dg if c == "hdr_delim" else ""), c))
    return out


class Tally:
    """violations are collected per signature template and reported at the end: the syntactic group of a plain
    delimiter (percent, pyquote, letter, ...) becomes part of the signature only when the failures of a clause are
    confined to one or two groups over the whole run, i.e. when the defect is specific to the delimiter character"""

    def __init__(self):
        self.by_sig = {}
        self.pending = {}               # template -> {group: [count, [(what, case), ...]]}
        self.rows_failed = set()        # (record id, obs index) whose rows did not come back

    def add(self, ctx, template, dl, what, case, cap=40):
        grp = dl.split("/")[1] if "/" in dl else ""       # scale signatures carry no group placeholder
        ent = self.pending.setdefault(template, {}).setdefault(grp, [0, []])
        ent[0] += 1
        if len(ent[1]) < cap:
            ent[1].append((what, case))

    def flush(self, ctx, cap=40, force=None):
        seen = {}                        # failing clause -> groups of plain delimiters it failed with, over all templates
        for template, groups in self.pending.items():
            if "delim=plain{G}" in template:
                seen.setdefault(template.split("|")[1], set()).update(groups)
        for template in sorted(self.pending):
            groups = self.pending[template]
            specific = "delim=plain{G}" in template and (len(seen[template.split("|")[1]]) <= 2 if force is None else force)
            for grp in sorted(groups):
                sig = template.replace("{G}", "/" + grp if specific else "")
                n, items = groups[grp]
                for what, case in items:
                    if self.by_sig.get(sig, 0) < cap:
                        case["delim_specific"] = specific
                        ctx.violation(sig, what, case)
                    self.by_sig[sig] = self.by_sig.get(sig, 0) + 1
                self.by_sig[sig] += n - len(items)
        self.pending = {}


def judge(ctx, recs, what, tally, meta=None):
    """recs: records of run_record.  TLC (TextCodecTrace) names the failing clauses."""
    slim = [{"id": r["id"], "dcode": r["dcode"], "t": r["t"],
             "obs": [{k: v for k, v in o.items() if k != "stage"} for o in r["obs"]]} for r in recs]
    rejects = {}
    chunk = 30000
    parts = [slim[i:i + chunk] for i in range(0, len(slim), chunk)]
    for n, part in enumerate(parts):
        rejects.update(tracecheck.validate(ctx, "TextCodecTrace.tla", part, shard_size=6000,
                                           what="%s%s" % (what, " [%d/%d]" % (n + 1, len(parts)) if len(parts) > 1 else "")))
    byid = {r["id"]: r for r in recs}
    for rid in sorted(rejects):
        failing = rejects[rid]
        r = byid[rid]
        hz = next((c[3:] for c in failing if c.startswith("hz:")), "none")
        dl = next((c[3:] for c in failing if c.startswith("dl:")), "unknown")
        per = {}
        for c in failing:
            if not c.startswith(("hz:", "dl:")):
                k, name = c.split(":", 1)
                per.setdefault(int(k) - 1, []).append(name)
        for k in sorted(per):
            o = r["obs"][k]
            if any(c in ROWS_CLAUSES for c in per[k]):
                tally.rows_failed.add((rid, k))
            for sig, clause in signatures(r, k, sorted(per[k]), hz, dl):
                case = {"kind": "cycle", "ct": (meta or {}).get(rid, {}).get("ct"), "delim": r["delim"], "entry": o["entry"],
                        "order": o["order"], "written": r["t"]["rows"], "observed": {"err": o["err"], "rows": o["rows"], "fields": o["fields"], "hdr": o["hdr"]},
                        "failing": sorted(per[k]), "hazard": hz, "delim_class": dl}
                if case["ct"] is None:
                    case["ct"] = {"fields": r["t"]["fields"], "rows": r["t"]["rows"]}
                tally.add(ctx, sig, dl, "%s with delim %s (%s, order %s): clause '%s' of C04 violated [%s]" %
                          ("sfile.write/read" if o["entry"] == "sfile" else "Recfile.write/read", dname(r["delim"]), dl, o["order"],
                           clause, ",".join(sorted(per[k]))), case)
    return rejects


# ---------------------------------------------------------------------------------
# SCALE (class S): tables no family can enumerate - 10^5 rows, hundreds of columns, sub-arrays of thousands of
# elements (lines longer than a stdio block), sfile headers longer than one or several blocks with the END
# line in every position relative to a block boundary.  TLC exports the cases (ScaleCases of TextCodecMC.tla:
# a small base table, an axis, a size); the adapter blows the base up, runs the cycle, and cuts what was
# written and what came back into the same small parts along the axis.  Parts are compared by digest only to
# find the DISTINCT (written part, observed part) pairs; each distinct pair is abstracted like any small
# table and judged by TLC through the split laws of TextCodec.tla (TCRowSplitLaw / TCColSplitLaw / TCUnroll),
# which TLC checks on the bounded families.
# ---------------------------------------------------------------------------------
import hashlib

MAX_PARTS = 10
BASE_NAMES = "abcd"


def _scale_big(sc, ct, delim, order, names=None):
    """the big array of a scale case in the given byte order, and the column plan [(big name, base field index)]"""
    barr = build_array(ct, delim, order)
    bf = ct["fields"]
    p, axis, n = len(bf), sc["axis"], sc["n"]
    if axis == "rows":
        return barr[np.arange(n) % len(barr)], [(f["name"], j) for j, f in enumerate(bf)]
    ocs = order_chars(bf, order)
    if axis == "elems":
        descr = [(f["name"], "%s%s%d" % (oc, f["k"], f["w"]), (n,)) for f, oc in zip(bf, ocs)]
        big = np.zeros(len(barr), dtype=np.dtype(descr))
        for f in bf:
            col = barr[f["name"]].reshape(len(barr), -1)
            big[f["name"]] = np.tile(col, (1, n // col.shape[1] + 1))[:, :n]
        return big, [(f["name"], j) for j, f in enumerate(bf)]
    cols = [(names[i], i % p) for i in range(len(names))]
    descr = []
    for nm, j in cols:
        f = bf[j]
        ts = "%s%s%d" % (ocs[j], f["k"], f["w"])
        descr.append((nm, ts, tuple(f["sh"])) if f["sh"] else (nm, ts))
    big = np.zeros(len(barr), dtype=np.dtype(descr))
    for nm, j in cols:
        big[nm] = barr[bf[j]["name"]]
    return big, cols


def _marker_offset(path):
    with open(path, "rb") as f:
        return f.read(1 << 20).find(b"\nEND\n")


def _tune_header(sc, ct, delim):
    """column names (and a user header) such that the line END of the sfile header starts sc.off bytes after
    sc.blk: found by writing the table with the real writer and measuring (every name character is one byte)"""
    from esutil import sfile
    target = sc["blk"] + sc["off"]
    p = len(ct["fields"])
    path = os.path.join(_tmpdir(), "h%d.rec" % os.getpid())

    def measure(names, user):
        big, _ = _scale_big(dict(sc, axis="cols"), ct, delim, "lt", names)
        with quiet_fd2():
            sfile.write(path, big, delim=delim, header=user)
        m = _marker_offset(path)
        os.unlink(path)
        return m

    if sc["user"]:
        names = ["c%03d" % i for i in range(2 * p)]
        nkeys = max(1, (target - measure(names, {"k" * 8: 0}) - 8) // 13)
        user = {"u%05d" % i: i % 7 for i in range(nkeys)}
        pads = [0]
        mk = lambda: (names, dict(user, **{"k" * (8 + pads[0]): 0}))     # noqa: E731
    else:
        ncols = max(p, (target - 100) // 34)
        user = None
        pads = [0] * ncols
        mk = lambda: (["c%04d%s" % (i, "n" * pads[i]) for i in range(len(pads))], None)   # noqa: E731
    for _ in range(8):
        names, usr = mk()
        m = measure(names, usr)
        if m == target:
            return names, usr
        d = target - m
        if sc["user"]:
            pads[0] += d
            if not 0 <= pads[0] <= 60:
                user = {"u%05d" % i: i % 7 for i in range(max(1, len(user) + (d - 20) // 13 if d > 0 else len(user) + d // 13 - 1))}
                pads[0] = 0
        elif d < 0 and sum(pads) + d < 0:
            pads = [0] * max(p, len(pads) + d // 34 - 1)
        else:
            i = 0
            while d != 0 and i < 100000:
                k = i % len(pads)
                if d > 0 and pads[k] < 30:
                    pads[k] += 1
                    d -= 1
                elif d < 0 and pads[k] > 0:
                    pads[k] -= 1
                    d += 1
                i += 1
            if d > 0:
                pads = pads + [0] * (d // 34 + 1)
    raise MachineryError("could not tune the header of scale case %s to %d bytes" % ({k: sc[k] for k in ("blk", "off", "user")}, target))


def _digest(*chunks):
    h = hashlib.blake2b(digest_size=12)
    for c in chunks:
        h.update(c)
        h.update(b"|")
    return h.digest()


def _ids2d(v):
    """ids of the rows of the contiguous 2-d byte array v (equal bytes <=> equal id)"""
    nb = v.shape[0]
    if nb == 0 or v.shape[1] == 0:
        return np.zeros(nb, dtype=np.int64)
    v = np.ascontiguousarray(v).view(np.dtype((np.void, v.shape[1]))).reshape(nb)
    return np.unique(v, return_inverse=True)[1].reshape(nb).astype(np.int64)


def _block_ids(a, rows_per):
    """ids of the consecutive blocks of rows_per items of the 1-d array a"""
    nb = a.shape[0] // rows_per
    if nb == 0:
        return np.zeros(0, dtype=np.int64)
    return _ids2d(np.ascontiguousarray(a[:nb * rows_per]).view(np.uint8).reshape(nb, -1))


def _first_pairs(ia, ib):
    """first index of every distinct (ia[i], ib[i]) pair, in order of occurrence"""
    n = min(len(ia), len(ib))
    if n == 0:
        return []
    key = ia[:n].astype(np.int64) * (int(ib[:n].max()) + 1) + ib[:n]
    return sorted(int(i) for i in np.unique(key, return_index=True)[1])


def _sub_ct(fields, rows):
    return {"fields": fields, "rows": rows}


def _part(wfields, warr, wnames, rarr, rnames, rfields_ok, delim, hdr):
    """one (written part, observed part) pair as a small table and its observation; w/r names select the columns"""
    t_rows = project_rows(warr, wfields, delim, names=wnames)
    ofields = project_fields(rarr.dtype, rnames)
    for g, nm_ok, wf in zip(ofields, rfields_ok, wfields):
        g["name"] = wf["name"] if nm_ok else "?" + g["name"]
    same = [(g["k"], g["w"], g["sh"]) for g in ofields] == [(f["k"], f["w"], f["sh"]) for f in wfields]
    o_rows = project_rows(rarr, wfields, delim, names=rnames) if same else [[[] for _ in ofields] for _ in range(rarr.shape[0])]
    fields = [{"name": f["name"], "k": f["k"], "w": f["w"], "sh": f["sh"]} for f in wfields]
    return {"t": {"fields": fields, "rows": t_rows},
            "obs": {"entry": "", "order": "", "err": "none", "fields": ofields, "rows": o_rows, "hdr": hdr}}


def _hdr_part(hdr, a, b, wnames, wfields):
    """the header projection restricted to the dtype entries a..b-1, names normalised like the fields"""
    if not hdr["has"]:
        return NOHDR
    ents = []
    for ent, wn, wf in zip(hdr["dtype"][a:b], wnames, wfields):
        ents.append(dict(ent, name=wf["name"] if ent["name"] == wn else "?" + ent["name"]))
    return {"has": True, "delim": hdr["delim"], "dtype": ents}


def scale_cycle(job):
    """job = (id, scale case, instantiated base table, entry, order[, tuned names, user header]) -> scale record"""
    from esutil import sfile, recfile
    rid, sc, ct, entry, order, names, user = job
    delim, axis = chr(sc["dcode"]), sc["axis"]
    bf = ct["fields"]
    p = len(bf)
    if axis == "cols":
        names = ["c%04d" % i for i in range(sc["n"])]
    W, cols = _scale_big(sc if axis != "hdr" else dict(sc, axis="cols"), ct, delim, order, names)
    Wl, _ = _scale_big(sc if axis != "hdr" else dict(sc, axis="cols"), ct, delim, "lt", names)     # what was written, native
    caxis = "cols" if axis == "hdr" else axis
    rec = {"id": rid, "dcode": sc["dcode"], "delim": delim, "axis": caxis, "scale": axis, "nw": 0, "no": 0, "hw": 0, "ho": 0,
           "err": "none", "stage": "", "parts": [], "where": [], "entry": entry, "order": order, "hdr_blocks": 0,
           "size": {"rows": int(W.shape[0]), "cols": len(cols), "elems": sc["n"] if axis == "elems" else 0}}
    rec["nw"] = {"rows": int(W.shape[0]), "cols": len(cols), "elems": sc["n"]}[caxis]
    path = os.path.join(_tmpdir(), "s%d.rec" % os.getpid())
    hdr = NOHDR
    try:
        with quiet_fd2():
            try:
                if entry == "sfile":
                    sfile.write(path, W, delim=delim, header=user)
                else:
                    with recfile.Recfile(path, mode="w", delim=delim) as rf:
                        rf.write(W)
            except Exception as e:  # noqa
                rec["err"], rec["stage"] = type(e).__name__, "write"
                return rec
            if entry == "sfile":
                rec["hdr_blocks"] = (_marker_offset(path) + 6) // 8192 + 1
            try:
                if entry == "sfile":
                    R, h = sfile.read(path, header=True)
                    hdr = project_header(h, delim)
                else:
                    with recfile.Recfile(path, mode="r", delim=delim, dtype=W.dtype) as rf:
                        R = rf.read()
            except Exception as e:  # noqa
                rec["err"], rec["stage"] = type(e).__name__, "read"
                return rec
        if not isinstance(R, np.ndarray) or R.dtype.names is None or R.ndim != 1:
            rec["err"], rec["stage"] = "NotATable", "read"
            return rec
    finally:
        try:
            os.unlink(path)
        except OSError:
            pass
    wnames = [c[0] for c in cols]
    rnames = list(R.dtype.names)
    if hdr["has"]:
        rec["hw"], rec["ho"] = len(cols), len(hdr["dtype"])
    parts, where = [], []

    def add(part, first, last):
        if len(parts) < MAX_PARTS:
            part["obs"]["entry"], part["obs"]["order"] = entry, order
            parts.append(part)
            where.append("first" if first else "last" if last else "interior")

    if caxis == "rows":
        rec["no"] = int(R.shape[0])
        r = len(ct["rows"])
        same_cols = len(rnames) == len(wnames)
        ok = [a == b for a, b in zip(rnames, wnames)] if same_cols else []
        hp = _hdr_part(hdr, 0, len(wnames), wnames, bf) if same_cols else hdr
        if not same_cols:
            rec["err"], rec["stage"] = "FieldCount", "read"
            return rec
        Rc = np.ascontiguousarray(R)
        nb = min(W.shape[0], R.shape[0]) // r
        for i in _first_pairs(_block_ids(Wl, r), _block_ids(Rc, r)):
            add(_part(bf, Wl[i * r:(i + 1) * r], wnames, Rc[i * r:(i + 1) * r], rnames, ok, delim, hp), i == 0, i == nb - 1 and W.shape[0] == nb * r)
        wt, rt = Wl[nb * r:nb * r + r], Rc[nb * r:nb * r + r]
        if len(wt) or len(rt):
            add(_part(bf, wt, wnames, rt, rnames, ok, delim, hp), nb == 0, True)
    elif caxis == "cols":
        rec["no"] = len(rnames)
        if R.shape[0] != W.shape[0]:
            rec["err"], rec["stage"] = "RowCount", "read"
            return rec
        seen = set()
        ng = (min(len(wnames), len(rnames)) + p - 1) // p
        for g in range(ng):
            a, b = g * p, min((g + 1) * p, len(wnames), len(rnames))
            wn, rn = wnames[a:b], rnames[a:b]
            gf = [bf[cols[i][1]] for i in range(a, b)]
            ok = [x == y for x, y in zip(wn, rn)]
            hp = _hdr_part(hdr, a, b, wn, gf) if hdr["has"] and len(hdr["dtype"]) >= b else hdr
            key = _digest(repr([(f["k"], f["w"], f["sh"]) for f in gf]).encode(), repr(ok).encode(), repr(hp).encode(),
                          repr([str(R.dtype.fields[x][0]) for x in rn]).encode(),
                          *[np.ascontiguousarray(Wl[x]).tobytes() for x in wn], *[np.ascontiguousarray(R[x]).tobytes() for x in rn])
            if key not in seen:
                seen.add(key)
                add(_part(gf, Wl, wn, R, rn, ok, delim, hp), g == 0, g == ng - 1)
    else:       # elems: every field widened to n elements; parts are blocks of L elements of one field
        L = 2
        shapes = [R.dtype.fields[x][0].shape for x in rnames]
        rec["no"] = int(min((s[0] if len(s) == 1 else 0) for s in shapes)) if shapes else 0
        if len(rnames) != len(wnames) or R.shape[0] != W.shape[0]:
            rec["err"], rec["stage"] = "FieldOrRowCount", "read"
            return rec
        for j, (wn, rn) in enumerate(zip(wnames, rnames)):
            f = bf[j]
            wc = np.ascontiguousarray(Wl[wn]).reshape(W.shape[0], -1)
            rc = np.ascontiguousarray(R[rn]).reshape(R.shape[0], -1)
            nbl = min(wc.shape[1], rc.shape[1]) // L
            wb = np.ascontiguousarray(wc[:, :nbl * L].reshape(W.shape[0], nbl, L).transpose(1, 0, 2))
            rb = np.ascontiguousarray(rc[:, :nbl * L].reshape(R.shape[0], nbl, L).transpose(1, 0, 2))
            idx = _first_pairs(_ids2d(wb.view(np.uint8).reshape(nbl, -1)), _ids2d(rb.view(np.uint8).reshape(nbl, -1))) if nbl else []
            blocks = [(i * L, (i + 1) * L) for i in idx]
            if wc.shape[1] > nbl * L or rc.shape[1] > nbl * L:
                blocks.append((nbl * L, nbl * L + L))
            for a, b in blocks:
                wpart = np.zeros(W.shape[0], dtype=[(f["name"], wc.dtype, (wc[:, a:b].shape[1],))])
                wpart[f["name"]] = wc[:, a:b]
                rpart = np.zeros(R.shape[0], dtype=[(rn, rc.dtype, (rc[:, a:b].shape[1],))])
                rpart[rn] = rc[:, a:b]
                pf = dict(f, sh=[int(wc[:, a:b].shape[1])])
                hp = NOHDR if not hdr["has"] else {"has": True, "delim": hdr["delim"],
                                                   "dtype": [dict(e, name=pf["name"] if e["name"] == wn else "?" + e["name"],
                                                                  sh=pf["sh"] if e["sh"] == [sc["n"]] else e["sh"])
                                                             for e in hdr["dtype"][j:j + 1]]}
                add(_part([pf], wpart, [f["name"]], rpart, [rn], [wn == rn], delim, hp), j == 0 and a == 0, b >= wc.shape[1])
    rec["parts"], rec["where"] = parts, where
    return rec


def scale_job(job):
    """job = (first id, scale case, base table, [(entry, order), ...]) -> scale records (header tuning included)"""
    rid, sc, ct, cycles = job
    names = user = None
    if sc["axis"] == "hdr":
        names, user = _tune_header(sc, ct, chr(sc["dcode"]))
    return [scale_cycle((rid + n, sc, ct, e, o, names, user)) for n, (e, o) in enumerate(cycles)]


def scale_plan(idx, sc, tier):
    orders = ["lt", "gt"]
    if sc["axis"] == "hdr":                     # only sfile writes a header
        return [("sfile", o) for o in (orders if tier == "thorough" else [orders[idx % 2]])]
    if tier == "thorough":
        return [(e, o) for e in ("sfile", "recfile") for o in orders]
    return [("sfile", orders[idx % 2]), ("recfile", orders[(idx + 1) % 2])]


def scale_class(rec):
    return rec["scale"] + ("+header>1block" if rec["hdr_blocks"] > 1 else "")


def slim_scale(r):
    return {"id": r["id"], "dcode": r["dcode"], "axis": r["axis"], "nw": r["nw"], "no": r["no"], "hw": r["hw"], "ho": r["ho"],
            "err": r["err"], "parts": [{"t": p["t"], "obs": p["obs"]} for p in r["parts"]]}


def judge_scale(ctx, recs, what, tally, meta):
    """scale records -> TLC (TextCodecTrace, split laws); meta: id -> (scale case, base table)"""
    rejects = tracecheck.validate(ctx, "TextCodecTrace.tla", [slim_scale(r) for r in recs], what=what)
    byid = {r["id"]: r for r in recs}
    for rid in sorted(rejects):
        r = byid[rid]
        dl = next((c[3:] for c in rejects[rid] if c.startswith("dl:")), "unknown")
        per = {}
        for c in rejects[rid]:
            if not c.startswith(("hz:", "dl:")):
                k, name = c.split(":", 1)
                per.setdefault(int(k), []).append(name)
        for k in sorted(per):
            where = "whole" if k == 0 else r["where"][k - 1]
            for clause in sorted(per[k]):
                stage = ("@" + r["stage"]) if clause == "rows_error" else ""
                sig = "%s|%s%s|scale=%s|part=%s|delim=%s" % (r["entry"], clause, stage, scale_class(r), where, dl.split("/")[0])
                sc, ct = meta[rid]
                case = {"kind": "scale", "sc": sc, "ct": ct, "entry": r["entry"], "order": r["order"], "size": r["size"],
                        "hdr_blocks": r["hdr_blocks"], "failing": sorted(per[k]), "where": where,
                        "counts": {k2: r[k2] for k2 in ("nw", "no", "hw", "ho", "err")},
                        "part": None if k == 0 else r["parts"][k - 1]}
                tally.add(ctx, sig, "", "%s of a big table (%s: %s, delim %s, order %s), %s part: clause '%s' of C04 violated" %
                          ("sfile.write/read" if r["entry"] == "sfile" else "Recfile.write/read", scale_class(r),
                           {k2: v for k2, v in r["size"].items() if v}, dname(r["delim"]), r["order"], where, clause), case)
    return rejects



# ---------------------------------------------------------------------------------
# WORLD (class W): two record files alive in ONE process, their calls interleaved.  TLC enumerates the sessions
# (TextCodecWorld.tla: every merge of the two files' scripts x entry points x twin tables) and checks that the
# own-buffer mechanism meets WorldIndependent while a process-wide shared buffer violates it; every exported
# session is executed here in one fresh (forked) process, step by step, and TextCodecWorldTrace.tla judges every
# read against the rows written to ITS file (TCWWritten, computed by TLC from the steps).
# ---------------------------------------------------------------------------------
import pickle
import select
import struct
import time as _time

WORLD_INVS = ["WorldIndependent", "DiskOK", "RefSessionAccepted"]
WORLD_ORDERS = {1: "lt", 2: "gt"}
WORLD_TIMEOUT = 120


def world_tables(sess, rng):
    """the symbolic tables of the session's files -> concrete canonical tables and the chunk boundaries"""
    out = []
    for ft in sess["files"]:
        flat = [row for ch in ft["chunks"] for row in ch]
        ct = instantiate({"fields": ft["fields"], "rows": flat}, rng)
        cuts, a = [], 0
        for ch in ft["chunks"]:
            cuts.append((a, a + len(ch)))
            a += len(ch)
        out.append({"ct": ct, "cuts": cuts})
    return out


def _world_read_obs(res, hdr, ct, delim, entry, order):
    obs = {"entry": entry, "order": order, "err": "none", "fields": [], "rows": [], "hdr": NOHDR if hdr is None else project_header(hdr, delim)}
    if not isinstance(res, np.ndarray) or res.dtype.names is None or res.ndim != 1:
        obs["err"] = "NotATable"
        return obs
    obs["fields"] = project_fields(res.dtype)
    same = [(g["k"], g["w"], g["sh"]) for g in obs["fields"]] == [(f["k"], f["w"], f["sh"]) for f in ct["fields"]]
    obs["rows"] = project_rows(res, ct["fields"], delim) if same else [[[] for _ in obs["fields"]] for _ in range(res.shape[0])]
    return obs


def _world_child(sess, tabs, delim, wfd):
    """runs in the forked child: the steps of the session in order, one observation per step sent to the parent"""
    from esutil import sfile, recfile
    dn = os.open(os.devnull, os.O_WRONLY)
    os.dup2(dn, 2)
    tmp = tempfile.mkdtemp(prefix="w%d-" % os.getpid(), dir=_tmpdir())
    paths = {f: os.path.join(tmp, "f%d.rec" % f) for f in (1, 2)}
    arrs = {f: build_array(tabs[f - 1]["ct"], delim, WORLD_ORDERS[f]) for f in (1, 2)}
    objs, nch, held = {}, {1: 0, 2: 0}, {}
    for st in sess["steps"]:
        f, op = st["f"], st["op"]
        entry, order = sess["ent"][f - 1], WORLD_ORDERS[f]
        arr, path = arrs[f], paths[f]
        isread = op in ("rd", "rall")
        obs = {"entry": entry, "order": order, "err": "none", "fields": [], "rows": [], "hdr": NOHDR} if isread else {"err": "none"}
        try:
            if op == "ow":
                nch[f] = 0
                objs[f] = sfile.SFile(path, "w", delim=delim) if entry == "sfile" else recfile.Recfile(path, mode="w", delim=delim)
            elif op == "wr":
                a, b = tabs[f - 1]["cuts"][nch[f]]
                nch[f] += 1
                objs[f].write(arr[a:b])
            elif op == "cl":
                objs.pop(f).close()
            elif op == "wall":
                if entry == "sfile":
                    sfile.write(path, arr, delim=delim)
                else:
                    with recfile.Recfile(path, mode="w", delim=delim) as rf:
                        rf.write(arr)
            elif op == "or":
                objs[f] = sfile.SFile(path) if entry == "sfile" else recfile.Recfile(path, mode="r", delim=delim, dtype=arr.dtype)
            elif op == "rd":
                if entry == "sfile":
                    res, hdr = objs[f].read(header=True)
                else:
                    res, hdr = objs[f].read(), None
                obs = _world_read_obs(res, hdr, tabs[f - 1]["ct"], delim, entry, order)
                held[f] = res
            elif op == "scr":        # results are the caller's: overwrite every byte of the rows last read from this file
                try:
                    if isinstance(held.get(f), np.ndarray):
                        held[f].view(np.uint8).fill(0x23)
                except Exception:  # noqa  (a result that cannot be overwritten is not a violation)
                    pass
            elif op == "rall":
                if entry == "sfile":
                    res, hdr = sfile.read(path, header=True)
                else:
                    with recfile.Recfile(path, mode="r", delim=delim, dtype=arr.dtype) as rf:
                        res, hdr = rf.read(), None
                obs = _world_read_obs(res, hdr, tabs[f - 1]["ct"], delim, entry, order)
                held[f] = res
            else:
                obs["err"] = "UnknownOp"
        except Exception as e:  # noqa
            obs["err"] = type(e).__name__
        blob = pickle.dumps(obs)
        os.write(wfd, struct.pack("<I", len(blob)) + blob)
    for o in list(objs.values()):
        try:
            o.close()
        except Exception:  # noqa
            pass
    shutil.rmtree(tmp, True)


def world_session(job):
    """job = (id, session, tables) -> session record for TextCodecWorldTrace; the whole session runs in one fresh child"""
    rid, sess, tabs = job
    delim = chr(sess["dcode"])
    files = []
    for f in (1, 2):
        ct = tabs[f - 1]["ct"]
        written = project_rows(build_array(ct, delim, "lt"), ct["fields"], delim)
        files.append({"fields": [{"name": x["name"], "k": x["k"], "w": x["w"], "sh": x["sh"]} for x in ct["fields"]],
                      "chunks": [written[a:b] for a, b in tabs[f - 1]["cuts"]]})
    _tmpdir()
    from esutil import sfile, recfile  # noqa: F401  (imported before the fork: the child only has to run the calls)
    rfd, wfd = os.pipe()
    pid = os.fork()
    if pid == 0:
        code = 0
        try:
            os.close(rfd)
            _world_child(sess, tabs, delim, wfd)
        except BaseException:  # noqa
            code = 3
        finally:
            os._exit(code)
    os.close(wfd)
    buf, died = b"", "ProcessDied"
    t0 = _time.time()
    while True:
        left = WORLD_TIMEOUT - (_time.time() - t0)
        if left <= 0 or not select.select([rfd], [], [], left)[0]:
            died = "Timeout"
            try:
                os.kill(pid, 9)
            except OSError:
                pass
            break
        part = os.read(rfd, 1 << 16)
        if not part:
            break
        buf += part
    os.close(rfd)
    os.waitpid(pid, 0)
    obs, at = [], 0
    while at + 4 <= len(buf):
        n = struct.unpack("<I", buf[at:at + 4])[0]
        if at + 4 + n > len(buf):
            break
        obs.append(pickle.loads(buf[at + 4:at + 4 + n]))
        at += 4 + n
    for st in sess["steps"][len(obs):]:          # the child did not get that far: the call did not return
        f = st["f"]
        obs.append({"entry": sess["ent"][f - 1], "order": WORLD_ORDERS[f], "err": died, "fields": [], "rows": [], "hdr": NOHDR}
                   if st["op"] in ("rd", "rall") else {"err": died})
    return {"id": rid, "dcode": sess["dcode"], "delim": delim, "files": files, "steps": sess["steps"], "obs": obs}


def slim_world(r):
    return {k: r[k] for k in ("id", "dcode", "files", "steps", "obs")}


def judge_world(ctx, recs, what, tally, meta):
    rejects = tracecheck.validate(ctx, "TextCodecWorldTrace.tla", [slim_world(r) for r in recs], what=what)
    byid = {r["id"]: r for r in recs}
    for rid in sorted(rejects):
        r = byid[rid]
        sess = meta[rid]["sess"]
        dl = next((c[3:] for c in rejects[rid] if c.startswith("dl:")), "unknown")
        for c in rejects[rid]:
            if c.startswith("dl:"):
                continue
            k, clause = c.split(":", 1)
            st = r["steps"][int(k) - 1]
            entry = sess["ent"][st["f"] - 1]
            # one defect family -> one signature: the entry point and the clause class, not the merge that exposed it
            sig = "%s|world:%s" % (entry, "same_rows" if clause in ROWS_CLAUSES else clause)
            case = {"kind": "world", "sess": sess, "tabs": meta[rid]["tabs"], "step": int(k), "failing": clause,
                    "steps": ["%d:%s" % (x["f"], x["op"]) for x in r["steps"]], "observed": r["obs"][int(k) - 1],
                    "written": r["files"][st["f"] - 1]["chunks"]}
            tally.add(ctx, sig, "", "two record files open in one process (%s; file 1 via %s, file 2 via %s; twin tables '%s'; delim %s): step %s "
                      "'%s' of file %d: clause '%s' of C04 violated - the outcome depends on the other file" %
                      (" ".join(case["steps"]), sess["ent"][0], sess["ent"][1], sess["twin"], dname(r["delim"]), k, st["op"], st["f"], clause), case)
    return rejects


def _overlaps(steps):
    """number of steps executed on one file while the OTHER file has an open handle (statistic for the vacuity guard)"""
    open_, n = set(), 0
    for st in steps:
        if open_ - {st["f"]}:
            n += 1
        if st["op"] in ("ow", "or"):
            open_.add(st["f"])
        elif st["op"] == "cl":
            open_.discard(st["f"])
    return n


def run_world(ctx, sessions, tally, first_id):
    tier = ctx.tier
    if len(sessions) < (1600 if tier == "quick" else 19000):
        raise MachineryError("world: only %d sessions exported" % len(sessions))
    sessions = sorted(sessions, key=lambda s: (s["kinds"], s["ent"], s["twin"], [(x["f"], x["op"]) for x in s["steps"]]))
    rng = random.Random(ctx.seed * 32452843 + 3)
    jobs, meta = [], {}
    for n, sess in enumerate(sessions):
        tabs = world_tables(sess, rng)
        jobs.append((first_id + n, sess, tabs))
        meta[first_id + n] = {"sess": sess, "tabs": tabs}
    recs = pmap(world_session, jobs)
    for r in recs:
        s = meta[r["id"]]["sess"]
        ctx.count({"world": [s["kinds"], s["ent"], s["twin"], s["dcode"], [(x["f"], x["op"]) for x in s["steps"]]]})
    judge_world(ctx, recs, "judge world sessions: every read against its own file (TextCodecWorldTrace)", tally, meta)
    note = {"sessions": len(sessions), "steps": sum(len(s["steps"]) for s in sessions),
            "reads_judged": sum(1 for s in sessions for x in s["steps"] if x["op"] in ("rd", "rall")),
            "steps_with_other_file_open": sum(_overlaps(s["steps"]) for s in sessions),
            "by_scripts": {}, "by_entries": {}, "by_twin": {}}
    for s in sessions:
        for key, val in (("by_scripts", "+".join(s["kinds"])), ("by_entries", "+".join(s["ent"])), ("by_twin", s["twin"])):
            note[key][val] = note[key].get(val, 0) + 1
    if (len(note["by_scripts"]) < 3 or len(note["by_entries"]) < 4 or len(note["by_twin"]) < 3 or
            min(min(note[k].values()) for k in ("by_scripts", "by_entries", "by_twin")) < 200 or
            note["steps_with_other_file_open"] < 3 * len(sessions)):
        raise MachineryError("world sessions thinly spread: %s" % note)
    probe = next((r for r in recs if all(o["err"] == "none" for o in r["obs"]) and meta[r["id"]]["sess"]["twin"] != "types" and
                  all(o["rows"] == [row for ch in r["files"][st["f"] - 1]["chunks"] for row in ch]
                      for st, o in zip(r["steps"], r["obs"]) if st["op"] in ("rd", "rall"))), None)
    return note, probe


def selftest_world(ctx, probe):
    """a session record binds: a read that returns the OTHER file's rows, a lost row and a failed non-read step are rejected"""
    if probe is None:
        if ctx.violations:
            return
        raise MachineryError("world self-test: no clean session record")
    import copy
    good = dict(slim_world(probe), id=1)
    reads = [i for i, st in enumerate(good["steps"]) if st["op"] in ("rd", "rall")]
    nonread = next(i for i, st in enumerate(good["steps"]) if st["op"] not in ("rd", "rall"))
    a, b, c = copy.deepcopy(good), copy.deepcopy(good), copy.deepcopy(good)
    a["id"], b["id"], c["id"] = 2, 3, 4
    i = reads[-1]
    other = good["files"][2 - good["steps"][i]["f"]]            # the other file of the pair (f = 1 -> index 1, f = 2 -> index 0)
    a["obs"][i]["rows"] = [row for ch in other["chunks"] for row in ch]
    b["obs"][reads[0]]["rows"] = b["obs"][reads[0]]["rows"][:-1]
    c["obs"][nonread]["err"] = "OSError"
    saved = ctx.traces
    rej = tracecheck.validate(ctx, "TextCodecWorldTrace.tla", [good, a, b, c], what="self-test: corrupted world sessions rejected", workers=1)
    ctx.traces = saved
    if (1 in rej or not any(x.startswith("%d:rows_" % (i + 1)) for x in rej.get(2, [])) or
            "%d:rows_count" % (reads[0] + 1) not in rej.get(3, []) or "%d:step_error" % (nonread + 1) not in rej.get(4, [])):
        raise MachineryError("world self-test failed: %s" % {k: rej.get(k) for k in (1, 2, 3, 4)})

# ---------------------------------------------------------------------------------
ACTIONS = ["ChooseLayout", "ChooseRows", "Write", "ReadStrField", "ScanNumField", "Finish"]


def load_catalog(recs):
    """the delimiter catalogue as TLC printed it (DELIM records of the export run)"""
    CATALOG.clear()
    for d in recs:
        CATALOG[chr(d["code"])] = {"cls": d["cls"], "grp": d["grp"], "quant": bool(d["quant"])}
    quant = sorted(c for c in CATALOG if CATALOG[c]["quant"])
    if len(quant) < 60 or any(c not in quant for c in LISTED) or "%" not in quant or "e" in quant:
        raise MachineryError("delimiter catalogue not exported as expected: %d quantified delimiters" % len(quant))
    return quant


def has_dl_string(ct):
    return any(f["k"] == "S" and any("dl" in e for e in cell) for row in ct["rows"] for f, cell in zip(ct["fields"], row))


def run(ctx):
    tier = ctx.tier
    fams = set(FAMILIES[tier])
    tally = Tally()
    base = dict(Fams=fams, DClasses={"plain", "tab", "space"}, Reader="pinned", Writer="arg", DelimRun="classes", ScaleTier=tier,
                DoExport=False)
    fixed = dict(base, Reader="fixed", DelimRun="plan")
    # 1. design level, every table of every family x every delimiter class:
    #    the pinned scanner meets the round-trip obligation off the named hazards ...
    ctx.tlc("TextCodecMC.tla", what="pinned scanner refines the round trip except on the named hazards",
            cfg_text=cfg(constants=base, invariants=MECH_INVS), workers=16, require=ACTIONS, timeout=3000)
    maxw = int(os.environ.get("VH_MAX_WORKERS", "16"))
    with ThreadPoolExecutor(4) as ex:
        #    ... the repaired scanner meets it everywhere, for every delimiter of every table's plan, and the text
        #    written does not depend on the delimiter character (the separator is an argument of printf) ...
        f2 = ex.submit(ctx.tlc, "TextCodecMC.tla", what="repaired scanner refines the round trip for every planned delimiter",
                       cfg_text=cfg(constants=fixed, invariants=["MechRefines", "StepsAgree", "ScanSafe", "SplitLaws"] + DELIM_INVS),
                       workers=max(1, maxw - 2), coverage=False, timeout=3000)
        #    export (spec -> code): tables, their delimiters, the delimiter catalogue
        f3 = ex.submit(ctx.tlc, "TextCodecMC.tla", what="export tables and delimiters",
                       cfg_text=cfg(constants=dict(base, DoExport=True), next_="NextExport", constraints=["Export"]),
                       workers=1, coverage=False, timeout=3000)
        #    ... (non-vacuity) the pinned scanner violates the plain obligation ...
        fs = ex.submit(ctx.tlc, "TextCodecMC.tla", what="self-test: pinned scanner violates MechRefines",
                       cfg_text=cfg(constants=dict(base, Fams={FAMILIES[tier][0]}), invariants=["MechRefines"]),
                       workers=1, allow_violation=True, coverage=False)
        #    ... and the delimiter dimension bites: a writer with the separator inside the print format loses the
        #    round trip for the percent sign, and only for it
        fmt = dict(fixed, Writer="fmt", Fams=set(DELIM_FAMILIES["quick"]))
        fc = ex.submit(ctx.tlc, "TextCodecMC.tla", what="self-test: format-writer breaks exactly the percent sign",
                       cfg_text=cfg(constants=fmt, invariants=["FmtWriterCharacterised"]), workers=2, coverage=False)
        fv = ex.submit(ctx.tlc, "TextCodecMC.tla", what="self-test: format-writer violates MechRefines",
                       cfg_text=cfg(constants=fmt, invariants=["MechRefines"]), workers=1, allow_violation=True, coverage=False)
        # world machine (class W): the own-buffer mechanism is world-independent over every merge of the two files'
        # scripts, the shared-buffer mechanism is not (non-vacuity), and the sessions are exported
        wbase = dict(Buffering="own", Memo="none", WTier=tier, DoExport=False)
        fw1 = ex.submit(ctx.tlc, "TextCodecWorld.tla", what="world: own-buffer mechanism is world-independent, reference sessions accepted",
                        cfg_text=cfg(constants=wbase, invariants=WORLD_INVS), workers=2, coverage=False, timeout=3000)
        fw2 = ex.submit(ctx.tlc, "TextCodecWorld.tla", what="self-test: a process-wide shared buffer violates WorldIndependent",
                        cfg_text=cfg(constants=dict(wbase, Buffering="shared"), invariants=["WorldIndependent"]), workers=1,
                        allow_violation=True, coverage=False)
        fw4 = ex.submit(ctx.tlc, "TextCodecWorld.tla", what="self-test: a read memo keyed by the column layout violates WorldIndependent",
                        cfg_text=cfg(constants=dict(wbase, Memo="layout"), invariants=["WorldIndependent"]), workers=1,
                        allow_violation=True, coverage=False)
        fw5 = ex.submit(ctx.tlc, "TextCodecWorld.tla", what="self-test: a read memo handing out its own storage violates WorldIndependent",
                        cfg_text=cfg(constants=dict(wbase, Memo="path"), invariants=["WorldIndependent"]), workers=1,
                        allow_violation=True, coverage=False)
        fw3 = ex.submit(ctx.tlc, "TextCodecWorld.tla", what="export world sessions",
                        cfg_text=cfg(constants=dict(wbase, DoExport=True), constraints=["Export"]), workers=1, coverage=False, timeout=3000)
        r2, rs, r3, rc, rv = f2.result(), fs.result(), f3.result(), fc.result(), fv.result()
        rw1, rw2, rw3, rw4, rw5 = fw1.result(), fw2.result(), fw3.result(), fw4.result(), fw5.result()
    if any("WorldIndependent" not in r.violated for r in (rw2, rw4, rw5)) or rw1.distinct < 60000:
        raise MachineryError("world self-test failed: shared buffer %s, layout memo %s, own-storage memo %s, faithful run %d states" %
                             (rw2.violated, rw4.violated, rw5.violated, rw1.distinct))
    sessions = rw3.records.get("SESSION", [])
    if rw3.garbled:
        raise MachineryError("world export: %d unparsed lines" % rw3.garbled)
    if "MechRefines" not in rs.violated:
        raise MachineryError("self-test failed: MechRefines not violated by the pinned scanner model")
    if "MechRefines" not in rv.violated or rc.distinct < 1000:
        raise MachineryError("self-test failed: the format-writer model does not violate MechRefines (%s, %d states)" % (rv.violated, rc.distinct))
    if r2.distinct < 1000:
        raise MachineryError("repaired-scanner run explored only %d states" % r2.distinct)
    cases = r3.records.get("CASE", [])
    famdefs = {f["name"]: f["def"] for f in r3.records.get("FAMILY", [])}
    if not cases or r3.garbled or set(famdefs) != fams:
        raise MachineryError("export: %d tables, %d unparsed lines, families %s" % (len(cases), r3.garbled, sorted(famdefs)))
    quant = load_catalog(r3.records.get("DELIM", []))
    # 2. replay every exported table with every delimiter TLC gave it x (entry point, byte order) plan, in batches
    rng = random.Random(ctx.seed * 7919 + 17)
    jobs, preds = [], []
    fam_count = {f: 0 for f in FAMILIES[tier]}
    cover = {d: {"tables": 0, "led_number": 0, "delim_in_string": 0} for d in quant}
    amb_tables = []
    for ntab, c in enumerate(cases, 1):
        fam_count[c["fam"]] += 1
        ct = instantiate(c["t"], rng)
        dls = has_dl_string(ct)
        if c["fam"] in DELIM_FAMILIES[tier] and c["led"] and len(amb_tables) < 12 and ntab % 3 == 0:
            amb_tables.append(ct)
        for di, code in enumerate(sorted(c["delims"])):
            delim = chr(code)
            if delim not in cover:
                raise MachineryError("TLC planned a delimiter outside the quantifier: %d" % code)
            jobs.append((len(jobs) + 1, ct, delim, plan(ntab + di, ct, tier)))
            preds.append(c[CATALOG[delim]["cls"]]["rt"])
            cv = cover[delim]
            cv["tables"] += 1
            cv["led_number"] += bool(c["led"])
            cv["delim_in_string"] += dls
    if min(fam_count.values()) == 0:
        raise MachineryError("a family exported no table: %s" % fam_count)
    # vacuity guard of the covering design: every quantified delimiter meets numbers written after a separator
    # and strings that contain it, on a fair share of the tables
    thin = {dname(d): cv for d, cv in cover.items() if cv["tables"] < 100 or cv["led_number"] < 40 or cv["delim_in_string"] < 20}
    if thin:
        raise MachineryError("the delimiter plan leaves delimiters thinly covered: %s" % thin)
    del cases
    ctx.log("replaying %d tables, %d (table, delimiter) records over %d delimiters" % (ntab, len(jobs), len(quant)))
    try:
        binding, stats = {}, {"records": 0, "cycles": 0}
        probe = replay_and_judge(ctx, jobs, preds, tally, "judge replayed tables (TextCodecTrace)", binding, stats, nsample=5)
        nrep = stats["records"]
        # 3. larger seeded tables (code -> spec): the listed delimiters and others of the catalogue
        nrand = RANDOM_TABLES[tier]
        rrng = random.Random(ctx.seed * 104729 + 5)
        others = [d for d in quant if d not in LISTED]
        rjobs = []
        for n in range(nrand):
            ct = random_table(rrng)
            ds = list(LISTED) if tier == "thorough" else [LISTED[n % 6], LISTED[(n + 2 + n // 6 % 3) % 6]]
            ds += rrng.sample(others, 2 if tier == "thorough" else 1)
            for delim in ds:
                rjobs.append((len(jobs) + len(rjobs) + 1, ct, delim, plan(n, ct, tier)))
        replay_and_judge(ctx, rjobs, None, tally, "judge seeded larger tables (TextCodecTrace)", None, stats, nsample=1)
        # 3b. scale cases (class S): big tables judged through the split laws
        scale_note, scale_probe = run_scale(ctx, r3.records.get("SCALE", []), tally, len(jobs) + len(rjobs) + 100000)
        # 3c. world sessions (class W): two files alive in one process, every read judged against its own file
        world_note, world_probe = run_world(ctx, sessions, tally, len(jobs) + len(rjobs) + 200000)
    finally:
        tally.flush(ctx)             # violations established so far stand even if a later stage stops
    # 4. the inherently ambiguous delimiters: observed for the record, nothing is demanded (TLC accepts whatever came back)
    ambiguous = observe_ambiguous(ctx, amb_tables, len(jobs) + len(rjobs))
    # 5. binding self-test: corrupted observations must be rejected, each with its own clause
    selftest(ctx, probe)
    selftest_scale(ctx, scale_probe)
    selftest_world(ctx, world_probe)
    ctx.rule = ("every table of the bounded families %s of TextCodecMC.tla (layouts x rows x cell alphabets, exported by TLC), each "
                "written and read back with the delimiters TLC assigned to it out of the %d single-character delimiters of the "
                "quantifier (TCQuantDelims of TextCodec.tla: tab, VT, FF, space and every printable ASCII character that neither occurs "
                "in nor continues the text of a number) - %s - through sfile and recfile in little-, big- and mixed-endian memory "
                "order; plus %d seeded tables (<= 6 fields of every type, sub-arrays, <= 8 rows, printable ASCII strings, lattice and "
                "generic floats) with %s; plus the scale cases of TextCodecMC.tla (ScaleCases: 10^5..10^6 rows, 50..1000 columns, sub-arrays of "
                "512..10^4 elements, sfile headers with the END line at every offset -8..8 around multiples of 4096 bytes up to 64 KiB), cut "
                "into small parts and judged through the split laws; plus the world sessions of TextCodecWorld.tla (two record files alive in "
                "one process: every merge of the two files' call scripts - write in pieces / close / one-shot read, one-shot write / open / read / "
                "the caller scribbles over the result / read again / close - x sfile|recfile per file x twin tables with the same header text, other row counts, or the same names and row size "
                "with other types; each session in one fresh process, every read judged against its own file); a case is one (table as written, delimiter) pair, distinct by its "
                "abstract record, always non-trivial" %
                (sorted(fam_count), len(quant),
                 "every delimiter for the families %s, the six listed ones and one more (spread by a hash of the table) for the others" % DELIM_FAMILIES[tier]
                 if tier == "thorough" else
                 "every delimiter for q_dtype, eight per table for q_delim, tab, space and two more for the others, spread by a hash of the table "
                 "so that every delimiter meets >= 100 tables",
                 nrand, "the six listed delimiters and two others" if tier == "thorough" else "two of the six listed delimiters and one other"))
    ctx.exhaustive = True
    ctx.note(families=famdefs,
             exported_tables=fam_count, replayed_records=nrep, seeded_records=stats["records"] - nrep, cycles=stats["cycles"],
             delimiters={"quantified": [dname(d) for d in quant],
                         "outside_the_quantifier": [dname(d) for d in sorted(CATALOG) if not CATALOG[d]["quant"]],
                         "coverage_min": {k: min(cv[k] for cv in cover.values()) for k in ("tables", "led_number", "delim_in_string")},
                         "ambiguous_observed_round_trips": ambiguous},
             scale=scale_note,
             world=world_note,
             mechanism_binding=binding, violations_by_signature=dict(sorted(tally.by_sig.items())),
             undecided=["16th (f8) / 7th (f4) significant digit of floats that need it: decided only to relative 1e-15 / 1e-6 (fields of tier 'gen'); "
                        "equality is demanded on the short-decimal lattice (<= 15 / <= 6 digits, and the 16 / 7 digit values of the text shapes "
                        "fl fz fi, each verified to survive a correctly rounded print/scan cycle), for non-finite values and signed zeros",
                        "finite values within a relative 5e-16 of the overflow threshold (DBL_MAX prints as 1.797693134862316e+308, which reads "
                        "back as inf): not demanded, the largest value tested is the lattice value 1.79769313486231e+308",
                        "delimiters that occur in or continue the text of a number (digits + - . e E n a i f x X I): inherently ambiguous, "
                        "outside the quantifier; line feed, carriage return and NUL are not delimiters"])
    ctx.assumptions = [
        "short-decimal lattice: a decimal with <= 15 (f8) / <= 6 (f4) significant digits survives %.16g / %.7g and a correctly rounding strtod unchanged (membership is checked per value)",
        "strings are printable ASCII, space, tab and embedded NUL bytes, and the delimiter character (no newline or carriage return)",
        "mixed-endian tables are inside the quantifier (fields x {'<','>'}); they are reported under their own signature",
        "'(' is a delimiter inside the quantifier: the scanf of this platform reads \"nan\" without an ISO C n-char-sequence",
    ]
    ctx.trusted_base.append("glibc printf/strtod being correctly rounded (lattice membership)")


def run_scale(ctx, cases, tally, first_id):
    if not cases:
        raise MachineryError("no scale case exported")
    tier = ctx.tier
    rng = random.Random(ctx.seed * 15485863 + 11)
    cases = sorted(cases, key=lambda c: (c["axis"], c["n"], c["blk"], c["off"], c["user"], c["dcode"], repr(c["base"]["fields"][0])))
    jobs, meta = [], {}
    rid = first_id
    for idx, sc in enumerate(cases):
        if chr(sc["dcode"]) not in CATALOG or not CATALOG[chr(sc["dcode"])]["quant"]:
            raise MachineryError("scale case with a delimiter outside the quantifier: %s" % sc["dcode"])
        ct = instantiate(sc["base"], rng)
        cyc = scale_plan(idx, sc, tier)
        jobs.append((rid, sc, ct, cyc))
        for n in range(len(cyc)):
            meta[rid + n] = (sc, ct)
        rid += len(cyc)
    recs = [r for part in pmap(scale_job, jobs) for r in part]
    for r in recs:
        sc = meta[r["id"]][0]
        ctx.count({"scale": {k: sc[k] for k in ("axis", "n", "blk", "off", "user", "dcode")}, "b": sc["base"]["fields"][0]["k"],
                   "e": r["entry"], "o": r["order"]})
    judge_scale(ctx, recs, "judge scale cases through the split laws (TextCodecTrace)", tally, meta)
    clean = [r for r in recs if r["err"] == "none"]
    note = {"cases": len(cases), "cycles": len(recs), "parts_judged": sum(len(r["parts"]) for r in recs),
            "by_axis": {a: sum(1 for c in cases if c["axis"] == a) for a in ("rows", "cols", "elems", "hdr")},
            "max_rows": max(r["size"]["rows"] for r in recs), "max_cols": max(r["size"]["cols"] for r in recs),
            "max_elems": max(r["size"]["elems"] for r in recs), "max_header_blocks": max(r["hdr_blocks"] for r in recs),
            "headers_over_one_block": sum(1 for r in recs if r["hdr_blocks"] > 1)}
    # vacuity: the sizes were really reached
    if (note["max_rows"] < 100000 or note["max_cols"] < 700 or note["max_elems"] < 3000 or note["max_header_blocks"] < 3
            or note["headers_over_one_block"] < 20):
        raise MachineryError("scale cases did not reach their sizes: %s" % note)
    probe = next((r for r in clean if r["axis"] == "rows" and r["entry"] == "sfile" and len(r["parts"]) >= 1 and
                  all(p["t"]["rows"] == p["obs"]["rows"] for p in r["parts"])), None)
    return note, probe


def selftest_scale(ctx, probe):
    """a scale record binds: a wrong row count, a wrong value in one part and a lost header entry are each rejected"""
    if probe is None:
        if ctx.violations:
            return
        raise MachineryError("scale self-test: no clean scale record")
    import copy
    good = dict(slim_scale(probe), id=1)
    a, b, c = copy.deepcopy(good), copy.deepcopy(good), copy.deepcopy(good)
    a["id"], b["id"], c["id"] = 2, 3, 4
    a["no"] = a["nw"] - 1
    f0 = b["parts"][-1]["t"]["fields"][0]
    b["parts"][-1]["obs"]["rows"][0][0] = [["zz"]] if f0["k"] == "S" else ["off"]
    c["ho"] = c["hw"] + 1
    saved = ctx.traces
    rej = tracecheck.validate(ctx, "TextCodecTrace.tla", [good, a, b, c], what="self-test: corrupted scale records rejected", workers=1)
    ctx.traces = saved
    want_b = "%d:%s" % (len(b["parts"]), {"S": "rows_str", "f": "rows_float"}.get(f0["k"], "rows_int"))
    if 1 in rej or "0:rows_count" not in rej.get(2, []) or want_b not in rej.get(3, []) or "0:hdr_dtype" not in rej.get(4, []):
        raise MachineryError("scale self-test failed: %s" % {k: rej.get(k) for k in (1, 2, 3, 4)})


def observe_ambiguous(ctx, tables, first_id):
    """write/read a few tables with each delimiter outside the quantifier; recorded as a note, judged by TLC as
    'nothing demanded' (a reject here is a machinery failure: the trace module must not judge them)"""
    amb = sorted(d for d in CATALOG if not CATALOG[d]["quant"])
    if not tables or not amb:
        raise MachineryError("no table / no delimiter for the ambiguous-delimiter observation")
    jobs = []
    for d in amb:
        for n, ct in enumerate(tables[:4]):
            jobs.append((first_id + len(jobs) + 1, ct, d, [("sfile", "lt"), ("recfile", "gt")][n % 2:n % 2 + 1]))
    recs = pmap(run_record, jobs)
    saved = ctx.traces
    rej = tracecheck.validate(ctx, "TextCodecTrace.tla",
                              [{"id": r["id"], "dcode": r["dcode"], "t": r["t"], "obs": [{k: v for k, v in o.items() if k != "stage"} for o in r["obs"]]}
                               for r in recs], what="delimiters outside the quantifier: nothing demanded")
    ctx.traces = saved
    if rej:
        raise MachineryError("the trace module judged delimiters outside the quantifier: %s" % sorted(rej)[:5])
    out = {}
    for r in recs:
        o = r["obs"][0]
        st = out.setdefault(dname(r["delim"]), [0, 0])
        st[1] += 1
        st[0] += (o["err"] == "none" and o["rows"] == r["t"]["rows"])
    return {k: "%d/%d" % tuple(v) for k, v in out.items()}


def is_probe(r):
    o = r["obs"][0]
    return (o["err"] == "none" and o["entry"] == "sfile" and o["hdr"]["has"] and o["rows"] == r["t"]["rows"] and
            any(f["k"] == "S" for f in r["t"]["fields"]) and any(f["k"] != "S" for f in r["t"]["fields"]))


def replay_and_judge(ctx, jobs, preds, tally, what, binding, stats, nsample=0, batch=24000):
    """run the cycles of the jobs against the real code and have TLC judge them, batch by batch
    (bounded memory); accumulates the mechanism-binding table; returns a clean record for the self-test"""
    probe = None
    nb = (len(jobs) + batch - 1) // batch
    for b in range(nb):
        part = jobs[b * batch:(b + 1) * batch]
        recs = pmap(run_record, part)
        for r in recs:
            ctx.count({"t": r["t"], "d": r["delim"]})
            stats["cycles"] += len(r["obs"])
        ctx.evaluations += sum(len(r["obs"]) - 1 for r in recs)
        stats["records"] += len(recs)
        if nsample and b == 0:
            step = max(1, len(recs) // nsample)
            for r in recs[step // 2::step][:nsample]:
                ctx.sample({"delim": r["delim"], "table": r["t"], "observed": {k: r["obs"][0][k] for k in ("entry", "order", "err", "rows")}})
        if probe is None:
            probe = next((r for r in recs if is_probe(r)), None)
        meta = {job[0]: {"ct": job[1]} for job in part}
        judge(ctx, recs, what + (" [batch %d/%d]" % (b + 1, nb) if nb > 1 else ""), tally, meta)
        if binding is not None:          # the mechanism model's predicted failing set against the real failures
            for r in recs:
                pred_fail = not preds[r["id"] - 1]
                for k, o in enumerate(r["obs"]):
                    if o["order"] == "mixed":
                        continue
                    bd = binding.setdefault(dname(r["delim"]) if r["delim"] in LISTED else "other:" + CATALOG[r["delim"]]["grp"],
                                            {"cycles": 0, "model_fail": 0, "real_fail": 0, "disagree": 0})
                    real_fail = (r["id"], k) in tally.rows_failed
                    bd["cycles"] += 1
                    bd["model_fail"] += pred_fail
                    bd["real_fail"] += real_fail
                    bd["disagree"] += (pred_fail != real_fail)
        tally.rows_failed = set()
        del recs, meta
    return probe


def selftest(ctx, probe):
    if probe is None:
        raise MachineryError("binding self-test: no clean probe record")
    import copy
    good = {"id": 1, "dcode": probe["dcode"], "t": probe["t"], "obs": [{k: v for k, v in probe["obs"][0].items() if k != "stage"}]}
    si = next(i for i, f in enumerate(probe["t"]["fields"]) if f["k"] == "S")
    ni = next(i for i, f in enumerate(probe["t"]["fields"]) if f["k"] != "S")

    def mut(i, fn):
        m = copy.deepcopy(good)
        m["id"] = i
        fn(m["obs"][0])
        return m

    def set_(o, path, v):
        for p in path[:-1]:
            o = o[p]
        o[path[-1]] = v
    muts = [
        (2, lambda o: set_(o, ["rows", 0, si, 0], o["rows"][0][si][0] + ["sp"]), "rows_str"),
        (3, lambda o: set_(o, ["rows", 0, ni, 0], "off"), "rows_float" if probe["t"]["fields"][ni]["k"] == "f" else "rows_int"),
        (4, lambda o: set_(o, ["fields", ni, "bo"], "swapped"), "native_order"),
        (5, lambda o: set_(o, ["hdr", "dtype", ni, "bofree"], False), "hdr_dtype_byteorder"),
        (6, lambda o: set_(o, ["hdr", "delim"], "other"), "hdr_delim"),
        (7, lambda o: set_(o, ["fields", si, "name"], "zz"), "names"),
        (8, lambda o: set_(o, ["rows"], o["rows"][:-1]), "rows_count"),
        (9, lambda o: set_(o, ["err"], "RuntimeError"), "rows_error"),
        (10, lambda o: set_(o, ["fields", si, "sh"], [2]), "shapes"),
    ]
    # the delimiter classification binds: the same corruption is rejected under the percent sign (and classified)
    # and demands nothing under a delimiter outside the quantifier
    pct, amb = mut(11, muts[6][1]), mut(12, muts[6][1])
    pct["dcode"], amb["dcode"] = ord("%"), ord("e")
    saved = ctx.traces
    rej = tracecheck.validate(ctx, "TextCodecTrace.tla", [good] + [mut(i, fn) for i, fn, _ in muts] + [pct, amb],
                              what="self-test: corrupted observations rejected, each by its clause", workers=1)
    ctx.traces = saved
    if "dl:plain/percent" not in rej.get(11, []) or "1:rows_count" not in rej.get(11, []) or 12 in rej:
        raise MachineryError("binding self-test failed: delimiter classification (%s / %s)" % (rej.get(11), rej.get(12)))
    if 1 in rej:
        raise MachineryError("binding self-test: the uncorrupted record was rejected: %s" % rej[1])
    for i, _, clause in muts:
        if ("1:" + clause) not in rej.get(i, []):
            raise MachineryError("binding self-test failed: corruption %d not rejected by clause %s (%s)" % (i, clause, rej.get(i)))


def replay(ctx, case):
    if case.get("kind") == "world":
        sess = case["sess"]
        rec = world_session((1, sess, case["tabs"]))       # the whole session again, in one fresh child process
        for st, o in zip(rec["steps"], rec["obs"]):
            print("replay step %d:%-4s ->" % (st["f"], st["op"]), o["err"] if "rows" not in o else {k: o[k] for k in ("err", "rows")})
        if not CATALOG:
            CATALOG[chr(sess["dcode"])] = {"cls": "", "grp": "", "quant": True}
        tally = Tally()
        judge_world(ctx, [rec], "replay", tally, {1: {"sess": sess, "tabs": case["tabs"]}})
        tally.flush(ctx)
        return
    if case.get("kind") == "scale":
        recs = scale_job((1, case["sc"], case["ct"], [(case["entry"], case["order"])]))
        print("replay scale case:", {k: recs[0][k] for k in ("axis", "nw", "no", "hw", "ho", "err", "where", "hdr_blocks", "size")})
        for k, p in enumerate(recs[0]["parts"]):
            if p["t"]["rows"] != p["obs"]["rows"]:
                print("  part %d wrote   :" % (k + 1), p["t"]["rows"])
                print("  part %d observed:" % (k + 1), p["obs"]["rows"])
        if not CATALOG:
            CATALOG[chr(case["sc"]["dcode"])] = {"cls": "", "grp": "", "quant": True}
        tally = Tally()
        judge_scale(ctx, recs, "replay", tally, {1: (case["sc"], case["ct"])})
        tally.flush(ctx)
        return
    ct, delim = case["ct"], case["delim"]
    rec = run_record((1, ct, delim, [(case["entry"], case["order"])]))
    print("replay wrote   :", rec["t"]["rows"])
    print("replay observed:", {k: rec["obs"][0][k] for k in ("err", "stage", "rows", "fields", "hdr")})
    tally = Tally()
    judge(ctx, [rec], "replay", tally, {1: {"ct": ct}})
    tally.flush(ctx, force=case.get("delim_specific"))
