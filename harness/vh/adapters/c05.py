"""C05 - histogram counts and reverse indices partition the binned data.

spec -> code : HistMC.tla enumerates every case of the bounded space; each is
               concretised on the dyadic lattice and run through both engines.
code -> spec : what the engines returned (plus larger seeded cases) is written as
               ndjson and judged by HistTrace.tla (property-level Accept of Hist.tla).
Python never judges a result; it only maps abstract <-> concrete and records.
"""
import random

import numpy as np

from .. import tracecheck
from ..core import MachineryError
from ..par import pmap
from ..tlc import cfg

NEEDS_EXT = True

# lattice concretisations: value = (x + off) * unit
CONCRETE = [
    (1, 0, "i8"), (1, -3, "i4"), (0.5, 0, "f8"), (0.125, 7, "f8"), (4.0, 1000, "f4"),
    (2.0 ** -10, -2 ** 10, "f8"), (1, 0, "f8"), (1024.0, -5, "f8"),
]

BOUNDS = {
    "quick":    dict(MaxLen=3, Vals=set(range(1, 6)), BinSizes={1, 2, 3}, NBinSet={1, 2, 3, 4}, LimVals=set(range(0, 7))),
    "thorough": dict(MaxLen=4, Vals=set(range(1, 7)), BinSizes={1, 2, 3, 5}, NBinSet={1, 2, 3, 4}, LimVals=set(range(0, 8))),
}


def concretise(c, k):
    unit, off, dt = CONCRETE[k % len(CONCRETE)]
    x = np.array([(v + off) * unit for v in c["x"]], dtype=dt)
    kw = {}
    if c["mode"] == "binsize":
        kw["binsize"] = c["b"] * unit
    else:
        kw["nbin"] = int(c["b"])
    if c["hasmin"]:
        kw["min"] = (c["min"] + off) * unit
    if c["hasmax"]:
        kw["max"] = (c["max"] + off) * unit
    return x, kw


def observe(x, kw, engine, rev):
    import esutil.stat.util as su
    import warnings
    saved = su.have_chist
    su.have_chist = (engine == "c") and saved
    before = x.tobytes()
    try:
        with warnings.catch_warnings():
            warnings.simplefilter("ignore")
            with np.errstate(all="ignore"):
                res = su.histogram(x, rev=rev, **kw)
        if rev:
            h, r = res
            o = {"err": "none", "hist": [int(v) for v in h], "hasrev": True, "rev": [int(v) for v in r]}
        else:
            o = {"err": "none", "hist": [int(v) for v in res], "hasrev": False, "rev": []}
    except Exception as e:  # noqa
        o = {"err": type(e).__name__, "hist": [], "hasrev": False, "rev": []}
    finally:
        su.have_chist = saved
    o["engine"] = engine
    o["frame_ok"] = (x.tobytes() == before)
    return o


def run_case(args):
    i, c = args
    x, kw = concretise(c, i)
    obs = [observe(x, kw, "c", True), observe(x, kw, "py", True), observe(x, kw, "c" if i % 2 else "py", False)]
    return {"id": i, "c": c, "obs": obs, "concrete": i % len(CONCRETE)}


def struct_class(c):
    lim = ("min" if c["hasmin"] else "") + ("max" if c["hasmax"] else "") or "nolimits"
    return "%s|%s" % (c["mode"], lim)


def random_cases(rng, n, maxlen, start_id):
    out = []
    for k in range(n):
        ln = rng.choice([1, 2, 5, 17, maxlen // 2, maxlen])
        nv = rng.choice([1, 2, 4, 12, 40])
        x = [rng.randrange(1, nv + 1) for _ in range(ln)]
        mode = rng.choice(["binsize", "nbin"])
        b = rng.choice([1, 2, 3, 5, 7]) if mode == "binsize" else rng.choice([1, 2, 3, 4, 6, 8, 10])
        if k % 3 == 0 and mode == "binsize":
            # edge-heavy family: data exactly on bin edges of bin sizes whose reciprocal is inexact
            b = rng.choice([3, 7, 49, 98, 103, 107, 161, 187, 197])
            x = [1 + b * rng.randrange(0, 6) + rng.choice([0, 0, 0, 1, b - 1]) for _ in range(ln)]
            nv = max(x)
        hasmin, hasmax = rng.random() < 0.4, rng.random() < 0.4
        c = {"x": x, "mode": mode, "b": b, "hasmin": hasmin, "min": rng.randrange(0, nv + 2) if hasmin else 0,
             "hasmax": hasmax, "max": rng.randrange(0, nv + 2) if hasmax else 0}
        out.append((start_id + k, c))
    return out


def engines_agree_offlattice(args):
    """relation between two implementation outputs - no oracle needed"""
    seed, = args
    rng = np.random.RandomState(seed)
    n = int(rng.choice([1, 3, 10, 100]))
    x = [rng.normal(size=n), rng.uniform(-5, 5, size=n), np.round(rng.uniform(0, 3, size=n), 1)][rng.randint(3)]
    kw = {}
    if rng.rand() < 0.5:
        kw["binsize"] = float(rng.choice([0.1, 0.3, 1.0, 0.01, 2.5]))
    else:
        kw["nbin"] = int(rng.randint(1, 12))
    if rng.rand() < 0.3:
        kw["min"] = float(np.round(rng.uniform(-2, 1), 1))
    if rng.rand() < 0.3:
        kw["max"] = float(np.round(rng.uniform(1, 3), 1))
    a, b = observe(x, kw, "c", True), observe(x, kw, "py", True)
    same = (a["err"], a["hist"], a["rev"]) == (b["err"], b["hist"], b["rev"])
    return None if same else {"x": x.tolist(), "kw": kw, "c": a, "py": b}


def judge(ctx, recs, what):
    rejects = tracecheck.validate(ctx, "HistTrace.tla", [{"id": r["id"], "c": r["c"], "obs": r["obs"]} for r in recs],
                                  what=what)
    byid = {r["id"]: r for r in recs}
    for rid, failing in rejects.items():
        r = byid[rid]
        for cl in failing:
            ctx.violation("histogram|%s|%s" % (cl, struct_class(r["c"])),
                          "stat.histogram result not allowed by Hist.tla: clause %s" % cl,
                          {"kind": "lattice", "c": r["c"], "concrete": r.get("concrete", 0), "obs": r["obs"]})
    for r in recs:
        if not all(o["frame_ok"] for o in r["obs"]):
            ctx.violation("histogram|argument_modified", "histogram modified its data argument", {"kind": "lattice", "c": r["c"], "concrete": r.get("concrete", 0)})


def run(ctx):
    B = BOUNDS[ctx.tier]
    consts = dict(B, FixedFill=True, DoExport=False)
    # 1. design level: the implementation-shaped pass refines the property, every case of the space
    r1 = ctx.tlc("HistMC.tla", what="mechanism refines property (exhaustive)",
                 cfg_text=cfg(constants=consts, invariants=["MechRefines", "PassSafe", "RefAccepted"]),
                 workers=16, require=["ChooseData", "ChooseSpec", "Begin", "Step", "Fill"], timeout=3000)
    # 1b. non-vacuity of MechRefines: the pinned (unrepaired) trailing fill must violate it
    r1b = ctx.tlc("HistMC.tla", what="self-test: unrepaired trailing fill violates MechRefines",
                  cfg_text=cfg(constants=dict(consts, FixedFill=False, MaxLen=2), invariants=["MechRefines"]),
                  workers=4, allow_violation=True, coverage=False)
    if "MechRefines" not in r1b.violated:
        raise MachineryError("self-test failed: MechRefines not violated by the deviating mechanism")
    # 2. export every case (spec -> code)
    r2 = ctx.tlc("HistMC.tla", what="export cases",
                 cfg_text=cfg(constants=dict(consts, DoExport=True), next_="NextExport",
                              constraints=["Export"]) , workers=1, coverage=False, timeout=3000)
    cases = r2.records.get("CASE", [])
    if not cases:
        raise MachineryError("no cases exported")
    recs = pmap(run_case, list(enumerate(cases, 1)))
    for r in recs:
        ctx.count(r["c"])
    for r in recs[:: max(1, len(recs) // 4)][:4]:
        ctx.sample({"case": r["c"], "observed": r["obs"][0]})
    judge(ctx, recs, "judge replayed cases (HistTrace)")
    # 3. larger seeded cases, code -> spec
    nrand, maxlen = (400, 60) if ctx.quick else (6000, 200)
    rc = random_cases(random.Random(ctx.seed), nrand, maxlen, len(recs) + 1)
    rrecs = pmap(run_case, rc)
    for r in rrecs:
        ctx.count(r["c"])
    judge(ctx, rrecs, "judge seeded larger cases (HistTrace)")
    # 4. engines agree bit-for-bit off the lattice (two implementation outputs; no oracle)
    noff = 2000 if ctx.quick else 40000
    bad = [b for b in pmap(engines_agree_offlattice, [(ctx.seed * 1000003 + k,) for k in range(noff)]) if b]
    ctx.evaluations += noff
    for b in bad:
        ctx.violation("histogram|engines_differ|offlattice", "C and Python engines return different arrays", dict(b, kind="offlattice"))
    # 5. binding self-test: a corrupted observation must be rejected
    probe = next(r for r in recs if r["obs"][0]["err"] == "none" and sum(r["obs"][0]["hist"]) >= 2)
    bad_obs = dict(probe["obs"][0]); bad_obs["hist"] = list(bad_obs["hist"]); bad_obs["hist"][bad_obs["hist"].index(max(bad_obs["hist"]))] -= 1
    saved = ctx.traces
    rej = tracecheck.validate(ctx, "HistTrace.tla", [{"id": 1, "c": probe["c"], "obs": [bad_obs]}, {"id": 2, "c": probe["c"], "obs": probe["obs"]}],
                              what="self-test: corrupted record rejected", workers=1)
    ctx.traces = saved
    if 1 not in rej or (2 in rej and 2 not in {r["id"] for r in recs}):
        raise MachineryError("binding self-test failed: corrupted histogram not rejected (%s)" % rej)
    ctx.rule = ("every data array of length 1..%d over %d lattice values x every bin size %s / bin count %s x every min,max in "
                "%s or absent (exported from HistMC.tla), each concretised on one of %d dyadic lattices and run through both "
                "engines with and without rev; plus %d seeded arrays up to length %d; a case is distinct by its abstract "
                "record and non-trivial always (each has >=1 datum)" %
                (B["MaxLen"], len(B["Vals"]), sorted(B["BinSizes"]), sorted(B["NBinSet"]), sorted(B["LimVals"]),
                 len(CONCRETE), nrand, maxlen))
    ctx.exhaustive = True
    ctx.note(bounds={k: sorted(v) if isinstance(v, set) else v for k, v in B.items()}, offlattice_engine_pairs=noff,
             exported_cases=len(cases))
    ctx.assumptions = ["dyadic lattice: binary64 subtraction and quotient floor are exact unless the real quotient is an integer and the bin size inexact (those bins are unconstrained)",
                       "non-dyadic data/bin sizes off the lattice are compared engine-vs-engine only"]


def replay(ctx, case):
    if case.get("kind") == "offlattice":
        x = np.array(case["x"]); a, b = observe(x, case["kw"], "c", True), observe(x, case["kw"], "py", True)
        if (a["err"], a["hist"], a["rev"]) != (b["err"], b["hist"], b["rev"]):
            ctx.violation("histogram|engines_differ|offlattice", "C and Python engines differ", case)
        return
    k = case.get("concrete", 0)
    rec = run_case((k if k else len(CONCRETE), case["c"]))
    rec["id"] = 1
    print("replay observed:", rec["obs"])
    judge(ctx, [rec], "replay")
