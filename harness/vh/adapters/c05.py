"""C05 - histogram counts and reverse indices partition the binned data.

spec -> code : HistMC.tla enumerates every case of the bounded space; each carries the
               representation of the data argument, the entry point and the scalar kind
               (covering design) and is concretised on a dyadic lattice and run through both
               engines.  HistMC.tla also enumerates HISTORIES of calls on one Binner object
               (dohist with different options / calc_stats); each is run on ONE object per engine.
code -> spec : what the engines returned (plus larger seeded cases and histories) is written as
               ndjson and judged by HistTrace.tla (property-level Accept of Hist.tla).
Python never judges a result; it only maps abstract <-> concrete and records.  The one relation
it evaluates itself is between two implementation outputs (re-used object == fresh object,
bit for bit), recorded as a boolean the trace module demands to be TRUE.
"""
import hashlib
import random
from collections import Counter as collections_Counter
import warnings

import numpy as np

from .. import tracecheck
from ..core import MachineryError
from ..par import pmap
from ..tlc import cfg

NEEDS_EXT = True


# ---- a parallel map that survives the death of a worker ------------------------------------------------
def safe_pmap(fn, items, chunk=None, max_crashes=8):
    """fork-parallel map like vh.par.pmap, but a worker process killed by the code under test (a segfault in the
    compiled engine) does not hang or kill the run: the item it was working on is returned as
    {"crashed": True, "item": item, "exit": exitcode} and the rest of its chunk is given to a new worker."""
    import collections
    import multiprocessing as mp
    import os
    from multiprocessing.connection import wait
    items = list(items)
    n = len(items)
    out = [None] * n
    if n == 0:
        return out
    nproc = max(1, min(16, os.cpu_count() or 1, int(os.environ.get("VH_MAX_WORKERS", "16"))))
    chunk = chunk or max(1, min(1000, n // (nproc * 4) or 1))
    todo = collections.deque((a, min(n, a + chunk)) for a in range(0, n, chunk))
    mpc = mp.get_context("fork")
    live = {}
    crashes = 0

    def work(start, stop, precise, w):
        # precise: announce every item before it is executed (used to re-run what a dead worker left behind)
        batch = []
        for i in range(start, stop):
            if precise:
                w.send(("at", i))
            batch.append((i, fn(items[i])))
            if precise or len(batch) >= 200:
                w.send(("res", batch)); batch = []
        w.send(("res", batch))
        w.close()

    todo = collections.deque((a, b, False) for a, b in todo)
    while todo or live:
        while todo and len(live) < nproc:
            start, stop, precise = todo.popleft()
            r, w = mpc.Pipe(duplex=False)
            p = mpc.Process(target=work, args=(start, stop, precise, w))
            p.start()
            w.close()
            live[r] = [p, start, stop, start, precise]
        for r in wait(list(live)):
            rec = live[r]
            try:
                tag, val = r.recv()
                if tag == "at":
                    rec[3] = val
                else:
                    for i, res in val:
                        out[i] = res
            except (EOFError, OSError):
                rec[0].join()
                r.close()
                del live[r]
                lost = [i for i in range(rec[1], rec[2]) if out[i] is None]
                if not lost:
                    continue
                if rec[0].exitcode == 0:
                    raise MachineryError("worker ended without delivering its results")
                if rec[4]:
                    crashes += 1
                    out[rec[3]] = {"crashed": True, "item": items[rec[3]], "exit": rec[0].exitcode}
                    lost = [i for i in lost if i != rec[3]]
                if crashes <= max_crashes:
                    k = 0
                    while k < len(lost):                     # re-run what was lost, as runs of consecutive indices
                        m = k
                        while m + 1 < len(lost) and lost[m + 1] == lost[m] + 1:
                            m += 1
                        todo.appendleft((lost[k], lost[m] + 1, True))
                        k = m + 1
    return [o for o in out if o is not None]


def _split_crashes(recs):
    return [r for r in recs if not r.get("crashed")], [r for r in recs if r.get("crashed")]


def report_crashes(ctx, crashed, what):
    """a process killed while executing esutil code is not an outcome any clause allows"""
    for r in crashed:
        i, c = r["item"]
        if "calls" in c:
            ctx.violation("Binner.history|interpreter_killed|%s" % rep_class(c.get("rep", "f8")),
                          "the interpreter was killed (exit %s) while one Binner object executed a history of calls" % r["exit"],
                          {"kind": "history", "h": c, "id": i})
        elif "vals" in c:
            ctx.violation("histogram.scale|interpreter_killed|%s" % c["mode"],
                          "the interpreter was killed (exit %s) while histogramming" % r["exit"], {"kind": "scale", "sc": c, "id": i})
        else:
            ctx.violation("histogram|interpreter_killed|%s" % struct_class(c),
                          "the interpreter was killed (exit %s) while histogramming" % r["exit"], {"kind": "lattice", "c": c, "concrete": i})

# ---- representations of the data argument (HistMC.tla: RepSeq / ScalarSeq) ----------------------
REPS = ["f8", "f8be", "f4", "f4be", "i2", "i4", "i4be", "i8", "u1", "u4", "list", "intlist", "tuple",
        "strided2", "strided3", "reversed", "col2d", "rec12", "rec20", "rec12be", "reci4", "recf4", "readonly"]
SCALAR_REPS = ["zerod", "pyfloat", "pyint", "npf8", "npi4"]
ENTRIES = ["histogram", "binner", "more", "weighted"]
SREPS = ["pyfloat", "pyint", "npf8", "npi8"]
_DT = {"f8": "<f8", "f8be": ">f8", "f4": "<f4", "f4be": ">f4", "i2": "<i2", "i4": "<i4", "i4be": ">i4", "i8": "<i8",
       "u1": "u1", "u4": "<u4", "readonly": "<f8", "reversed": "<f8", "strided2": "<f8", "strided3": "<f8", "col2d": "<f8"}
_REC = {"rec12": ([("v", "<f8"), ("t", "<i4")], "v"), "rec20": ([("t", "<i4"), ("v", "<f8"), ("u", "<f8")], "v"),
        "rec12be": ([("v", ">f8"), ("t", "<i4")], "v"), "reci4": ([("t", "u1"), ("v", "<i4")], "v"),
        "recf4": ([("t", "<i2"), ("v", "<f4")], "v")}
# element kind of a representation: decides which lattices can be held exactly
KIND = {"f4": "f4", "f4be": "f4", "recf4": "f4", "i2": "int", "i4": "int", "i4be": "int", "i8": "int", "reci4": "int",
        "intlist": "int", "pyint": "int", "npi4": "int", "u1": "uint", "u4": "uint"}
JUNK = 7.0e5      # filler between the elements of strided / record views: far outside every lattice

# lattice concretisations: value = (x + off) * unit
LATTICES = {
    "float": [(0.5, 0), (0.125, 7), (2.0 ** -10, -2 ** 10), (1, 0), (1024.0, -5), (1, -3), (4.0, 1000), (1.0, 0)],
    "f4":    [(4.0, 1000), (0.5, 0), (0.125, 7), (1, -3), (2.0 ** -10, -2 ** 10), (1.0, 0)],
    "int":   [(1, 0), (1, -3), (1024, -5), (1, 1000), (2, 7)],
    "uint":  [(1, 0), (1, 7), (16, 2), (2, 0)],
}
# long random histories (tlc -simulate over NextDeep): calls per history, behaviours, histories kept, limits tried
DEEP = {"quick": dict(depth=12, num=60, keep=300), "thorough": dict(depth=16, num=400, keep=3000)}
DEEP_CONSTS = dict(HMins={2, 5}, HMaxs={0, 3}, HThin=1, HBothW=True)
SCALE_REPS = ["f8", "i4", "rec12", "strided2", "f4", "u1", "reversed", "f8be", "rec20", "list"]

BOUNDS = {
    "quick":    dict(MaxLen=3, Vals=set(range(1, 6)), BinSizes={1, 2, 3}, NBinSet={1, 2, 3, 4}, LimVals=set(range(0, 7)),
                     RepFan=1, HLens={1, 2, 3}, HVals={1, 2, 4}, HBinSizes={1, 2}, HNBins={2, 3}, HNPer={1, 2},
                     HMins={2}, HMaxs={3}, HDepth=2, HThin=3, HBothW=False,
                     ScaleNs={1023, 1024, 1025, 2048, 4096, 8192, 6145, 65537}, SmallNs={4, 5, 6}, ScaleThin=48,
                     WLens={2, 3}, WVals={1, 2, 4}, WDepth=3, WThin=4, WXColl=1, WXRest=1),
    "thorough": dict(MaxLen=4, Vals=set(range(1, 7)), BinSizes={1, 2, 3, 5}, NBinSet={1, 2, 3, 4}, LimVals=set(range(0, 8)),
                     RepFan=1, HLens={1, 2, 3}, HVals={1, 2, 4}, HBinSizes={1, 2}, HNBins={2, 3}, HNPer={1, 2},
                     HMins={2}, HMaxs={3}, HDepth=3, HThin=48, HBothW=True,
                     ScaleNs={1023, 1024, 1025, 2047, 2048, 3072, 4096, 5121, 6145, 8192, 49152, 65535, 65536, 65537, 131073},
                     SmallNs={4, 5, 6, 7}, ScaleThin=12,
                     WLens={2, 3}, WVals={1, 2, 4}, WDepth=4, WThin=4, WXColl=1, WXRest=1),
}


def represent(vals, rep):
    """exact lattice values -> (object handed to esutil, buffer whose bytes must not change).  None if `rep` cannot hold
    the values exactly."""
    a = np.array(vals, dtype="f8")
    n = a.size
    if rep in _REC:
        dt, f = _REC[rep]
        rec = np.zeros(n, dtype=dt)
        for name in rec.dtype.names:
            rec[name] = JUNK if rec.dtype[name].kind == "f" else 77
        with np.errstate(all="ignore"):
            rec[f] = a
        if not np.array_equal(rec[f].astype("f8"), a):
            return None
        return rec[f], rec
    if rep in ("list", "tuple"):
        o = [float(v) for v in a]
        return (o if rep == "list" else tuple(o)), None
    if rep == "intlist":
        if any(v != int(v) for v in a):
            return None
        return [int(v) for v in a], None
    if rep in SCALAR_REPS:
        if n != 1 or (KIND.get(rep) == "int" and a[0] != int(a[0])):
            return None
        v = a[0]
        o = {"zerod": lambda: np.array(v), "pyfloat": lambda: float(v), "pyint": lambda: int(v),
             "npf8": lambda: np.float64(v), "npi4": lambda: np.int32(v)}[rep]()
        return o, None
    with np.errstate(all="ignore"):
        t = a.astype(_DT[rep])
    if not np.array_equal(t.astype("f8"), a):
        return None
    if rep == "strided2":
        buf = np.full(2 * n + 1, JUNK); buf[1::2] = t
        return buf[1::2], buf
    if rep == "strided3":
        buf = np.full(3 * n, JUNK); buf[::3] = t
        return buf[::3], buf
    if rep == "reversed":
        buf = t[::-1].copy()
        return buf[::-1], buf
    if rep == "col2d":
        buf = np.full((n, 3), JUNK); buf[:, 1] = t
        return buf[:, 1], buf
    if rep == "readonly":
        t.flags.writeable = False
    return t, t


def _snap(obj, buf):
    return buf.tobytes() if buf is not None else repr(obj)


def lattice_for(rep, k, values):
    """k-th lattice of the element kind of `rep` that holds all `values` (abstract ints) exactly"""
    fam = LATTICES[KIND.get(rep, "float")]
    for d in range(len(fam)):
        unit, off = fam[(k + d) % len(fam)]
        if represent([(v + off) * unit for v in values], rep) is not None:
            return unit, off
    return None


def scalar(v, srep):
    """a binsize / min / max value in the scalar kind `srep` (integral kinds only where the value is integral)"""
    integral = float(v) == int(v)
    if srep == "pyint" and integral:
        return int(v)
    if srep == "npi8" and integral:
        return np.int64(v)
    if srep in ("npf8", "npi8"):
        return np.float64(v)
    return float(v)


def spec_kw(c, unit, off, srep):
    kw = {}
    if c["mode"] == "binsize":
        kw["binsize"] = scalar(c["b"] * unit, srep)
    elif c["mode"] == "nbin":
        kw["nbin"] = np.int64(c["b"]) if srep.startswith("np") else int(c["b"])
    elif c["mode"] == "nperbin":
        kw["nperbin"] = int(c["b"])
    if c["hasmin"]:
        kw["min"] = scalar((c["min"] + off) * unit, srep)
    if c["hasmax"]:
        kw["max"] = scalar((c["max"] + off) * unit, srep)
    return kw


def concretise(c, k):
    rep = c.get("rep", "f8")
    lat = lattice_for(rep, k, c["x"])
    if lat is None:
        raise MachineryError("no lattice holds case %r in representation %s" % (c, rep))
    unit, off = lat
    x, buf = represent([(v + off) * unit for v in c["x"]], rep)
    return x, buf, spec_kw(c, unit, off, c.get("srep", "pyfloat")), (unit, off)


def _weights(n):
    return np.array([1.0 + (i % 3) * 0.5 for i in range(n)])


def _obs_of(d, err=None):
    if err is not None:
        return {"err": err, "hist": [], "hasrev": False, "rev": []}
    if "hist" not in d:
        return {"err": "nohist", "hist": [], "hasrev": False, "rev": []}
    return {"err": "none", "hist": [int(v) for v in d["hist"]], "hasrev": "rev" in d,
            "rev": [int(v) for v in d["rev"]] if "rev" in d else []}


def observe(x, kw, engine, rev, entry="histogram", buf=None):
    import esutil.stat.util as su
    saved = su.have_chist
    su.have_chist = (engine == "c") and saved
    before = _snap(x, buf)
    try:
        with warnings.catch_warnings():
            warnings.simplefilter("ignore")
            with np.errstate(all="ignore"):
                if entry == "histogram":
                    res = su.histogram(x, rev=rev, **kw)
                    d = {"hist": res[0], "rev": res[1]} if rev else {"hist": res}
                elif entry == "binner":
                    d = su.Binner(x)
                    d.dohist(rev=rev, **kw)
                elif entry == "more":
                    d = su.histogram(x, rev=rev, more=True, **kw)
                else:
                    d = su.histogram(x, weights=_weights(np.size(x)), rev=rev, **kw)
        o = _obs_of(d)
    except Exception as e:  # noqa
        o = _obs_of(None, type(e).__name__)
    finally:
        su.have_chist = saved
    o["engine"] = engine
    o["frame_ok"] = (_snap(x, buf) == before)
    return o


def run_case(args):
    i, c = args
    x, buf, kw, _ = concretise(c, i)
    e = c.get("entry", "histogram")
    obs = [observe(x, kw, "c", True, e, buf), observe(x, kw, "py", True, e, buf),
           observe(x, kw, "c" if i % 2 else "py", False, e, buf)]
    return {"id": i, "kind": "case", "c": c, "obs": obs, "concrete": i}


def rep_class(rep):
    """structural class of the data argument: a float64 buffer esutil can use as it is, a view of one (strides, record
    field), or something that has to be converted (other element type / byte order, python object)"""
    if rep in ("f8", "readonly", "zerod", "npf8"):
        return "native_f8"
    if rep in ("strided2", "strided3", "reversed", "col2d", "rec12", "rec20"):
        return "f8_view"
    return "converted"


def struct_class(c):
    lim = ("min" if c["hasmin"] else "") + ("max" if c["hasmax"] else "") or "nolimits"
    return "%s|%s|%s" % (c["mode"], lim, rep_class(c.get("rep", "f8")))


def _fitting_rep(rng, n, values):
    """a representation (drawn from all of them) that can hold the abstract values on some lattice"""
    pool = REPS + (SCALAR_REPS if n == 1 else [])
    for _ in range(40):
        rep = rng.choice(pool)
        if lattice_for(rep, 0, values) is not None:
            return rep
    return "f8"


def random_cases(rng, n, maxlen, start_id):
    out = []
    for k in range(n):
        ln = rng.choice([1, 2, 5, 17, maxlen // 2, maxlen])
        nv = rng.choice([1, 2, 4, 12, 40])
        x = [rng.randrange(1, nv + 1) for _ in range(ln)]
        mode = rng.choice(["binsize", "nbin"])
        b = rng.choice([1, 2, 3, 5, 7]) if mode == "binsize" else rng.choice([1, 2, 3, 4, 6, 8, 10])
        if k % 3 == 0 and mode == "binsize":
            # edge-heavy family: data exactly on bin edges of bin sizes whose reciprocal is inexact
            b = rng.choice([3, 7, 49, 98, 103, 107, 161, 187, 197])
            x = [1 + b * rng.randrange(0, 6) + rng.choice([0, 0, 0, 1, b - 1]) for _ in range(ln)]
            nv = max(x)
        hasmin, hasmax = rng.random() < 0.4, rng.random() < 0.4
        c = {"x": x, "mode": mode, "b": b, "hasmin": hasmin, "min": rng.randrange(0, nv + 2) if hasmin else 0,
             "hasmax": hasmax, "max": rng.randrange(0, nv + 2) if hasmax else 0}
        c["rep"] = _fitting_rep(rng, ln, x)
        c["entry"] = rng.choice(ENTRIES)
        c["srep"] = rng.choice(SREPS)
        out.append((start_id + k, c))
    return out


def engines_agree_offlattice(args):
    """relation between two implementation outputs - no oracle needed"""
    seed, = args
    rng = np.random.RandomState(seed)
    n = int(rng.choice([1, 3, 10, 100]))
    x = [rng.normal(size=n), rng.uniform(-5, 5, size=n), np.round(rng.uniform(0, 3, size=n), 1)][rng.randint(3)]
    rep = ["f8", "f8be", "list", "strided2", "strided3", "reversed", "col2d", "rec12", "rec20", "rec12be", "readonly"][rng.randint(11)]
    entry = ENTRIES[rng.randint(len(ENTRIES))]
    kw = {}
    if rng.rand() < 0.5:
        kw["binsize"] = float(rng.choice([0.1, 0.3, 1.0, 0.01, 2.5]))
    else:
        kw["nbin"] = int(rng.randint(1, 12))
    if rng.rand() < 0.3:
        kw["min"] = float(np.round(rng.uniform(-2, 1), 1))
    if rng.rand() < 0.3:
        kw["max"] = float(np.round(rng.uniform(1, 3), 1))
    xr, buf = represent(x, rep)
    a, b = observe(xr, kw, "c", True, entry, buf), observe(xr, kw, "py", True, entry, buf)
    same = (a["err"], a["hist"], a["rev"]) == (b["err"], b["hist"], b["rev"])
    return None if same else {"x": x.tolist(), "kw": kw, "rep": rep, "entry": entry, "c": a, "py": b}


def _offlattice_item(args):
    return {"diff": engines_agree_offlattice(args)}


# ---- object histories -----------------------------------------------------------------------------
INTERNAL_KEYS = ("sort_index", "wsort")      # working arrays the object happens to expose: not part of a result


def _digest(d):
    """every result the object holds, bit for bit"""
    h = hashlib.blake2b(digest_size=12)
    for k in sorted(d):
        if k in INTERNAL_KEYS:
            continue
        v = np.asarray(d[k])
        h.update(("%s|%s|%s|" % (k, v.dtype.str, v.shape)).encode())
        h.update(v.tobytes())
    return h.hexdigest()


def _do_call(b, cl, unit, off, srep):
    try:
        with warnings.catch_warnings():
            warnings.simplefilter("ignore")
            with np.errstate(all="ignore"):
                if cl["op"] == "calc_stats":
                    b.calc_stats()
                else:
                    b.dohist(rev=bool(cl["rev"]), calc_stats=bool(cl["cs"]), **spec_kw(cl, unit, off, srep))
        o = _obs_of(b)
        o["digest"] = _digest(b)
    except Exception as e:  # noqa
        o = _obs_of(None, type(e).__name__)
        o["digest"] = "err"
    return o


def _last_do(calls, k):
    while k >= 0 and calls[k]["op"] != "dohist":
        k -= 1
    return k


def run_history(args):
    """one history on ONE Binner object per engine; after every call what the object holds, and whether that is
    bit-for-bit what a fresh object shows that was given only the calls since the last dohist"""
    import esutil.stat.util as su
    i, h = args
    rep, calls = h.get("rep", "f8"), h["calls"]
    lat = lattice_for(rep, i, h["x"])
    if lat is None:
        raise MachineryError("no lattice holds history %r" % (h,))
    unit, off = lat
    vals = [(v + off) * unit for v in h["x"]]
    srep = SREPS[i % len(SREPS)]
    wvals = [1.0 + ((i + j) % 3) for j in range(len(vals))]

    def make():
        x, buf = represent(vals, rep)
        w = None
        if h["hasw"]:
            wr = represent(wvals, h.get("wrep", "f8"))
            w = wr[0] if wr is not None else np.array(wvals)
        return x, buf, su.Binner(x, weights=w)

    steps = [{"obs": [], "fresh": []} for _ in calls]
    frame_ok = True
    saved = su.have_chist
    try:
        for engine in ("c", "py"):
            su.have_chist = (engine == "c") and saved
            x, buf, b = make()
            before = _snap(x, buf)
            for k, cl in enumerate(calls):
                o = _do_call(b, cl, unit, off, srep)
                m = _last_do(calls, k)
                if m >= 0:
                    _, _, fb = make()
                    for cl2 in calls[m:k + 1]:
                        f = _do_call(fb, cl2, unit, off, srep)
                    same = (f["err"], f["hist"], f["hasrev"], f["rev"], f["digest"]) == (o["err"], o["hist"], o["hasrev"], o["rev"], o["digest"])
                else:
                    same = True
                o["engine"] = engine
                del o["digest"]
                steps[k]["obs"].append(o)
                steps[k]["fresh"].append(bool(same))
            frame_ok = frame_ok and _snap(x, buf) == before
    finally:
        su.have_chist = saved
    return {"id": i, "kind": "history", "h": h, "steps": steps, "frame_ok": frame_ok}


def _call_class(cl):
    if cl["op"] == "calc_stats":
        return "calc_stats"
    return cl["mode"] + ("_rev" if cl["rev"] else "")


def _coarse(h, cl):
    """does the call need the sorted index (reverse indices, equal occupancy, weights) or only plain counts"""
    if cl["op"] == "calc_stats":
        return "calc_stats"
    return "sorted_call" if (cl["rev"] or cl["mode"] == "nperbin" or h["hasw"]) else "plain_counts"


def history_class(h, k):
    """structural class of step k (1-based) of a history: what the same object was used for before"""
    if k == 1:
        return "first_call"
    earlier = {_coarse(h, cl) for cl in h["calls"][:k - 1]}
    return "after_plain_counts_call" if "plain_counts" in earlier else "after_sorted_calls_only"


def random_histories(rng, n, maxlen, start_id):
    out = []
    for k in range(n):
        ln = rng.choice([1, 2, 3, 7, 20, maxlen])
        nv = rng.choice([1, 2, 5, 12, 40])
        x = [rng.randrange(1, nv + 1) for _ in range(ln)]
        calls = []
        for _ in range(rng.choice([2, 3, 4, 5])):
            if rng.random() < 0.15:
                calls.append({"op": "calc_stats", "mode": "none", "b": 0, "hasmin": False, "min": 0, "hasmax": False, "max": 0,
                              "rev": False, "cs": True})
                continue
            mode = rng.choice(["binsize", "binsize", "nbin", "nbin", "nperbin"])
            b = rng.choice([1, 2, 3, 5, 7]) if mode == "binsize" else rng.choice([1, 2, 3, 4, 6, 8]) if mode == "nbin" else rng.choice([1, 2, 3, 5, ln])
            hasmin, hasmax = rng.random() < 0.3, rng.random() < 0.3
            calls.append({"op": "dohist", "mode": mode, "b": b, "hasmin": hasmin, "min": rng.randrange(0, nv + 2) if hasmin else 0,
                          "hasmax": hasmax, "max": rng.randrange(0, nv + 2) if hasmax else 0,
                          "rev": rng.random() < 0.5, "cs": rng.random() < 0.7})
        out.append((start_id + k, {"x": x, "hasw": rng.random() < 0.25, "rep": _fitting_rep(rng, ln, x),
                                   "wrep": rng.choice(["f8", "f4", "i4", "list", "rec12", "strided2", "f8be"]), "calls": calls}))
    return out


# ---- scale cases ------------------------------------------------------------------------------------
def scale_data(sc):
    """the abstract data of a scale case (HistMC.tla: Expand): value j repeated mult[j] times, arranged"""
    vals, mult = sc["vals"], sc["mult"]
    if sc["arr"] == "blocks":
        return np.repeat(np.array(vals, dtype="i8"), mult)
    if sc["arr"] == "rblocks":
        return np.repeat(np.array(vals[::-1], dtype="i8"), mult[::-1])
    # round robin over the values that are left
    k = len(vals)
    rounds = np.arange(max(mult))
    grid = np.broadcast_to(np.array(vals, dtype="i8"), (rounds.size, k))
    keep = rounds[:, None] < np.array(mult)[None, :]
    return grid[keep]


def project(xabs, d):
    """O(n) projection of a result onto what HSFailing reads: counts, the pointer part of rev, and per bin the
    run-length encoding BY DATA VALUE of the slice (value, run length, indices strictly ascending within the run)"""
    if "hist" not in d:
        return {"err": "nohist", "hist": [], "hasrev": False, "ptr": [], "revlen": 0, "runs": []}
    hist = np.asarray(d["hist"])
    o = {"err": "none", "hist": [int(v) for v in hist], "hasrev": "rev" in d, "ptr": [], "revlen": 0, "runs": []}
    if "rev" not in d:
        return o
    rev = np.asarray(d["rev"])
    nb = hist.size
    o["revlen"] = int(rev.size)
    o["ptr"] = [int(v) for v in rev[:nb + 1]]
    if len(o["ptr"]) != nb + 1:
        return o
    for i in range(nb):
        a, e = o["ptr"][i], o["ptr"][i + 1]
        runs = []
        if 0 <= a <= e <= rev.size:
            idx = rev[a:e]
            if idx.size and (idx.min() < 0 or idx.max() >= xabs.size):
                runs = [{"v": -1, "len": int(idx.size), "asc": False}]
            elif idx.size:
                v = xabs[idx]
                cut = np.flatnonzero(np.diff(v)) + 1
                starts = np.concatenate(([0], cut))
                ends = np.concatenate((cut, [idx.size]))
                up = np.diff(idx) > 0
                for s0, e0 in list(zip(starts, ends))[:64]:
                    runs.append({"v": int(v[s0]), "len": int(e0 - s0), "asc": bool(up[s0:e0 - 1].all())})
        o["runs"].append(runs)
    return o


def run_scale(args):
    import esutil.stat.util as su
    i, sc = args
    rep = SCALE_REPS[i % len(SCALE_REPS)]
    entry = ENTRIES[(i // len(SCALE_REPS)) % len(ENTRIES)]
    lat = lattice_for(rep, i, sc["vals"])
    if lat is None:
        raise MachineryError("no lattice holds scale case %r" % (sc,))
    unit, off = lat
    xabs = scale_data(sc)
    x, buf = represent((xabs + off) * unit, rep)
    kw = spec_kw(sc, unit, off, SREPS[i % len(SREPS)])
    before = _snap(x, buf)
    obs, raw = [], []
    saved = su.have_chist
    try:
        for engine in ("c", "py"):
            su.have_chist = (engine == "c") and saved
            try:
                with warnings.catch_warnings():
                    warnings.simplefilter("ignore")
                    with np.errstate(all="ignore"):
                        if entry == "histogram":
                            h, r = su.histogram(x, rev=True, **kw)
                            d = {"hist": h, "rev": r}
                        elif entry == "binner":
                            d = su.Binner(x)
                            d.dohist(rev=True, calc_stats=False, **kw)
                        elif entry == "more":
                            d = su.histogram(x, more=True, **kw)
                        else:
                            d = su.histogram(x, weights=np.ones(xabs.size), **kw)
                o = project(xabs, d)
                raw.append((np.asarray(d["hist"]).tobytes(), np.asarray(d["rev"]).tobytes()))
            except Exception as e:  # noqa
                o = {"err": type(e).__name__, "hist": [], "hasrev": False, "ptr": [], "revlen": 0, "runs": []}
                raw.append(o["err"])
            o["engine"] = engine
            obs.append(o)
    finally:
        su.have_chist = saved
    return {"id": i, "kind": "scale", "sc": sc, "obs": obs, "same": bool(raw[0] == raw[1]), "rep": rep, "entry": entry,
            "frame_ok": _snap(x, buf) == before}


def judge_scale(ctx, recs, what):
    rejects = tracecheck.validate(ctx, "HistTrace.tla", [{"id": r["id"], "kind": "scale", "sc": r["sc"], "obs": r["obs"], "same": r["same"]}
                                                         for r in recs], what=what, shard_size=40)
    byid = {r["id"]: r for r in recs}
    for rid, failing in rejects.items():
        r = byid[rid]
        for cl in failing:
            ctx.violation("histogram.scale|%s|%s|%s" % (cl, r["sc"]["mode"], rep_class(r["rep"])),
                          "result for %d data of few distinct values contradicts the concatenation law of Hist.tla: clause %s"
                          % (sum(r["sc"]["mult"]), cl), {"kind": "scale", "sc": r["sc"], "id": r["id"], "obs": r["obs"]})
    for r in recs:
        if not r["frame_ok"]:
            ctx.violation("histogram.scale|argument_modified", "histogram modified its data argument", {"kind": "scale", "sc": r["sc"], "id": r["id"]})


# ---- world sessions (HistMC.tla: WNew / WStep; Hist.tla: HWStepFailing) ----------------------------------
# kinds of data object: what the caller can do to the buffer behind it while the OBJECT stays the same
WKINDS = ["roview", "bcast", "memmap", "robuf", "rostrided", "writable", "list", "rofield"]
RO_NDARRAY = ("roview", "bcast", "memmap", "robuf", "rostrided", "rofield")
WORLD = {"quick": dict(export=dict(WThin=1, WXColl=4, WXRest=120), sim_depth=10, sim_num=100, sim_keep=150),
         "thorough": dict(export=dict(WThin=1, WXColl=11, WXRest=900), sim_depth=14, sim_num=400, sim_keep=1500)}


def w_make(kind, vals, tmpdir, tag):
    """-> (object handed to esutil, write(newvals): the caller changes the buffer behind it)"""
    a = np.array(vals, dtype="f8")
    n = a.size
    if kind == "roview":
        base = a.copy(); v = base.view(); v.flags.writeable = False
        def write(new): base[:] = new
    elif kind == "bcast":
        row = a.copy(); v = np.broadcast_to(row, (2, n))[1]
        def write(new): row[:] = new
    elif kind == "memmap":
        import os
        import tempfile
        if not tmpdir:
            tmpdir.append(tempfile.mkdtemp(prefix="C05-world-"))
        path = os.path.join(tmpdir[0], "m%s.bin" % tag)
        a.tofile(path)
        wm = np.memmap(path, dtype="f8", mode="r+")
        v = np.memmap(path, dtype="f8", mode="r")
        def write(new): wm[:] = new; wm.flush()
    elif kind == "robuf":
        ba = bytearray(a.tobytes()); v = np.frombuffer(memoryview(ba).toreadonly(), dtype="f8")
        def write(new): ba[:] = np.array(new, dtype="f8").tobytes()
    elif kind == "rostrided":
        base = np.full(2 * n + 1, JUNK); base[1::2] = a; v = base[1::2]; v.flags.writeable = False
        def write(new): base[1::2] = new
    elif kind == "rofield":
        rec = np.zeros(n, dtype=[("v", "<f8"), ("t", "<i4")]); rec["v"] = a; v = rec["v"]; v.flags.writeable = False
        def write(new): rec["v"] = new
    elif kind == "list":
        v = [float(t) for t in a]
        def write(new): v[:] = [float(t) for t in new]
    else:
        v = a.copy()
        def write(new): v[:] = new
    if kind in RO_NDARRAY and (not isinstance(v, np.ndarray) or v.flags.writeable):
        raise MachineryError("object of kind %s is not a read-only ndarray" % kind)
    return v, write


def _w_call(su, x, t, unit, off, srep):
    """one call of a session -> (observation, the arrays it returned)"""
    kw = spec_kw(t, unit, off, srep)
    rev, e = bool(t["rev"]), t["entry"]
    try:
        with warnings.catch_warnings():
            warnings.simplefilter("ignore")
            with np.errstate(all="ignore"):
                if e == "histogram":
                    res = su.histogram(x, rev=rev, **kw)
                    d = {"hist": res[0], "rev": res[1]} if rev else {"hist": res}
                elif e == "binner":
                    d = su.Binner(x)
                    d.dohist(rev=rev, **kw)
                elif e == "more":
                    d = su.histogram(x, rev=rev, more=True, **kw)
                else:
                    d = su.histogram(x, weights=_weights(np.size(x)), rev=rev, **kw)
        return _obs_of(d), d
    except Exception as ex:  # noqa
        return _obs_of(None, type(ex).__name__), None


def _w_kinds(i, w):
    """the model's pick rotated by the session number: every kind meets every session shape"""
    return [WKINDS[(WKINDS.index(k) + i) % len(WKINDS)] for k in w["kinds"]]


def world_session(args):
    """one session, start to end, in THIS process (call it in a fresh child)"""
    import shutil
    import tempfile
    import esutil.stat.util as su
    i, w = args
    unit, off = LATTICES["float"][i % len(LATTICES["float"])]
    conc = lambda xs: [(v + off) * unit for v in xs]
    srep = SREPS[i % len(SREPS)]
    engine = "c" if i % 2 else "py"
    kinds = _w_kinds(i, w)
    tmpdir = []                 # made only if a memmap is needed
    saved = su.have_chist
    su.have_chist = (engine == "c") and saved
    outs, frame_ok = [], True
    try:
        objs, writers, cur = [None, None], [None, None], [list(w["objs"][0]), list(w["objs"][1])]
        gen = 0
        for s in (0, 1):
            objs[s], writers[s] = w_make(kinds[s], conc(cur[s]), tmpdir, "%d_%d" % (s, gen))
        last = None
        for t in w["steps"]:
            s = t["slot"] - 1
            o = {"err": "none", "hist": [], "hasrev": False, "rev": [], "engine": engine}
            if t["op"] == "call":
                o, last = _w_call(su, objs[s], t, unit, off, srep)
                o["engine"] = engine
                frame_ok = frame_ok and np.array_equal(np.asarray(objs[s], dtype="f8"), np.array(conc(cur[s])))
            elif t["op"] == "mutate":
                writers[s](conc(t["x"])); cur[s] = list(t["x"])
            elif t["op"] == "replace":
                objs[s] = writers[s] = None          # dropped first: the new object may well get the same address
                gen += 1
                objs[s], writers[s] = w_make(kinds[s], conc(t["x"]), tmpdir, "%d_%d" % (s, gen))
                cur[s] = list(t["x"])
            else:                                    # scribble: the results are the caller's
                if last is not None:
                    for k in list(last):
                        v = last[k]
                        if isinstance(v, np.ndarray) and v.flags.writeable and not any(
                                isinstance(ob, np.ndarray) and np.may_share_memory(v, ob) for ob in objs):
                            v.fill(0)
                    bs = getattr(last, "sort_index", None)
                    if isinstance(bs, np.ndarray) and bs.flags.writeable:
                        bs.fill(0)
            outs.append(o)
            # the objects must hold what the session says they hold (machinery check of the harness itself)
            for q in (0, 1):
                if not np.array_equal(np.asarray(objs[q], dtype="f8"), np.array(conc(cur[q]))):
                    return {"id": i, "kind": "world", "w": w, "machinery": "object %d of kind %s does not hold the session's contents" % (q + 1, kinds[q])}
    finally:
        su.have_chist = saved
        objs = writers = None
        if tmpdir:
            shutil.rmtree(tmpdir[0], ignore_errors=True)
    return {"id": i, "kind": "world", "w": w, "outs": outs, "frame_ok": bool(frame_ok), "kinds": kinds, "engine": engine}


def in_child(fn, arg):
    """fn(arg) in a forked child of its own (a fresh world: nothing an earlier session did can be seen); the result
    comes back as JSON.  -> result or {"died": exit status}"""
    import json
    import os
    r, wfd = os.pipe()
    pid = os.fork()
    if pid == 0:
        code = 1
        try:
            os.close(r)
            data = json.dumps(fn(arg)).encode()
            with os.fdopen(wfd, "wb") as f:
                f.write(data)
            code = 0
        finally:
            os._exit(code)
    os.close(wfd)
    with os.fdopen(r, "rb") as f:
        data = f.read()
    _, status = os.waitpid(pid, 0)
    if status != 0 or not data:
        return {"died": status}
    return json.loads(data)


def _sessions(group):
    return [world_session(a) for a in group]


def run_world_group(group):
    """a group of sessions one after the other in ONE fresh child process -> their records"""
    import esutil.stat.util  # noqa: loaded (never called) before the fork, so that a child does not pay for the import
    recs = in_child(_sessions, group)
    if isinstance(recs, dict):          # the child died: find the session that kills it, alone
        recs = [run_world(a) for a in group]
    return recs


def run_world(args):
    """one session in a fresh child process of its own"""
    import esutil.stat.util  # noqa
    rec = in_child(world_session, args)
    if "died" in rec:
        return {"id": args[0], "kind": "world", "w": args[1], "died": rec["died"]}
    return rec


def world_class(w, k, kinds):
    """structural class of call k (1-based) of a session: what happened to ITS object since it was last histogrammed"""
    st = w["steps"]
    s = st[k - 1]["slot"]
    kind = kinds[s - 1]
    kc = "readonly_ndarray" if kind in RO_NDARRAY else kind
    prev = [j for j in range(k - 1) if st[j]["op"] == "call" and st[j]["slot"] == s]
    if not prev:
        return "first_call_on_object|" + kc
    between = [t["op"] for t in st[prev[-1] + 1:k - 1] if t["op"] in ("mutate", "replace") and t["slot"] == s]
    if "replace" in between:
        return "object_replaced|" + kc
    if "mutate" in between:
        return "same_object_buffer_changed|" + kc
    if st[k - 2]["op"] == "scribble":
        return "results_scribbled|" + kc
    return "same_object_unchanged|" + kc


def _world_validate(ctx, recs, what):
    return tracecheck.validate(ctx, "HistTrace.tla", [{"id": r["id"], "kind": "world", "w": r["w"], "outs": r["outs"]} for r in recs],
                               what=what, shard_size=1200)


def judge_world(ctx, recs, what, groups=None):
    """groups: the sessions that shared a process, in order.  A session rejected there is executed again in a fresh
    process of its own; if it is accepted alone, the violation needs the sessions before it: the replay case is then
    that whole prefix, to be executed in one process."""
    ok = []
    for r in recs:
        if "machinery" in r:
            raise MachineryError("world session %s: %s" % (r["id"], r["machinery"]))
        if "died" in r:
            ctx.violation("histogram.world|interpreter_killed", "the interpreter died (status %s) while executing a session of calls" % r["died"],
                          {"kind": "world", "w": r["w"], "id": r["id"]})
        else:
            ok.append(r)
    rejects = _world_validate(ctx, ok, what)
    byid = {r["id"]: r for r in ok}
    alone = {}
    if groups and rejects:
        tried = sorted(rejects)[:400]
        again = pmap(run_world, [(rid, byid[rid]["w"]) for rid in tried])
        alone = _world_validate(ctx, [r for r in again if "outs" in r], what + " - rejected sessions alone")
        ctx.traces -= len(again) - len(alone)        # the same sessions, not further accepted traces
    for rid, failing in rejects.items():
        r = byid[rid]
        case = {"kind": "world", "w": r["w"], "id": r["id"], "outs": r["outs"], "kinds": r["kinds"], "engine": r["engine"]}
        if groups and rid not in alone:            # (or not tried alone: the group prefix reproduces it in any case)
            g = next(g for g in groups if any(i == rid for i, _ in g))
            case = {"kind": "world_group", "id": rid, "sessions": [[i, w] for i, w in g[:[i for i, _ in g].index(rid) + 1]]}
        for f in failing:
            k, cl = f.split(":", 1)
            ctx.violation("histogram.world|%s|%s" % (cl, world_class(r["w"], int(k), r["kinds"])),
                          "call %s of a session of calls in ONE process returned what Hist.tla does not allow for its arguments as they "
                          "were at the time of the call (a fresh process does): clause %s" % (k, cl), case)
    for r in ok:
        if not r["frame_ok"]:
            ctx.violation("histogram.world|argument_modified", "histogram modified its data argument", {"kind": "world", "w": r["w"], "id": r["id"]})
    return rejects


def _world_guard(sessions, first_id):
    """vacuity guard: the sessions contain the collisions they are designed for, in every kind of object"""
    seen = collections_Counter()
    for i, w in enumerate(sessions, first_id):
        kinds = _w_kinds(i, w)
        for k, t in enumerate(w["steps"], 1):
            if t["op"] == "call" and t["rev"] and t["entry"] != "binner":
                cls = world_class(w, k, kinds)
                prev = [j for j in range(k - 1) if w["steps"][j]["op"] == "call" and w["steps"][j]["slot"] == t["slot"]]
                if prev and w["steps"][prev[-1]]["entry"] != "binner":
                    seen[cls.split("|")[0]] += 1
                    seen[(cls.split("|")[0], kinds[t["slot"] - 1])] += 1
    need = [c for c in ("same_object_buffer_changed", "object_replaced", "results_scribbled", "same_object_unchanged") if seen[c] < 20]
    need += [(c, kd) for c in ("same_object_buffer_changed", "object_replaced") for kd in WKINDS if seen[(c, kd)] < 2]
    if need:
        raise MachineryError("world sessions lack designed collisions: %s" % (need[:6],))
    return {c: seen[c] for c in ("same_object_buffer_changed", "object_replaced", "results_scribbled", "same_object_unchanged")}


# ---- judging ----------------------------------------------------------------------------------------
def judge(ctx, recs, what, shard_size=5000):
    rejects = tracecheck.validate(ctx, "HistTrace.tla", [{"id": r["id"], "kind": "case", "c": r["c"], "obs": r["obs"]} for r in recs],
                                  what=what, shard_size=shard_size)
    byid = {r["id"]: r for r in recs}
    for rid, failing in rejects.items():
        r = byid[rid]
        for cl in failing:
            ctx.violation("histogram|%s|%s" % (cl, struct_class(r["c"])),
                          "stat.histogram result not allowed by Hist.tla: clause %s" % cl,
                          {"kind": "lattice", "c": r["c"], "concrete": r.get("concrete", 0), "obs": r["obs"]})
    for r in recs:
        if not all(o["frame_ok"] for o in r["obs"]):
            ctx.violation("histogram|argument_modified", "histogram modified its data argument", {"kind": "lattice", "c": r["c"], "concrete": r.get("concrete", 0)})


def judge_histories(ctx, recs, what, shard_size=5000):
    rejects = tracecheck.validate(ctx, "HistTrace.tla", [{"id": r["id"], "kind": "history", "h": r["h"], "steps": r["steps"]} for r in recs],
                                  what=what, shard_size=shard_size)
    byid = {r["id"]: r for r in recs}
    for rid, failing in rejects.items():
        r = byid[rid]
        for f in failing:
            k, cl = f.split(":", 1)
            ctx.violation("Binner.history|%s|%s|%s" % (cl, history_class(r["h"], int(k)), rep_class(r["h"].get("rep", "f8"))),
                          "what one Binner object holds after call %s of a history is not allowed by Hist.tla: clause %s" % (k, cl),
                          {"kind": "history", "h": r["h"], "id": r["id"], "steps": r["steps"]})
    for r in recs:
        if not r["frame_ok"]:
            ctx.violation("Binner.history|argument_modified", "Binner modified its data argument", {"kind": "history", "h": r["h"], "id": r["id"]})


def _design_guard(cases, hists):
    """vacuity guard of the covering design: every representation meets every mode, every limit pattern, every entry
    point and every scalar kind; every pair of call classes occurs in a history"""
    seen = set()
    for c in cases:
        lim = (c["hasmin"], c["hasmax"])
        seen.update({("mode", c["rep"], c["mode"]), ("lim", c["rep"], lim), ("entry", c["rep"], c["entry"]), ("srep", c["rep"], c["srep"]),
                     ("es", c["entry"], c["srep"])})
    missing = [(r, m) for r in REPS for m in ("binsize", "nbin") if ("mode", r, m) not in seen]
    missing += [(r, l) for r in REPS for l in [(a, b) for a in (False, True) for b in (False, True)] if ("lim", r, l) not in seen]
    missing += [(r, e) for r in REPS for e in ENTRIES if ("entry", r, e) not in seen]
    missing += [(r, s) for r in REPS for s in SREPS if ("srep", r, s) not in seen]
    missing += [(r, "any") for r in SCALAR_REPS if not any(c["rep"] == r for c in cases)]
    pairs = set()
    for h in hists:
        cl = h["calls"]
        for k in range(1, len(cl)):
            pairs.add((_call_class(cl[k - 1]), _call_class(cl[k])))
    classes = ["calc_stats"] + [m + r for m in ("binsize", "nbin", "nperbin") for r in ("", "_rev")]
    missing += [p for p in [(a, b) for a in classes for b in classes] if p not in pairs]
    if missing:
        raise MachineryError("covering design has holes: %s" % (missing[:8],))
    hreps = {h["rep"] for h in hists}
    return {"representations": len({c["rep"] for c in cases}), "history_representations": len(hreps), "call_class_pairs": len(pairs)}


def run(ctx):
    B = BOUNDS[ctx.tier]
    consts = dict(B, FixedFill=True, DoExport=False, FixedCache=True, FixedSel=True, WMemo="content", WShare=False)
    # 2. export every case and every object history (spec -> code)
    r2 = ctx.tlc("HistMC.tla", what="export cases and object histories",
                 cfg_text=cfg(constants=dict(consts, DoExport=True, **WORLD[ctx.tier]["export"]), next_="NextExport",
                              constraints=["Export"]), workers=1, coverage=False, timeout=3000)
    worlds = r2.records.get("WORLD", [])
    cases = r2.records.get("CASE", [])
    hists = r2.records.get("HIST", [])
    scales = r2.records.get("SCALE", [])
    if not cases or not hists or len(scales) < 20:
        raise MachineryError("no cases / histories / scale cases exported")
    if not any(cl["op"] == "dohist" and cl["mode"] == "none" for h in hists for cl in h["calls"][:-1]):
        raise MachineryError("no rejected call inside an exported history")
    # 2b. long random histories (behaviours of the object machine, tlc -simulate), rejected calls interleaved
    D = DEEP[ctx.tier]
    r2b = ctx.tlc("HistMC.tla", what="simulate long object histories",
                  cfg_text=cfg(constants=dict(consts, DoExport=True, HDepth=D["depth"], **DEEP_CONSTS), next_="NextDeep",
                               constraints=["Export"]), workers=1, coverage=False, timeout=3000,
                  simulate="num=%d" % D["num"], extra=["-depth", str(D["depth"] + 2), "-seed", str(1000 + ctx.seed)])
    deep = r2b.records.get("HIST", [])
    deep = deep[:: max(1, len(deep) // D["keep"])][:D["keep"]]
    if len(deep) < D["keep"] // 2 or any(len(h["calls"]) != D["depth"] for h in deep):
        raise MachineryError("simulation produced %d long histories" % len(deep))
    design = _design_guard(cases, hists)
    # 2d. world sessions: long random ones (tlc -simulate over the world machine) besides the exported short ones
    WD = WORLD[ctx.tier]
    r2d = ctx.tlc("HistMC.tla", what="simulate long world sessions",
                  cfg_text=cfg(constants=dict(consts, DoExport=True, WThin=1, WDepth=WD["sim_depth"]), next_="NextWorldDeep",
                               constraints=["Export"]), workers=1, coverage=False, timeout=3000,
                  simulate="num=%d" % WD["sim_num"], extra=["-depth", str(WD["sim_depth"] + 2), "-seed", str(2000 + ctx.seed)])
    wdeep = r2d.records.get("WORLD", [])
    wdeep = wdeep[:: max(1, len(wdeep) // WD["sim_keep"])][:WD["sim_keep"]]
    if len(worlds) < 1000 or len(wdeep) < WD["sim_keep"] // 2 or any(len(w["steps"]) != WD["sim_depth"] for w in wdeep):
        raise MachineryError("%d exported / %d simulated world sessions" % (len(worlds), len(wdeep)))
    wfirst = 900001
    worlds = worlds + wdeep
    wdesign = _world_guard(worlds, wfirst)
    # 1. design level: the implementation-shaped pass refines the property, every case of the space; the object with its
    #    cached sort index refines the property along every history
    r1 = ctx.tlc("HistMC.tla", what="mechanism and object refine property (exhaustive)",
                 cfg_text=cfg(constants=consts, invariants=["MechRefines", "PassSafe", "RefAccepted", "ObjRefines", "CacheSound", "ConcatLaw", "ScaleLaw",
                                                           "WorldRefines", "WorldCurOK"]),
                 workers=16, coverage=False, timeout=3000)
    # vacuity: the export run visits exactly the enumeration states of this run; the rest are Begin/Step/Fill states, of
    # which every runnable case has at least three
    if r1.distinct - r2.distinct < len(cases) // 4:
        raise MachineryError("mechanism run visited too few pass states (%d vs %d)" % (r1.distinct, r2.distinct))
    # 1b. non-vacuity of MechRefines / ObjRefines: the deviating mechanisms must violate them
    small = dict(consts, MaxLen=2, HLens={1, 2})
    r1b = ctx.tlc("HistMC.tla", what="self-test: unrepaired trailing fill violates MechRefines",
                  cfg_text=cfg(constants=dict(small, FixedFill=False), invariants=["MechRefines"]),
                  workers=4, allow_violation=True, coverage=False)
    if "MechRefines" not in r1b.violated:
        raise MachineryError("self-test failed: MechRefines not violated by the deviating mechanism")
    r1c = ctx.tlc("HistMC.tla", what="self-test: object that skips the sort for plain counts violates ObjRefines",
                  cfg_text=cfg(constants=dict(small, FixedCache=False, MaxLen=1), invariants=["ObjRefines"]),
                  workers=4, allow_violation=True, coverage=False)
    if "ObjRefines" not in r1c.violated:
        raise MachineryError("self-test failed: ObjRefines not violated by the deviating object")
    r1d = ctx.tlc("HistMC.tla", what="self-test: object that caches the [min,max] selection violates ObjRefines",
                  cfg_text=cfg(constants=dict(small, FixedSel=False, MaxLen=1, HLens={2}, HDepth=3, HThin=1, ScaleNs=set(),
                                           HBinSizes={1}, HNBins=set(), HNPer={1}),
                               invariants=["ObjRefines"]),
                  workers=4, allow_violation=True, coverage=False)
    if "ObjRefines" not in r1d.violated:
        raise MachineryError("self-test failed: ObjRefines not violated by the object that caches the selection")
    # 1c. non-vacuity of WorldRefines: a process-level memo of the sort index keyed by object identity, and a memo that
    #     hands out its own result arrays, must violate it
    wsmall = dict(consts, WLens={2}, MaxLen=1, HLens={1}, HDepth=1, ScaleNs=set(), SmallNs=set())
    for memo, share, txt in (("ro_id", False, "sort index remembered per read-only object identity"),
                             ("none", True, "memo handing out its own result arrays")):
        rw = ctx.tlc("HistMC.tla", what="self-test: %s violates WorldRefines" % txt,
                     cfg_text=cfg(constants=dict(wsmall, WMemo=memo, WShare=share), next_="NextWorld", invariants=["WorldRefines"]),
                     workers=4, allow_violation=True, coverage=False)
        if "WorldRefines" not in rw.violated:
            raise MachineryError("self-test failed: WorldRefines not violated by the deviating process (%s)" % txt)
    recs, dead = _split_crashes(safe_pmap(run_case, list(enumerate(cases, 1))))
    report_crashes(ctx, dead, "cases")
    for r in recs:
        ctx.count(r["c"])
    for r in recs[:: max(1, len(recs) // 4)][:4]:
        ctx.sample({"case": r["c"], "observed": r["obs"][0]})
    judge(ctx, recs, "judge replayed cases (HistTrace)")
    hrecs, dead = _split_crashes(safe_pmap(run_history, list(enumerate(hists, 1))))
    report_crashes(ctx, dead, "histories")
    for r in hrecs:
        ctx.count(r["h"])
    ctx.sample({"history": hrecs[len(hrecs) // 2]["h"], "observed": hrecs[len(hrecs) // 2]["steps"]})
    judge_histories(ctx, hrecs, "judge replayed object histories (HistTrace)")
    drecs, dead = _split_crashes(safe_pmap(run_history, list(enumerate(deep, len(hists) + 1))))
    report_crashes(ctx, dead, "long histories")
    for r in drecs:
        ctx.count(r["h"])
    judge_histories(ctx, drecs, "judge simulated long histories (HistTrace)", shard_size=100 if ctx.quick else 600)
    # 2c. scale: few distinct values, numbers of data across and at the engines' block boundaries, judged through the law
    srecs, dead = _split_crashes(safe_pmap(run_scale, list(enumerate(scales, 1)), chunk=2))
    report_crashes(ctx, dead, "scale cases")
    for r in srecs:
        ctx.count(r["sc"])
    judge_scale(ctx, srecs, "judge scale cases (HistTrace)")
    # 2e. world sessions, 40 after one another in a fresh child process, every call judged with the contents of its object at that time
    witems = list(enumerate(worlds, wfirst))
    wgroups = [witems[k:k + 40] for k in range(0, len(witems), 40)]
    wrecs = [r for g in pmap(run_world_group, wgroups, chunk=1) for r in g]
    for r in wrecs:
        ctx.count(r["w"])
    ctx.sample({"world_session": wrecs[len(wrecs) // 3]["w"], "observed": wrecs[len(wrecs) // 3].get("outs")})
    judge_world(ctx, wrecs, "judge world sessions (HistTrace)", groups=wgroups)
    # 3. larger seeded cases and histories, code -> spec
    nrand, maxlen = (400, 60) if ctx.quick else (6000, 200)
    rc = random_cases(random.Random(ctx.seed), nrand, maxlen, len(cases) + 1)
    rrecs, dead = _split_crashes(safe_pmap(run_case, rc))
    report_crashes(ctx, dead, "seeded cases")
    for r in rrecs:
        ctx.count(r["c"])
    judge(ctx, rrecs, "judge seeded larger cases (HistTrace)", shard_size=1200)      # long arrays: ~50 ms per record
    nhist, hmaxlen = (300, 60) if ctx.quick else (3000, 60)
    rh = random_histories(random.Random(ctx.seed + 7919), nhist, hmaxlen, len(hists) + len(deep) + 1)
    rhrecs, dead = _split_crashes(safe_pmap(run_history, rh))
    report_crashes(ctx, dead, "seeded histories")
    for r in rhrecs:
        ctx.count(r["h"])
    judge_histories(ctx, rhrecs, "judge seeded longer histories (HistTrace)", shard_size=100 if ctx.quick else 600)
    # 4. engines agree bit-for-bit off the lattice (two implementation outputs; no oracle)
    noff = 2000 if ctx.quick else 40000
    offl, dead = _split_crashes(safe_pmap(_offlattice_item, [(ctx.seed * 1000003 + k,) for k in range(noff)]))
    for r in dead:
        ctx.violation("histogram|interpreter_killed|offlattice", "the interpreter was killed (exit %s) while histogramming" % r["exit"],
                      {"kind": "offlattice_seed", "seed": r["item"][0]})
    bad = [b["diff"] for b in offl if b["diff"]]
    ctx.evaluations += noff
    for b in bad:
        ctx.violation("histogram|engines_differ|offlattice", "C and Python engines return different arrays", dict(b, kind="offlattice"))
    # 5. binding self-test: a corrupted observation must be rejected (case and history records)
    probe = next(r for r in recs if r["obs"][0]["err"] == "none" and sum(r["obs"][0]["hist"]) >= 2)
    bad_obs = dict(probe["obs"][0]); bad_obs["hist"] = list(bad_obs["hist"]); bad_obs["hist"][bad_obs["hist"].index(max(bad_obs["hist"]))] -= 1
    hprobe = next(r for r in hrecs if all(s["obs"][0]["err"] == "none" and s["obs"][0]["hasrev"] and sum(s["obs"][0]["hist"]) >= 2 for s in r["steps"]))
    hbad = [dict(s, obs=[dict(o) for o in s["obs"]]) for s in hprobe["steps"]]
    last = hbad[-1]["obs"][0]
    nb = len(last["hist"])
    last["rev"] = list(last["rev"]); last["rev"][nb + 1:] = last["rev"][nb + 1:][::-1]       # identity-like order instead of sorted
    if last["rev"] == hprobe["steps"][-1]["obs"][0]["rev"]:
        last["rev"][-1] = (last["rev"][-1] + 1) % len(hprobe["h"]["x"])
    hstale = [dict(s, fresh=[False] + list(s["fresh"][1:])) for s in hprobe["steps"][:1]] + hprobe["steps"][1:]
    sprobe = next(r for r in srecs if r["obs"][0]["err"] == "none" and r["obs"][0]["hasrev"] and max(r["obs"][0]["hist"]) >= 1024)
    so = dict(sprobe["obs"][0]); so["ptr"] = list(so["ptr"])
    lastb = max(i for i, v in enumerate(so["hist"]) if v)
    so["ptr"][lastb + 1:] = [so["ptr"][lastb]] * (len(so["ptr"]) - lastb - 1)       # last occupied bin's slice closed too early
    saved = ctx.traces
    rej = tracecheck.validate(ctx, "HistTrace.tla", [{"id": 1, "kind": "case", "c": probe["c"], "obs": [bad_obs]},
                                                     {"id": 2, "kind": "case", "c": probe["c"], "obs": probe["obs"]},
                                                     {"id": 3, "kind": "history", "h": hprobe["h"], "steps": hbad},
                                                     {"id": 4, "kind": "history", "h": hprobe["h"], "steps": hprobe["steps"]},
                                                     {"id": 5, "kind": "history", "h": hprobe["h"], "steps": hstale},
                                                     {"id": 6, "kind": "scale", "sc": sprobe["sc"], "obs": [so], "same": True},
                                                     {"id": 7, "kind": "scale", "sc": sprobe["sc"], "obs": sprobe["obs"], "same": True},
                                                     {"id": 8, "kind": "scale", "sc": sprobe["sc"], "obs": sprobe["obs"], "same": False}],
                              what="self-test: corrupted records rejected", workers=1)
    ctx.traces = saved
    if "rev_slice_len_ne_hist" not in rej.get(6, []) or 7 in rej or rej.get(8) != ["engines_differ"]:
        raise MachineryError("binding self-test failed: corrupted scale observation not rejected exactly (%s)" % rej)
    if 1 not in rej or 2 in rej or 3 not in rej or 4 in rej or rej.get(5) != ["1:reused_object_differs_from_fresh"]:
        raise MachineryError("binding self-test failed: corrupted histogram / history not rejected exactly (%s)" % rej)
    ctx.rule = ("every data array of length 1..%d over %d lattice values x every bin size %s / bin count %s x every min,max in "
                "%s or absent (exported from HistMC.tla), each in one of %d representations of the data argument x 4 entry points x 4 "
                "scalar kinds (covering design chosen by the model, all pairs with mode / limit pattern / entry present), concretised on "
                "a dyadic lattice the representation holds exactly and run through both engines with and without rev; every "
                "history of %d calls (6 bin specifications x rev x 4 limit patterns, calc_stats) on ONE Binner object over every "
                "array of length %s over %s (last call thinned 1:%d), each step judged and compared with a fresh object; plus %d seeded "
                "arrays up to length %d and %d seeded histories of 2..5 calls on arrays up to length %d; a case is distinct by its abstract record and "
                "non-trivial always (each has >=1 datum)" %
                (B["MaxLen"], len(B["Vals"]), sorted(B["BinSizes"]), sorted(B["NBinSet"]), sorted(B["LimVals"]),
                 len(REPS) + len(SCALAR_REPS), B["HDepth"], sorted(B["HLens"]), sorted(B["HVals"]), B["HThin"], nrand, maxlen, nhist, hmaxlen))
    ctx.exhaustive = True
    ctx.note(bounds={k: sorted(v) if isinstance(v, set) else v for k, v in B.items()}, offlattice_engine_pairs=noff,
             exported_cases=len(cases), exported_histories=len(hists), covering_design=design,
             simulated_long_histories=len(deep), calls_per_long_history=D["depth"], scale_cases=len(scales),
             scale_sizes=sorted(B["ScaleNs"]), world_sessions=len(worlds), world_long_sessions=len(wdeep),
             steps_per_long_session=WD["sim_depth"], world_designed_collisions=wdesign, world_object_kinds=WKINDS)
    ctx.assumptions = ["dyadic lattice: binary64 subtraction and quotient floor are exact unless the real quotient is an integer and the bin size inexact (those bins are unconstrained)",
                       "non-dyadic data/bin sizes off the lattice are compared engine-vs-engine only",
                       "equal-occupancy (nperbin) calls inside a history are judged by the partition clauses only (bin occupancy is C14's)",
                       "scale cases are judged through the concatenation law (checked by TLC on the small scope) on a run-length encoded projection of the returned arrays"]


def replay(ctx, case):
    if case.get("kind") == "offlattice":
        x, buf = represent(np.array(case["x"]), case.get("rep", "f8"))
        e = case.get("entry", "histogram")
        a, b = observe(x, case["kw"], "c", True, e, buf), observe(x, case["kw"], "py", True, e, buf)
        if (a["err"], a["hist"], a["rev"]) != (b["err"], b["hist"], b["rev"]):
            ctx.violation("histogram|engines_differ|offlattice", "C and Python engines differ", case)
        return
    if case.get("kind") in ("scale", "history", "lattice", None):
        fn, item = {"scale": (run_scale, (case.get("id", 1), case.get("sc"))), "history": (run_history, (case.get("id", 1), case.get("h")))
                    }.get(case.get("kind"), (run_case, (case.get("concrete", 0), case.get("c"))))
        got, dead = _split_crashes(safe_pmap(fn, [item]))
        report_crashes(ctx, dead, "replay")
        if dead:
            return
    if case.get("kind") == "world_group":                         # the sessions that shared a process, again in one fresh process
        recs = run_world_group([tuple(a) for a in case["sessions"]])
        print("replay observed:", recs[-1].get("outs", recs[-1]))
        judge_world(ctx, recs[-1:], "replay")
        return
    if case.get("kind") == "world":
        rec = run_world((case.get("id", 1), case["w"]))           # the whole session again, in a fresh process of its own
        print("replay observed:", rec.get("outs", rec))
        judge_world(ctx, [rec], "replay")
        return
    if case.get("kind") == "scale":
        rec = run_scale((case.get("id", 1), case["sc"]))
        print("replay observed:", rec["obs"], "engines same:", rec["same"])
        judge_scale(ctx, [rec], "replay")
        return
    if case.get("kind") == "history":
        rec = run_history((case.get("id", 1), case["h"]))
        print("replay observed:", rec["steps"])
        judge_histories(ctx, [rec], "replay")
        return
    k = case.get("concrete", 0)
    rec = run_case((k, case["c"]))
    print("replay observed:", rec["obs"])
    judge(ctx, [rec], "replay")
