"""C06 - array matching is sound and complete; de-duplication keeps one per value.

spec -> code : ArrayMatchMC.tla enumerates every (a1, a2) pair and every (array, flags)
               pair of the bounded space over small abstract integers and attaches to
               each case representations from a covering design (ChooseReps): element
               type of each argument (i1..i8, u1..u8, f4, f8, byte / unicode strings,
               bool flags; the two arguments of match also of different types),
               placement of the values in the types' ranges (both ends of the range,
               type minimum / maximum, +-inf, +-0.0, the empty string, values the narrower
               of two types cannot hold), byte order, layout (contiguous, strided,
               reversed, unaligned, read-only, python list, 0-d / numpy / python scalar).
               vh/c06_reps.py turns (case, representation) into concrete arguments; each
               is run through match / match_multi (+presorted) or unique / rem_dup
               (+values=True).
code -> spec : what the real code returned (indices as returned, values mapped back
               through the injection) - for those replays and for larger seeded
               arrays - is written as ndjson and judged by ArrayMatchTrace.tla
               (the property-level clauses of ArrayMatch.tla; it also re-checks that
               every representation used is one the specification admits).
world        : ArrayMatchWorld.tla is a world machine: sessions of match / match_multi calls over two array
               objects in ONE process interleaved with the caller's steps Mutate (contents overwritten - a
               read-only view / read-only memory map through the caller's writeable buffer / second map -
               and the SAME object passed again), Replace (object dropped, a new one at its name / address),
               Scribble (the caller overwrites index arrays it was handed), and calls passing the same
               object twice.  TLC proves WorldFresh (every call = its outcome in a fresh world) for the
               mechanism as written and refutes it for three deviating mechanisms (sort order remembered by
               object identity; by address beyond death; remembered result arrays handed out).  Sessions
               are drawn by tlc -simulate, each executed in one fresh forked process, and every call is
               judged by ArrayMatchTrace.tla for the contents the arguments had at the time of the call.
Python never judges a result; it only maps abstract <-> concrete and records.
"""
import os
import random
import threading
from concurrent.futures import ThreadPoolExecutor

import numpy as np

from .. import c06_reps as R
from .. import tracecheck
from ..core import MachineryError
from ..par import pmap
from ..tlc import cfg

NEEDS_EXT = True     # "import esutil" itself needs the compiled recfile extension (build is cached)
KMAX = R.KMAX
REP_FIELDS = ("t1", "t2", "p1", "p2", "o1", "o2", "l1", "l2")


# ---------------------------------------------------------------------------------
# recording
# ---------------------------------------------------------------------------------
def _call(fn, *a, **kw):
    import warnings
    try:
        with warnings.catch_warnings():
            warnings.simplefilter("ignore")
            return "none", fn(*a, **kw), ""
    except Exception as e:  # noqa - any exception is a rejection
        return "rejected", None, type(e).__name__


def _ints(x):
    return [int(v) for v in np.atleast_1d(x).tolist()]


def _obs(fn, err, i1=(), i2=(), vals=()):
    return {"fn": fn, "err": err, "i1": list(i1), "i2": list(i2), "vals": list(vals)}


def _snap(bufs):
    return [b.tobytes() for b in bufs]


def realise(c, rep, K):
    """-> the two concrete arguments (+ their buffers, + the value table of the first); raises R.Capacity"""
    if c["kind"] == "match":
        f1, f2 = R.value_injections(rep["t1"], rep["t2"], rep["p1"], K, c["a1"], c["a2"])
        t1 = R.check_increasing(f1, c["a1"] + c["a2"])
        t2 = R.check_increasing(f2, c["a1"] + c["a2"])
        if any(t1[v] != t2[v] for v in t1):
            raise MachineryError("the injections of the two arrays disagree (%s)" % R.rep_tag(rep))
        items1, items2 = [t1[v] for v in c["a1"]], [t2[v] for v in c["a2"]]
    else:
        fa = R.single_injection(rep["t1"], rep["p1"], K["a"])
        ff = R.single_injection(rep["t2"], rep["p2"], K["f"], zero_by_position=True)
        t1 = R.check_increasing(lambda v: fa(v, 0), c["a1"])
        R.check_increasing(lambda v: ff(v, 0), c["f"])
        items1 = [t1[v] for v in c["a1"]]
        items2 = [ff(v, j) for j, v in enumerate(c["f"])]
    x1, b1 = R.build(items1, rep["t1"], rep["o1"], rep["l1"])
    x2, b2 = R.build(items2, rep["t2"], rep["o2"], rep["l2"])
    return x1, x2, b1 + b2, t1


def observe_match(c, rep, K):
    """all call variants of one representation -> list of (observation, tag, exception, frame_ok)"""
    import esutil.numpy_util as nu
    x1, x2, bufs, _ = realise(c, rep, K)
    nondecreasing = all(c["a1"][i] <= c["a1"][i + 1] for i in range(len(c["a1"]) - 1))
    calls = [("match", nu.match, {}), ("match_multi", nu.match_multi, {})]
    if nondecreasing:
        calls += [("match_presorted", nu.match, {"presorted": True}),
                  ("match_multi_presorted", nu.match_multi, {"presorted": True})]
    out = []
    before = _snap(bufs)
    for fn, f, kw in calls:
        err, res, exc = _call(f, x1, x2, **kw)
        if err == "none":
            try:
                i1, i2 = res
                o = _obs(fn, err, _ints(i1), _ints(i2))
            except Exception:  # noqa - not a pair of index arrays: nothing the spec accepts
                o = _obs(fn, "none", [-1], [])
        else:
            o = _obs(fn, err)
        out.append((o, exc))
    frame = _snap(bufs) == before
    return [(o, R.rep_tag(rep), exc, frame) for o, exc in out]


def observe_dedup(c, rep, K):
    import esutil.numpy_util as nu
    a, f, bufs, table = realise(c, rep, K)
    inv = {}
    for v, item in table.items():
        inv[item] = v
    before = _snap(bufs)

    def back(x):
        return [inv.get(item, 0) for item in np.atleast_1d(x).tolist()]
    out = []
    err, res, exc = _call(nu.unique, a)
    out.append((_obs("unique", err, _ints(res) if err == "none" else ()), exc))
    err, res, exc = _call(nu.unique, a, values=True)
    out.append((_obs("unique_values", err, vals=back(res) if err == "none" else ()), exc))
    err, res, exc = _call(nu.rem_dup, a, f)
    out.append((_obs("rem_dup", err, _ints(res) if err == "none" else ()), exc))
    err, res, exc = _call(nu.rem_dup, a, f, values=True)
    if err == "none":
        try:
            idx, vals = res
            o = _obs("rem_dup_values", err, _ints(idx), vals=back(vals))
        except Exception:  # noqa
            o = _obs("rem_dup_values", "none", [-1])
    else:
        o = _obs("rem_dup_values", err)
    out.append((o, exc))
    frame = _snap(bufs) == before
    return [(o, R.rep_tag(rep), exc, frame) for o, exc in out]


def run_case(args):
    """-> {"id", "c", "reps", "obs": [distinct abstract observations], "who": [[rep numbers] per observation], ...}"""
    i, c, K, reps = args
    raw = []
    for k, rep in enumerate(reps):
        try:
            got = observe_match(c, rep, K) if c["kind"] == "match" else observe_dedup(c, rep, K)
        except R.Capacity:
            raise MachineryError("representation %s cannot hold case %s (K=%s)" % (R.rep_tag(rep), c, K))
        raw += [(o, k, exc, frame) for o, _, exc, frame in got]
    obs, who, excs, index = [], [], [], {}
    frame_bad = 0
    for o, k, exc, frame in raw:
        key = (o["fn"], o["err"], tuple(o["i1"]), tuple(o["i2"]), tuple(o["vals"]))
        if key not in index:
            index[key] = len(obs)
            obs.append(o); who.append([]); excs.append(exc)
        who[index[key]].append(k)
        frame_bad += (not frame)
    return {"id": i, "c": c, "K": K, "reps": list(reps), "obs": obs, "who": who, "exc": excs,
            "ncalls": len(raw), "frame_bad": frame_bad}


# ---------------------------------------------------------------------------------
def struct_class(c):
    if c["kind"] == "match":
        lo, hi = min(c["a1"]), max(c["a1"])
        above, below = any(v > hi for v in c["a2"]), any(v < lo for v in c["a2"])
        s = "a2_outside_both" if above and below else "a2_above_max" if above else "a2_below_min" if below else "a2_inside"
        if len(set(c["a1"])) < len(c["a1"]):
            s = "a1_repeats"
        return s
    return "first_is_min" if c["a1"][0] == min(c["a1"]) else "first_not_min"


ENTRY = {"match": "match", "match_presorted": "match(presorted=True)", "match_multi": "match_multi",
         "match_multi_presorted": "match_multi(presorted=True)", "unique": "unique", "unique_values": "unique(values=True)",
         "rem_dup": "rem_dup", "rem_dup_values": "rem_dup(values=True)"}
MACHINERY_CLAUSES = ("bad_record", "bad_representation")


FAMILY = {"i": "int", "u": "int", "b": "int", "f": "float", "S": "str", "U": "str"}


def rep_class(c, fn, clause, rep):
    """the structural feature of a representation that a signature may name: element families only
    (the kind of the flag array - signed / unsigned / float / bool - where the largest flag is at stake)"""
    k1, k2 = R.kind_of(rep["t1"]), R.kind_of(rep["t2"])
    if c["kind"] == "match":
        return FAMILY[k1] if FAMILY[k1] == FAMILY[k2] else "%s~%s" % (FAMILY[k1], FAMILY[k2])
    return "flag:" + k2 if fn.startswith("rem_dup") and clause == "flag_not_largest" else "arr:" + FAMILY[k1]


def judge(ctx, recs, what, batch=250000):
    rejects = {}
    for b in range(0, len(recs), batch):
        part = recs[b:b + batch]
        rejects.update(tracecheck.validate(ctx, "ArrayMatchTrace.tla",
                                           [{"id": r["id"], "c": r["c"], "reps": r["reps"], "obs": r["obs"]} for r in part],
                                           what=what + (" [%d]" % (b // batch + 1) if len(recs) > batch else ""),
                                           shard_size=20000))
    byid = {r["id"]: r for r in recs}
    for rid in sorted(rejects):
        r = byid[rid]
        groups = {}
        for k, fn, cl in rejects[rid]:
            if cl in MACHINERY_CLAUSES:
                raise MachineryError("ArrayMatchTrace rejects the record itself (%s): %s" % (cl, {x: r[x] for x in ("c", "reps")}))
            groups.setdefault((fn, cl), []).append(k - 1)
        for (fn, cl), ks in sorted(groups.items()):
            # the signature names the element kinds only when the failure depends on the representation
            failing = {j for k in ks for j in r["who"][k]}
            called = {j for o, w in zip(r["obs"], r["who"]) if o["fn"] == fn for j in w}
            classes = [""] if failing == called else sorted({"/" + rep_class(r["c"], fn, cl, r["reps"][j]) for j in failing})
            for cls in classes:
                mine = [k for k in ks if cls == "" or any("/" + rep_class(r["c"], fn, cl, r["reps"][j]) == cls for j in r["who"][k])]
                ctx.violation("%s|%s|%s%s" % (ENTRY.get(fn, fn), cl, struct_class(r["c"]), cls),
                              "numpy_util.%s result not allowed by ArrayMatch.tla: clause %s" % (ENTRY.get(fn, fn), cl),
                              {"kind": "lattice", "c": r["c"], "K": r["K"], "reps": r["reps"], "id": r["id"],
                               "observed": [dict(r["obs"][k], who=[R.rep_tag(r["reps"][j]) for j in r["who"][k][:4]],
                                                 exc=r["exc"][k]) for k in mine][:4]})
    return rejects


# ---------------------------------------------------------------------------------
# scale cases (ArrayMatch.tla section "scale"; designed by ArrayMatchMC!ChooseScale)
# ---------------------------------------------------------------------------------
def run_scale_case(args):
    """execute one scale case; the large results are recorded in the compressed form the laws judge:
    match -> block run-length encoding (AMBlockRLE) for the period of the second array; unique / rem_dup -> the
    returned indices (at most one per distinct value) and the values mapped back"""
    import esutil.numpy_util as nu
    i, c = args
    rep = c["rep"]
    obs, excs, ncalls = [], [], 0
    if c["kind"] == "smatch":
        g1, g2 = c["g1"], c["g2"]
        v1, v2 = R.gen_abstract(g1), R.gen_abstract(g2)
        lo1, hi1 = int(g1["o"]), int(g1["o"]) + int(g1["st"]) * (int(g1["w"]) - 1)
        base, step = R.dense_base(rep["t1"], rep["p1"], lo1, hi1)
        x1, b1 = R.build_np(R.dense_concrete(v1, rep["t1"], base, step), rep["t1"], rep["o1"], rep["l1"])
        x2, b2 = R.build_np(R.dense_concrete(v2, rep["t2"], base, step), rep["t2"], rep["o2"], rep["l2"])
        del v1, v2
        calls = [("match", nu.match, {}), ("match_multi", nu.match_multi, {})]
        if g1["m"] == 1 and g1["s"] == 0 and not g1["rev"]:
            calls += [("match_presorted", nu.match, {"presorted": True}),
                      ("match_multi_presorted", nu.match_multi, {"presorted": True})]
        before = _snap(b1 + b2) if x2.size < 200000 else None
        for fn, f, kw in calls:
            err, res, exc = _call(f, x1, x2, **kw)
            ncalls += 1
            o = {"fn": fn, "err": err, "nrle": 0, "rle": []}
            if err == "none":
                try:
                    enc = R.block_rle(res[0], res[1], int(g2["w"]))
                    if len(res) != 2 or enc is None:
                        raise ValueError
                    o["nrle"], o["rle"] = enc
                except Exception:  # noqa - not a pair of equally long index arrays: nothing the spec accepts
                    o["nrle"], o["rle"] = 1, [{"b0": -1, "cnt": 1, "i1": [], "i2": []}]
            obs.append(o); excs.append(exc)
        frame_bad = int(before is not None and _snap(b1 + b2) != before)
    else:
        ga, gf = c["ga"], c["gf"]
        va, vf = R.gen_abstract(ga, ga["struct"]), R.gen_abstract(gf)
        lo1, hi1 = int(ga["o"]), int(ga["o"]) + int(ga["st"]) * (int(ga["w"]) - 1)
        base, step = R.dense_base(rep["t1"], rep["p1"], lo1, hi1)
        a, b1 = R.build_np(R.dense_concrete(va, rep["t1"], base, step), rep["t1"], rep["o1"], rep["l1"])
        finj = R.single_injection(rep["t2"], rep["p2"], int(gf["w"]))
        table = [finj(v, 0) for v in range(1, int(gf["w"]) + 1)]
        if any(not x < y for x, y in zip(table, table[1:])) or not R.in_range(rep["t2"], table):
            raise MachineryError("flag placement %s/%s cannot hold %d levels" % (rep["t2"], rep["p2"], gf["w"]))
        fl, b2 = R.build_np(np.array(table, dtype=R.dtype_for(rep["t2"], "native", []))[vf - 1], rep["t2"], rep["o2"], rep["l2"])

        def back(x):      # concrete values -> abstract (0: not a lattice value)
            out = []
            for item in np.atleast_1d(x).tolist():
                q = item - base if isinstance(item, int) else item / step - base
                out.append(int(q) if q == int(q) else 0)
            return out
        before = _snap(b1 + b2)
        for fn, f, args_, kw in (("unique", nu.unique, (a,), {}), ("unique_values", nu.unique, (a,), {"values": True}),
                                 ("rem_dup", nu.rem_dup, (a, fl), {}), ("rem_dup_values", nu.rem_dup, (a, fl), {"values": True})):
            err, res, exc = _call(f, *args_, **kw)
            ncalls += 1
            o = _obs(fn, err)
            if err == "none":
                try:
                    if fn == "unique_values":
                        o["vals"] = back(res)
                    elif fn == "rem_dup_values":
                        o["i1"], o["vals"] = _ints(res[0]), back(res[1])
                        if len(res) != 2:
                            raise ValueError
                    else:
                        o["i1"] = _ints(res)
                except Exception:  # noqa
                    o["i1"] = [-1]
            obs.append(o); excs.append(exc)
        frame_bad = int(_snap(b1 + b2) != before)
    # identical observations of several entry points are judged once (fns: all the entry points that returned it)
    dobs, index = [], {}
    for o, exc in zip(obs, excs):
        key = repr({k: v for k, v in o.items() if k != "fn"}) if c["kind"] == "smatch" else repr(o)
        if key not in index:
            index[key] = len(dobs)
            dobs.append((o, exc, [o["fn"]]))
        else:
            dobs[index[key]][2].append(o["fn"])
    return {"id": i, "c": c, "reps": [rep], "obs": [o for o, _, _ in dobs], "exc": [e for _, e, _ in dobs],
            "fns": [f for _, _, f in dobs], "ncalls": ncalls, "frame_bad": frame_bad}


def scale_class(c):
    n = c["g2"]["n"] if c["kind"] == "smatch" else c["ga"]["n"]
    return "scale" + ("/n>=1e6" if n >= 10 ** 6 else "/n>=2^16" if n >= 65536 else "")


def judge_scale(ctx, recs, what):
    rejects = tracecheck.validate(ctx, "ArrayMatchTrace.tla", [{"id": r["id"], "c": r["c"], "reps": r["reps"], "obs": r["obs"]} for r in recs],
                                  what=what, shard_size=40)
    byid = {r["id"]: r for r in recs}
    for rid in sorted(rejects):
        r = byid[rid]
        for k, fn, cl in rejects[rid]:
            if cl in MACHINERY_CLAUSES:
                raise MachineryError("ArrayMatchTrace rejects the scale record itself (%s): %s" % (cl, r["c"]))
            o = dict(r["obs"][k - 1])
            if "rle" in o:          # keep the replay file small
                o["rle"] = [dict(e, i1=e["i1"][:8], i2=e["i2"][:8]) for e in o["rle"][:3]]
            else:
                o["i1"], o["vals"] = o["i1"][:16], o["vals"][:16]
            for fn2 in r["fns"][k - 1]:
                ctx.violation("%s|%s|%s" % (ENTRY.get(fn2, fn2), cl, scale_class(r["c"])),
                              "numpy_util.%s result on a large / dense case not allowed by the laws of ArrayMatch.tla: clause %s"
                              % (ENTRY.get(fn2, fn2), cl),
                              {"kind": "scale", "c": r["c"], "id": r["id"], "observed": [dict(o, fn=fn2, exc=r["exc"][k - 1])]})
    return rejects


# ---------------------------------------------------------------------------------
def _fits(c, rep, K):
    try:
        realise(c, rep, K)
        return True
    except R.Capacity:
        return False


def seeded_cases(rng, n, max1, max2, start_id, pools):
    """larger arrays, none / some / all matching, probes below and above a1's range, heavy ties;
    representations drawn from those the model attached to the exported cases (array layouts)"""
    out = []
    for k in range(n):
        K = rng.choice([8, 20, 60, 150, KMAX])
        if rng.random() < 0.55:
            n1 = rng.choice([1, 2, 5, 17, max1 // 2, max1])
            lo = rng.randrange(1, max(2, K // 3))
            hi = rng.randrange(min(K, lo + 1), K + 1)           # a1 lives in lo..hi, probes in 1..K
            n1 = max(1, min(n1, hi - lo + 1))
            pool = list(range(lo, hi + 1))
            a1 = rng.sample(pool, n1)
            if rng.random() < 0.25:
                a1.sort()                                         # presorted is exercised
            if rng.random() < 0.08 and n1 > 1:
                a1[rng.randrange(n1)] = a1[rng.randrange(n1)]    # possibly a repeat -> must be rejected
            n2 = rng.choice([1, 3, 10, max2 // 2, max2])
            mode = rng.choice(["none", "some", "all", "any"])
            s1 = sorted(set(a1))
            others = [v for v in range(1, K + 1) if v not in set(a1)] or s1
            if mode == "none":
                a2 = [rng.choice(others) for _ in range(n2)]
            elif mode == "all":
                a2 = [rng.choice(s1) for _ in range(n2)]
            elif mode == "some":
                a2 = [rng.choice(s1) if rng.random() < 0.5 else rng.choice(others) for _ in range(n2)]
            else:
                a2 = [rng.randrange(1, K + 1) for _ in range(n2)]
            c = {"kind": "match", "a1": a1, "a2": a2, "f": []}
            KK = K
        else:
            n1 = rng.choice([1, 2, 6, 25, max2 // 2, max2])
            nv = rng.choice([1, 2, 3, 7, K])
            a = [rng.randrange(1, min(nv, K) + 1) for _ in range(n1)]
            if rng.random() < 0.5 and n1 > 1:                    # make sure the first element is not the minimum
                j = a.index(max(a)); a[0], a[j] = a[j], a[0]
            nf = rng.choice([1, 2, 3, 8])
            c = {"kind": "dedup", "a1": a, "a2": [], "f": [rng.randrange(1, nf + 1) for _ in range(n1)]}
            KK = {"a": K, "f": nf}
        reps, tries = [], 0
        while len(reps) < 3 and tries < 200:
            tries += 1
            rep = rng.choice(pools[c["kind"]])
            if rep not in reps and _fits(c, rep, KK):
                reps.append(rep)
        if not reps:
            raise MachineryError("no representation fits seeded case %d" % k)
        out.append((start_id + k, c, KK, reps))
    return out


# ---------------------------------------------------------------------------------
# world sessions (ArrayMatch.tla section "world"; machine and sessions: ArrayMatchWorld.tla)
# ---------------------------------------------------------------------------------
WORLD_K = 7            # abstract values 1..7 (objects hold 2..6, the probes reach 1 and 7)
WORLD = {
    "quick": dict(mc=dict(WNObj=1, WLens={2}, WVals={2, 3}, WNProbes=1, WDepth=3), num=260, keep=120, depth=8),
    "thorough": dict(mc=dict(WNObj=1, WLens={2}, WVals={2, 3}, WNProbes=1, WDepth=4), num=2600, keep=1500, depth=10),
}
WORLD_SIM = dict(WNObj=2, WLens={3, 4}, WVals={2, 3, 4, 5, 6}, WNProbes=4, WTypes={"i8", "f8", "i2", "u4", "f4", "S", "U"},
                 WPlaces={"bottom", "top", "ends", "mid"}, WKinds={"rw", "roview", "memmap"}, WMinCalls=3, Thin=True,
                 DoExport=True, CacheMode="none")
WORLD_MODES = (("readonly_id", "the sort order of a read-only first array remembered by object identity"),
               ("id_noweak", "sort orders remembered by address and kept after the object died"),
               ("share_result", "remembered result arrays handed out to the caller"))


def _session_in_process(c):
    """execute one session on the real code in THIS process -> (observations, exception names)"""
    import gc
    import shutil
    import tempfile
    import esutil.numpy_util as nu
    t, place = c["t"], c["p"]
    inj = R.single_injection(t, place, WORLD_K)
    table = R.check_increasing(lambda v: inj(v, 0), range(1, WORLD_K + 1))
    inv = {item: v for v, item in table.items()}
    dt = R.dtype_for(t, "native", list(table.values()))
    tmp = [None]
    serial = [0]

    def items(a):
        return np.array([table[v] for v in a], dtype=dt)

    def make(kind, a):
        arr = items(a)
        if kind == "rw":
            return {"x": arr, "w": arr, "kind": kind}
        if kind == "roview":
            x = arr.view()
            x.flags.writeable = False
            return {"x": x, "w": arr, "kind": kind}
        if tmp[0] is None:
            tmp[0] = tempfile.mkdtemp(prefix="C06-world-")
        serial[0] += 1
        fn = os.path.join(tmp[0], "o%d.dat" % serial[0])
        arr.tofile(fn)
        return {"x": np.memmap(fn, dtype=dt, mode="r"), "w": np.memmap(fn, dtype=dt, mode="r+"), "kind": kind}

    def back(x):
        return [inv.get(item, 0) for item in np.asarray(x).tolist()]

    objs = [make(o["kind"], o["a"]) for o in c["objs"]]
    results, obs, excs = {}, [], []
    try:
        for k, s in enumerate(c["steps"], 1):
            o = s["o"] - 1
            if s["op"] == "call":
                x1 = objs[o]["x"]
                x2 = items(s["a"]) if s["src"] == 0 else objs[s["src"] - 1]["x"]
                vals = back(x1)
                f = nu.match_multi if s["fn"].startswith("match_multi") else nu.match
                kw = {"presorted": True} if s["fn"].endswith("presorted") else {}
                err, res, exc = _call(f, x1, x2, **kw)
                if err == "none":
                    try:
                        i1, i2 = res
                        ob = _obs(s["fn"], err, _ints(i1), _ints(i2), vals)
                        results[k] = res
                    except Exception:  # noqa - not a pair of index arrays: nothing the spec accepts
                        ob = _obs(s["fn"], "none", [-1], [], vals)
                else:
                    ob = _obs(s["fn"], err, vals=vals)
                obs.append(ob); excs.append(exc)
                continue
            if s["op"] == "mutate":
                objs[o]["w"][...] = items(s["a"])
                if objs[o]["kind"] == "memmap":
                    objs[o]["w"].flush()
            elif s["op"] == "replace":
                kind = objs[o]["kind"]
                objs[o] = None
                gc.collect()
                objs[o] = make(kind, s["a"])
            elif s["op"] == "scribble":
                for arr in (results.get(s["o"]) or ()):
                    try:
                        arr[...] = 10 ** 6          # the caller's arrays now: any later result showing this is not fresh
                    except Exception:  # noqa - a result the caller cannot write to: the statement is silent
                        pass
            obs.append(_obs("step", "none")); excs.append("")
    finally:
        del objs
        gc.collect()
        if tmp[0] is not None:
            shutil.rmtree(tmp[0], ignore_errors=True)
    return obs, excs


def run_session(args):
    """one session = one fresh process (forked from this one, esutil imported, no call made yet)"""
    import json
    i, c = args
    rd, wr = os.pipe()
    pid = os.fork()
    if pid == 0:
        code = 0
        try:
            os.close(rd)
            try:
                out = {"ok": _session_in_process(c)}
            except BaseException as e:  # noqa - reported to the parent as machinery trouble
                out = {"fail": "%s: %s" % (type(e).__name__, e)}
            with os.fdopen(wr, "w") as f:
                f.write(json.dumps(out))
        except BaseException:  # noqa
            code = 1
        finally:
            os._exit(code)
    os.close(wr)
    with os.fdopen(rd) as f:
        data = f.read()
    _, status = os.waitpid(pid, 0)
    if status != 0 or not data:
        raise MachineryError("session process died (status %s): %s" % (status, c))
    out = json.loads(data)
    if "fail" in out:
        raise MachineryError("session could not be executed (%s): %s" % (out["fail"], c))
    obs, excs = out["ok"]
    return {"id": i, "c": c, "reps": [], "obs": obs, "exc": excs, "ncalls": sum(1 for s in c["steps"] if s["op"] == "call")}


def session_class(c, k):
    """what the caller did to the first argument of call k since the previous call on it"""
    s = c["steps"][k - 1]
    tag, seen = "first_call", False
    for q in c["steps"][:k - 1]:
        if q["op"] == "call" and q["o"] == s["o"]:
            tag, seen = "unchanged_since_last_call", True
        elif q["op"] == "mutate" and q["o"] == s["o"] and seen:
            tag = "contents_changed_since_last_call"
        elif q["op"] == "replace" and q["o"] == s["o"]:
            tag, seen = "new_object_under_the_name", False
    if tag == "unchanged_since_last_call" and any(q["op"] == "scribble" for q in c["steps"][:k - 1]):
        tag = "earlier_result_scribbled"
    return "session/%s/%s" % (c["objs"][s["o"] - 1]["kind"], tag)


def judge_sessions(ctx, recs, what):
    rejects = tracecheck.validate(ctx, "ArrayMatchTrace.tla", [{"id": r["id"], "c": r["c"], "reps": [], "obs": r["obs"]} for r in recs],
                                  what=what, shard_size=2000)
    byid = {r["id"]: r for r in recs}
    for rid in sorted(rejects):
        r = byid[rid]
        for k, fn, cl in rejects[rid]:
            if cl in MACHINERY_CLAUSES:
                raise MachineryError("ArrayMatchTrace rejects the session record itself (%s, step %s): %s" % (cl, k, r["c"]))
            ctx.violation("%s|%s|%s" % (ENTRY.get(fn, fn), cl, session_class(r["c"], k)),
                          "numpy_util.%s inside a session of calls in one process: result not allowed by ArrayMatch.tla for the contents "
                          "the arguments had at the time of the call: clause %s" % (ENTRY.get(fn, fn), cl),
                          {"kind": "session", "c": r["c"], "id": r["id"], "step": k,
                           "observed": [dict(r["obs"][k - 1], exc=r["exc"][k - 1])]})
    return rejects


def world_stats(sessions):
    st = {"ro_changed_then_passed_again": 0, "rw_changed_then_passed_again": 0, "replaced_then_called": 0, "scribbled_then_called": 0,
          "same_object_twice": 0, "memmap": 0}
    for c in sessions:
        tags = {session_class(c, k) for k, s in enumerate(c["steps"], 1) if s["op"] == "call" and not s["fn"].endswith("presorted")}
        st["ro_changed_then_passed_again"] += any(x.endswith("contents_changed_since_last_call") and "/rw/" not in x for x in tags)
        st["rw_changed_then_passed_again"] += any(x.endswith("contents_changed_since_last_call") and "/rw/" in x for x in tags)
        st["replaced_then_called"] += any(x.endswith("new_object_under_the_name") for x in tags)
        st["scribbled_then_called"] += any(x.endswith("earlier_result_scribbled") for x in tags)
        st["same_object_twice"] += any(s["op"] == "call" and s["src"] == s["o"] for s in c["steps"])
        st["memmap"] += any(o["kind"] == "memmap" for o in c["objs"])
    return st


BOUNDS = {
    "quick": dict(
        export=dict(MaxLen1=3, MaxLen2=3, RepLen2=2, A1Vals=set(range(2, 7)), A2Vals=set(range(1, 8)),
                    MaxLenD=4, DVals=set(range(1, 5)), FVals={1, 2, 3}, NReps=4),
        mech=dict(MaxLen1=3, MaxLen2=2, RepLen2=1, A1Vals=set(range(2, 6)), A2Vals=set(range(1, 7)),
                  MaxLenD=4, DVals={1, 2, 3}, FVals={1, 2}, NReps=0),
        shards=dict(match=2, dedup=1), seeded=(400, 40, 60),
        scale=dict(ScaleN2={1023, 1024, 1025, 65535, 65536, 65537, 999999, 1000000, 1048577},
                   ScaleND={65535, 65536, 100003}, ScaleReps=1, ScaleBigStride=3), laws=dict(LawLen=2, GenN=6)),
    "thorough": dict(
        export=dict(MaxLen1=4, MaxLen2=4, RepLen2=2, A1Vals=set(range(2, 7)), A2Vals=set(range(1, 8)),
                    MaxLenD=5, DVals=set(range(1, 5)), FVals={1, 2, 3}, NReps=6),
        mech=dict(MaxLen1=3, MaxLen2=3, RepLen2=2, A1Vals=set(range(2, 7)), A2Vals=set(range(1, 8)),
                  MaxLenD=4, DVals=set(range(1, 5)), FVals={1, 2, 3}, NReps=0),
        shards=dict(match=16, dedup=8), seeded=(4000, 150, 250),
        scale=dict(ScaleN2={1023, 1024, 1025, 65535, 65536, 65537, 999999, 1000000, 1048575, 1048576, 1048577, 2097153, 3145728},
                   ScaleND={65535, 65536, 65537, 100003, 1048577}, ScaleReps=3, ScaleBigStride=1), laws=dict(LawLen=3, GenN=7)),
}
ALL_ACTIONS = ["ChooseA1", "ChooseA2", "ChooseArr", "ChooseFlags", "MSort", "MGuard", "MSearch", "MClamp", "MFilter",
               "UBegin", "UStep", "UEnd", "RBegin", "RStep", "REnd", "ChooseGen"]


class Coverage:
    """vacuity guard of the covering design: which combinations of representation choices the exported cases met"""

    def __init__(self):
        self.pairs, self.side, self.lay2, self.flag, self.dval = set(), set(), set(), set(), set()

    def add(self, kind, rep):
        if kind == "match":
            self.pairs.add((rep["t1"], rep["t2"], rep["p1"]))
            self.side.add((1, rep["t1"], rep["l1"])); self.side.add((2, rep["t2"], rep["l2"]))
            self.side.add((1, rep["t1"], rep["o1"])); self.side.add((2, rep["t2"], rep["o2"]))
            self.lay2.add((rep["l1"], rep["l2"]))
        else:
            self.flag.add((rep["t2"], rep["p2"])); self.flag.add((rep["t2"], rep["l2"])); self.flag.add((rep["t2"], rep["o2"]))
            self.dval.add((rep["t1"], rep["p1"])); self.dval.add((rep["t1"], rep["l1"])); self.dval.add((rep["t1"], rep["o1"]))
            self.lay2.add(("d", rep["l1"], rep["l2"]))

    def missing(self, design, kinds):
        """combinations the specification admits (DESIGN record printed by the model) that no exported case carries"""
        miss = []
        has_order = lambda t: t[0] == "U" or (t[0] in "iuf" and t[1] != "1")   # noqa: E731
        if "match" in kinds:
            miss += [("pair", tuple(p)) for p in design["pairs"] if tuple(p) not in self.pairs]
            lays = list(design["layouts"]) + list(design["scalars"])
            for side in (1, 2):
                for t in design["values"]:
                    miss += [("side", side, t, l) for l in lays if (side, t, l) not in self.side]
                    miss += [("side", side, t, o) for o in (("native", "swapped") if has_order(t) else ("native",))
                             if (side, t, o) not in self.side]
            miss += [("layouts", a, b) for a in lays for b in lays if (a, b) not in self.lay2]
        if "dedup" in kinds:
            for t in design["flags"]:
                miss += [("flag", t, x) for x in list(design["places"]) + list(design["layouts"]) if (t, x) not in self.flag]
                miss += [("flag", t, "swapped") for _ in [0] if has_order(t) and (t, "swapped") not in self.flag]
            for t in design["values"]:
                miss += [("arr", t, x) for x in list(design["places"]) + list(design["layouts"]) if (t, x) not in self.dval]
                miss += [("arr", t, "swapped") for _ in [0] if has_order(t) and (t, "swapped") not in self.dval]
            miss += [("layouts", "d", a, b) for a in design["layouts"] for b in design["layouts"] if ("d", a, b) not in self.lay2]
        return miss


def run(ctx):
    B = BOUNDS[ctx.tier]
    bad = R.selftest()
    if bad:
        raise MachineryError("placements not order preserving under numpy's ordering: %s" % bad[:5])
    noscale = dict(ScaleN2=set(), ScaleND=set(), ScaleReps=0, ScaleSeed=0, ScaleBigStride=1)
    fixed = dict(ClampMode="code", SeedSorted=True, DoExport=False, ShardCount=1, ShardIndex=0, **dict(noscale, **B["laws"]))
    # 1. design level: the implementation-shaped mechanisms refine the property on every case of the space
    ctx.tlc("ArrayMatchMC.tla", what="mechanisms refine property (exhaustive)",
            cfg_text=cfg(constants=dict(B["mech"], **fixed),
                         invariants=["MechRefines", "MechIsRef", "RefAccepted", "RefRejects", "RefDedup",
                                     # the laws that decide large cases from small ones (ArrayMatch.tla, section "scale")
                                     "LinearAgrees", "ConcatLaw", "BlockJudgeAgrees", "GenDedupAgrees"]),
            workers=16, require=ALL_ACTIONS, timeout=3000)
    # 1b. non-vacuity of MechRefines: the deviating variants must violate it (the first one is the pinned unique())
    small = dict(B["mech"], MaxLen1=2, MaxLen2=2, MaxLenD=3)
    for what, dev in (("unique() seeded from arr[0]", dict(SeedSorted=False)), ("match() without the high-end clamp", dict(ClampMode="never"))):
        r = ctx.tlc("ArrayMatchMC.tla", what="self-test: %s violates MechRefines" % what,
                    cfg_text=cfg(constants=dict(small, **dict(fixed, GenN=0, **dev)), invariants=["MechRefines"]),
                    workers=4, allow_violation=True, coverage=False)
        if "MechRefines" not in r.violated:
            raise MachineryError("self-test failed: MechRefines not violated by the deviating mechanism (%s)" % what)
    # 2. export every case with its representations (spec -> code), replay it, judge the recorded observations
    #    (code -> spec); two exports (match pairs / de-duplication pairs, run side by side) processed in chunks
    K = {"match": max(B["export"]["A2Vals"]), "dedup": {"a": max(B["export"]["DVals"]), "f": max(B["export"]["FVals"])}}
    state = dict(nid=0, ncalls=0, frame_bad=0, probe=None, dprobe=None, exported=0)
    cover = Coverage()
    pending, intern, reptable, used, lock = [], {}, [], {"match": set(), "dedup": set()}, threading.Lock()
    pools = {"match": {}, "dedup": {}}

    def process(jobs, what, chunk=100000):
        """jobs: run_case argument tuples, or compact (id, kind, a1, a2, f, rep numbers) tuples expanded chunk by chunk"""
        for b0 in range(0, len(jobs), chunk):
            part = [j if len(j) == 4 else (j[0], {"kind": j[1], "a1": list(j[2]), "a2": list(j[3]), "f": list(j[4])}, K[j[1]],
                                           [reptable[x] for x in j[5]]) for j in jobs[b0:b0 + chunk]]
            recs = pmap(run_case, part)
            del part
            for r in recs:
                ctx.count(r["c"])
                state["ncalls"] += r["ncalls"]
                state["frame_bad"] += r["frame_bad"]
            ctx.evaluations += sum(r["ncalls"] - 1 for r in recs)
            for r in recs[:: max(1, len(recs) // 3)][:3]:
                ctx.sample({"case": r["c"], "representations": [R.rep_tag(x) for x in r["reps"]], "observed": r["obs"][:3]}, cap=8)
            if state["probe"] is None:
                state["probe"] = next((r for r in recs if r["c"]["kind"] == "match" and r["obs"][0]["err"] == "none"
                                       and len(r["obs"][0]["i2"]) >= 2), None)
            if state["dprobe"] is None:
                state["dprobe"] = next((r for r in recs if r["c"]["kind"] == "dedup" and len(set(r["c"]["a1"])) >= 2
                                        and r["c"]["a1"][0] == min(r["c"]["a1"])), None)
            judge(ctx, recs, what)

    def export(task):
        kind, shard, nshards = task
        if kind == "scale":       # the scale cases only: their sizes, and the seed rotates the design
            consts = dict(B["export"], **dict(fixed, DoExport=True, MaxLen1=0, MaxLenD=0, ScaleSeed=ctx.seed % 1000, **B["scale"]))
            r2 = ctx.tlc("ArrayMatchMC.tla", what="export scale cases (large / dense arrays given by generators)",
                         cfg_text=cfg(constants=consts, next_="NextExport", invariants=["ScaleDesignOK"], constraints=["Export"]),
                         workers=1, coverage=False, timeout=3000)
            cases = r2.records.get("SCALE", [])
            if not cases or r2.garbled:
                raise MachineryError("export of scale cases failed (%d cases, %d garbled)" % (len(cases), r2.garbled))
            return cases, None
        off = dict(MaxLenD=0) if kind == "match" else dict(MaxLen1=0)
        r2 = ctx.tlc("ArrayMatchMC.tla", what="export %s cases with representations [part %d/%d]" % (kind, shard + 1, nshards),
                     cfg_text=cfg(constants=dict(B["export"], **dict(fixed, DoExport=True, ShardCount=nshards, ShardIndex=shard, **off)),
                                  next_="NextExport", invariants=["RepDesignOK"], constraints=["Export"]),
                     workers=1, coverage=False, timeout=3000)
        cases = r2.records.get("CASE", [])
        design = (r2.records.get("DESIGN") or [None])[0]
        if not cases or r2.garbled or design is None or any(c["kind"] != kind or len(c["reps"]) < B["export"]["NReps"] for c in cases):
            raise MachineryError("export of %s cases failed (%d cases, %d garbled)" % (kind, len(cases), r2.garbled))
        # compact form (the parsed records of a large export are several hundred MB): tuples + numbered representations
        out = []
        with lock:
            for c in cases:
                ids = []
                for rep in c["reps"]:
                    key = tuple(rep[f] for f in REP_FIELDS)
                    if key not in intern:
                        intern[key] = len(reptable)
                        reptable.append(rep)
                    ids.append(intern[key])
                out.append((kind, tuple(c["a1"]), tuple(c["a2"]), tuple(c["f"]), tuple(ids)))
        return out, design

    W = WORLD[ctx.tier]
    wmc = dict(WORLD_SIM, **dict(W["mc"], WTypes={"i8"}, WPlaces={"mid"}, WKinds={"rw", "roview"}, WMinCalls=0, Thin=False, DoExport=False))

    def world(task):
        """the world machine (ArrayMatchWorld.tla): theorem, deviating mechanisms, simulated sessions"""
        if task == "mc":
            r = ctx.tlc("ArrayMatchWorld.tla", what="world machine: every call of every session = its outcome in a fresh world",
                        cfg_text=cfg(constants=wmc, invariants=["WorldFresh", "SessionsOK", "CurIsFold"]), workers=4,
                        require=["SetupRep", "SetupKinds", "SetupContents", "Call", "Mutate", "Replace", "Scribble"], timeout=3000)
            if r.distinct < 5000:
                raise MachineryError("world machine visited only %d states" % r.distinct)
            return None
        if task == "sim":
            r = ctx.tlc("ArrayMatchWorld.tla", what="simulate sessions (calls, MutateBase, Replace, Scribble over 2 objects)",
                        cfg_text=cfg(constants=dict(WORLD_SIM, WDepth=W["depth"]), constraints=["Export"]), workers=1, coverage=False,
                        timeout=3000, simulate="num=%d" % W["num"], extra=["-depth", str(W["depth"] + 8), "-seed", str(6000 + ctx.seed)])
            if r.garbled:
                raise MachineryError("export of sessions garbled (%d)" % r.garbled)
            return r.records.get("SESSION", [])
        r = ctx.tlc("ArrayMatchWorld.tla", what="self-test: %s violates WorldFresh" % dict(WORLD_MODES)[task],
                    cfg_text=cfg(constants=dict(wmc, CacheMode=task, WDepth=3), invariants=["WorldFresh"]), workers=2, allow_violation=True,
                    coverage=False)
        if "WorldFresh" not in r.violated:
            raise MachineryError("self-test failed: WorldFresh not violated by the deviating mechanism (%s)" % task)
        return None

    nsh = B["shards"]
    tasks = [("scale", 0, 1)] + [(kind, i, nsh[kind]) for kind in ("match", "dedup") for i in range(nsh[kind])]
    design, scale_cases = None, []
    with ThreadPoolExecutor(max(1, min(6, int(os.environ.get("VH_MAX_WORKERS", "16"))))) as ex:
        wfuts = [ex.submit(world, t) for t in ["sim", "mc"] + [m for m, _ in WORLD_MODES]]
        futs = [ex.submit(export, t) for t in tasks]
        sessions = [f.result() for f in wfuts][0]
        for (kind, shard, _), fut in zip(tasks, futs):
            if kind == "scale":
                scale_cases = fut.result()[0]
                continue
            cases, design = fut.result()
            jobs = [(state["nid"] + i,) + c for i, c in enumerate(cases, 1)]
            state["nid"] += len(jobs)
            state["exported"] += len(jobs)
            del cases
            pending.append((kind, shard, jobs))
    for kind, _, jobs in pending:
        for j in jobs:
            for x in set(j[5]):
                used[kind].add(x)
    for kind in ("match", "dedup"):
        for x in sorted(used[kind]):
            rep = reptable[x]
            cover.add(kind, rep)
            if rep["l1"] not in R.SCALAR_LAYOUTS and rep["l2"] not in R.SCALAR_LAYOUTS and rep["t2"] != "b1":
                pools[kind][tuple(rep[f] for f in REP_FIELDS)] = rep
    for kind in ("match", "dedup"):
        miss = cover.missing(design, [kind])
        if miss:
            raise MachineryError("the covering design misses %d admitted combinations, e.g. %s" % (len(miss), miss[:6]))
    for kind in ("match", "dedup"):
        jobs = [j for k, _, js in pending if k == kind for j in js]
        ctx.log("replaying %d exported %s cases x %d representations" % (len(jobs), kind, B["export"]["NReps"]))
        process(jobs, "judge replayed %s cases (ArrayMatchTrace)" % kind)
        del jobs
    del pending[:]
    # 2b. scale cases: executed on the real code, the (compressed) results judged through the laws by TLC
    scale_cases.sort(key=lambda c: -(c["g2"]["n"] if c["kind"] == "smatch" else 8 * c["ga"]["n"]))      # the long ones first
    guard = {"big": {c["g2"]["n"] for c in scale_cases if c["kind"] == "smatch" and c["g2"]["n"] >= 999999},
             "dense8": sum(1 for c in scale_cases if c["kind"] == "smatch" and c["rep"]["t1"] in ("i1", "u1")
                           and c["g1"]["st"] * (c["g1"]["n"] - 1) >= 128),
             "dense16": sum(1 for c in scale_cases if c["kind"] == "smatch" and c["rep"]["t1"] in ("i2", "u2")
                            and c["g1"]["st"] * (c["g1"]["n"] - 1) >= 32768),
             "dedup": sum(1 for c in scale_cases if c["kind"] == "sdedup")}
    if not ({999999, 1000000, 1048577} <= guard["big"]) or min(guard["dense8"], guard["dense16"], guard["dedup"]) < 2:
        raise MachineryError("scale design is vacuous: %s" % guard)
    ctx.log("executing %d scale cases (second arrays up to %d elements)" % (len(scale_cases), max(guard["big"])))
    srecs = pmap(run_scale_case, [(state["nid"] + i, c) for i, c in enumerate(scale_cases, 1)], chunk=1)
    state["nid"] += len(srecs)
    for r in srecs:
        ctx.count({k: v for k, v in r["c"].items()})
        state["ncalls"] += r["ncalls"]
        state["frame_bad"] += r["frame_bad"]
    ctx.evaluations += sum(r["ncalls"] - 1 for r in srecs)
    for r in srecs[:: max(1, len(srecs) // 2)][:2]:
        ctx.sample({"case": r["c"], "observed": [dict(o, rle=[dict(e, i1=e["i1"][:6], i2=e["i2"][:6]) for e in o["rle"][:2]]) if "rle" in o
                                                  else dict(o, i1=o["i1"][:6], vals=o["vals"][:6]) for o in r["obs"][:2]]}, cap=10)
    judge_scale(ctx, srecs, "judge scale cases by the laws (ArrayMatchTrace)")
    sprobe = next((r for r in srecs if r["c"]["kind"] == "smatch" and r["obs"][0]["err"] == "none" and r["obs"][0]["nrle"] >= 1
                   and r["obs"][0]["nrle"] == len(r["obs"][0]["rle"]) and r["obs"][0]["rle"][0]["cnt"] >= 2
                   and len(r["obs"][0]["rle"][0]["i2"]) >= 2 and r["c"]["g2"]["w"] < 2000), None)
    dsprobe = next((r for r in srecs if r["c"]["kind"] == "sdedup" and r["obs"][2]["err"] == "none" and r["c"]["ga"]["w"] <= 2048
                    and len(r["obs"][2]["i1"]) >= 2), None)
    nscale = len(srecs)
    del srecs
    # 2c. world sessions: each executed in ONE fresh process, every call judged by TLC for the contents at the time of the call
    seen, uniq = set(), []
    for c in sessions:
        key = repr(c)
        if key not in seen:
            seen.add(key)
            uniq.append(dict(c, kind="session"))
    sessions = uniq[:W["keep"]]
    wstats = world_stats(sessions)
    need = max(3, len(sessions) // 20)
    if len(sessions) < W["keep"] or any(len(c["steps"]) != W["depth"] for c in sessions) or \
            min(wstats[k] for k in ("ro_changed_then_passed_again", "rw_changed_then_passed_again", "replaced_then_called",
                                    "scribbled_then_called", "same_object_twice", "memmap")) < need:
        raise MachineryError("simulated sessions are too few / too thin (vacuity guard): %d kept, %s" % (len(sessions), wstats))
    ctx.log("executing %d sessions of %d steps, each in a fresh process" % (len(sessions), W["depth"]))
    wrecs = pmap(run_session, [(state["nid"] + i, c) for i, c in enumerate(sessions, 1)])
    state["nid"] += len(wrecs)
    for r in wrecs:
        ctx.count(r["c"])
        state["ncalls"] += r["ncalls"]
    ctx.evaluations += sum(r["ncalls"] - 1 for r in wrecs)
    ctx.sample({"session": wrecs[0]["c"], "observed": wrecs[0]["obs"]}, cap=12)
    judge_sessions(ctx, wrecs, "judge sessions call by call (ArrayMatchTrace)")
    wprobe = next((r for r in wrecs if any(o["fn"] == "match" and o["err"] == "none" and len(o["i2"]) >= 2 for o in r["obs"])), None)
    if wprobe is None:
        raise MachineryError("no session probe record for the binding self-test")
    wk = next(k for k, o in enumerate(wprobe["obs"]) if o["fn"] == "match" and o["err"] == "none" and len(o["i2"]) >= 2)
    wbad1 = [dict(o, i1=o["i1"][:-1], i2=o["i2"][:-1]) if k == wk else o for k, o in enumerate(wprobe["obs"])]
    wbad2 = [dict(o, vals=o["vals"][::-1] if o["vals"] != o["vals"][::-1] else o["vals"] + [1]) if k == wk else o
             for k, o in enumerate(wprobe["obs"])]
    nsess = len(wrecs)
    del wrecs
    # 3. larger seeded cases, code -> spec
    ns, max1, max2 = B["seeded"]
    pools = {k: [v[key] for key in sorted(v)] for k, v in pools.items()}
    process(seeded_cases(random.Random(ctx.seed), ns, max1, max2, state["nid"] + 1, pools), "judge seeded larger cases (ArrayMatchTrace)")
    # 4. binding self-test: corrupted observations must be rejected, the untouched ones accepted
    probe, dprobe = state["probe"], state["dprobe"]
    if probe is None or dprobe is None:
        raise MachineryError("no probe record for the binding self-test")
    bad1 = dict(probe["obs"][0]); bad1["i2"] = list(reversed(bad1["i2"])); bad1["i1"] = list(reversed(bad1["i1"]))
    bad2 = dict(probe["obs"][0]); bad2["i2"] = bad2["i2"][:-1]; bad2["i1"] = bad2["i1"][:-1]
    good3 = next(o for o in dprobe["obs"] if o["fn"] == "rem_dup")
    bad3 = dict(good3); bad3["i1"] = bad3["i1"] + [bad3["i1"][0]]
    badrep = dict(dprobe["reps"][0], l1="list")               # python lists are not in the de-duplication quantifier
    if sprobe is None or dsprobe is None:
        raise MachineryError("no scale probe record for the binding self-test")
    so = sprobe["obs"][0]
    e0 = so["rle"][0]
    # blocks out of order (what a result sorted by value looks like), and one index returned twice
    sbad1 = dict(so, nrle=so["nrle"] + 1, rle=[dict(e0, b0=e0["b0"] + 1, cnt=e0["cnt"] - 1), dict(e0, cnt=1)] + so["rle"][1:])
    sbad2 = dict(so, rle=[dict(e0, i1=e0["i1"][::-1], i2=e0["i2"][::-1])] + so["rle"][1:])
    dgood = dsprobe["obs"][2]
    dbad = dict(dgood, i1=dgood["i1"] + [dgood["i1"][0]])
    saved = ctx.traces
    rej = tracecheck.validate(ctx, "ArrayMatchTrace.tla",
                              [{"id": 1, "c": probe["c"], "reps": probe["reps"], "obs": [bad1]},
                               {"id": 2, "c": probe["c"], "reps": probe["reps"], "obs": [probe["obs"][0]]},
                               {"id": 3, "c": probe["c"], "reps": probe["reps"], "obs": [bad2]},
                               {"id": 4, "c": dprobe["c"], "reps": dprobe["reps"], "obs": [bad3]},
                               {"id": 5, "c": dprobe["c"], "reps": dprobe["reps"], "obs": [good3]},
                               {"id": 6, "c": dprobe["c"], "reps": [badrep], "obs": [good3]},
                               {"id": 7, "c": sprobe["c"], "reps": sprobe["reps"], "obs": [sbad1]},
                               {"id": 8, "c": sprobe["c"], "reps": sprobe["reps"], "obs": [sbad2]},
                               {"id": 9, "c": sprobe["c"], "reps": sprobe["reps"], "obs": [so]},
                               {"id": 10, "c": dsprobe["c"], "reps": dsprobe["reps"], "obs": [dbad]},
                               {"id": 11, "c": dsprobe["c"], "reps": dsprobe["reps"], "obs": [dgood]},
                               {"id": 12, "c": wprobe["c"], "reps": [], "obs": wbad1},
                               {"id": 13, "c": wprobe["c"], "reps": [], "obs": wbad2},
                               {"id": 14, "c": wprobe["c"], "reps": [], "obs": wprobe["obs"]}],
                              what="self-test: corrupted records rejected", workers=1)
    ctx.traces = saved
    want = {1: [[1, "match", "not_ordered_by_second_array"]], 3: [[1, "match", "matching_element_missing"]],
            4: [[1, "rem_dup", "not_one_index_per_value"]], 7: [[1, so["fn"], "not_ordered_by_second_array"]],
            8: [[1, so["fn"], "not_ordered_by_second_array"]], 10: [[1, "rem_dup", "not_one_index_per_value"]],
            12: [[wk + 1, "match", "matching_element_missing"]], 13: [[wk + 1, "match", "bad_record"]]}
    # (records 2, 5, 9, 11 are the untouched observations: rejected only if the real code is wrong there)
    if any(rej.get(k) != v for k, v in want.items()) or not any(cl == "bad_representation" for _, _, cl in rej.get(6, [])):
        raise MachineryError("binding self-test failed: %s" % rej)
    frame_bad, ncalls = state["frame_bad"], state["ncalls"]
    E = B["export"]
    ctx.rule = ("every first array of length 1..%d over %d values (repeats included: rejected) x every second array of length "
                "1..%d over %d values extending below and above (length 1..%d when a1 has repeats); every array of length 1..%d "
                "over %d values x every flag array over %d values (all exported from ArrayMatchMC.tla); each case in %d "
                "representations of a covering design enumerated by the model (element type of each argument - %d admitted "
                "(type, type, placement) combinations for match, %d flag types x 4 placements - x byte order x layout / "
                "container form; every admitted combination of two of these choices is met) and called as match / match_multi "
                "(+presorted when a1 is sorted) or unique / rem_dup (+values=True); plus %d seeded cases up to %d x %d; plus %d "
                "scale cases designed by the model (dense first arrays of 33..256 / 8193..65536 distinct values spanning a narrow "
                "integer type, and of 5..50021 values in 32/64-bit and float types, against periodic second arrays of %s elements of "
                "the same and wider types; generated arrays of %s elements for unique / rem_dup), judged through the laws "
                "LinearAgrees / ConcatLaw / BlockJudgeAgrees / GenDedupAgrees that TLC proves on the small scope; plus %d sessions "
                "of %d steps drawn by tlc -simulate from the world machine ArrayMatchWorld.tla (calls of match / match_multi "
                "(+presorted) on 2 array objects - writeable, read-only view of a writeable buffer, read-only memory map - of 7 "
                "element types x 4 placements, interleaved with Mutate / MutateBase, Replace and Scribble steps of the caller and "
                "calls passing the same object twice), each run in one fresh process; a case "
                "is distinct by its abstract record and non-trivial always" %
                (E["MaxLen1"], len(E["A1Vals"]), E["MaxLen2"], len(E["A2Vals"]), E["RepLen2"], E["MaxLenD"], len(E["DVals"]),
                 len(E["FVals"]), E["NReps"], len(design["pairs"]), len(design["flags"]), ns, max1, max2, nscale,
                 sorted(B["scale"]["ScaleN2"]), sorted(B["scale"]["ScaleND"]), nsess, W["depth"]))
    ctx.exhaustive = True
    ctx.note(bounds={t: {k: sorted(v) if isinstance(v, set) else v for k, v in B[t].items()} for t in ("export", "mech", "scale", "laws")},
             exported_cases=state["exported"], real_calls=ncalls, scale_cases=nscale, scale_guard={k: sorted(v) if isinstance(v, set) else v
                                                                                                 for k, v in guard.items()},
             representation_choices={k: sorted(v) if k != "pairs" else len(v) for k, v in design.items()},
             arguments_modified_by_calls=frame_bad, world_sessions=nsess, world_session_features=wstats)
    ctx.assumptions = ["abstract values are realised by strictly increasing injections (checked for every case on the exact values and "
                       "against numpy's own ordering at start): match/unique/rem_dup depend on order and equality only",
                       "64-bit unsigned with signed integers (numpy compares them through float64), byte with unicode strings, "
                       "large integers with floats, NaN and empty arrays are outside the quantifier",
                       "python lists and scalars are arguments of match only; the de-duplication helpers are given 1-d arrays",
                       "large cases are decided from small ones by laws of the specification (matching distributes over concatenation "
                       "of the second array; the clauses in linear / counting form), each checked by TLC against the clauses of the "
                       "statement on the small scope; the large second arrays are periodic, the large inputs of unique / rem_dup cyclic "
                       "or in runs",
                       "the outcome of a call depends on the contents of its two arguments at the time of the call only (the statement "
                       "speaks of the two arrays): sessions are sampled (tlc -simulate), so a clean run shows absence of such "
                       "dependence on the sampled sessions only; presorted=True is passed only when the promise holds at that time"]


def replay(ctx, case):
    if case.get("kind") == "session":          # the whole session, re-executed in one fresh process
        rec = run_session((1, case["c"]))
        for k, (st, o, e) in enumerate(zip(case["c"]["steps"], rec["obs"], rec["exc"]), 1):
            print("replay step %d:" % k, {x: st[x] for x in ("op", "o", "fn", "src", "a")}, "->", o if st["op"] == "call" else "", e)
        judge_sessions(ctx, [rec], "replay")
        return
    if case.get("kind") == "scale":
        rec = run_scale_case((1, case["c"]))
        for o, e in zip(rec["obs"], rec["exc"]):
            print("replay observed:", {k: (v if not isinstance(v, list) else v[:3]) for k, v in o.items()}, e)
        judge_scale(ctx, [rec], "replay")
        return
    rec = run_case((1, case["c"], case["K"], case["reps"]))
    for o, w, e in zip(rec["obs"], rec["who"], rec["exc"]):
        print("replay observed:", o, "by", [R.rep_tag(case["reps"][j]) for j in w[:3]], e)
    judge(ctx, [rec], "replay")
