"""C06 - array matching is sound and complete; de-duplication keeps one per value.

spec -> code : ArrayMatchMC.tla enumerates every (a1, a2) pair and every (array, flags)
               pair of the bounded space over small abstract integers; each case is
               realised through order-preserving injections (ints near the ends of
               the 64-bit ranges, floats, byte / unicode strings of mixed length) and
               run through match / match_multi (+presorted, +scalars) or
               unique / rem_dup (+values=True).
code -> spec : what the real code returned (indices as returned, values mapped back
               through the injection) - for those replays and for larger seeded
               arrays - is written as ndjson and judged by ArrayMatchTrace.tla
               (the property-level clauses of ArrayMatch.tla).
Python never judges a result; it only maps abstract <-> concrete and records.
"""
import itertools
import random

import numpy as np

from .. import tracecheck
from ..core import MachineryError
from ..par import pmap
from ..tlc import cfg

NEEDS_EXT = True     # "import esutil" itself needs the compiled recfile extension (build is cached)

# ---------------------------------------------------------------------------------
# realisations: order-preserving injections  v in 1..K  ->  concrete value
# ---------------------------------------------------------------------------------
def _words(alphabet, maxlen):
    out = [()]
    for n in range(1, maxlen + 1):
        out += list(itertools.product(range(len(alphabet)), repeat=n))
    out.sort()                      # lexicographic on alphabet positions, a prefix sorts first
    return out


_BALPH = [b"A", b"a", b"\xe9", b"\xff"]          # ascending as unsigned bytes
_UALPH = ["a", "é", "€", "\U0001d11e"]  # ascending code points (1, 2, 3, 4 utf-8 bytes)
_W = _words(range(4), 4)                          # 341 words of length 0..4 (the empty string included)
KMAX = len(_W)


def _word_index(v, K):
    return ((v - 1) * (len(_W) - 1)) // max(K - 1, 1)


def _centre(v, K):
    return (v - 1) - (K - 1) / 2.0


REALS = [
    # name, family, dtype (None: let numpy size the strings), injection(v, K), python scalar usable as argument
    ("i8_small",   "int",     "i8", lambda v, K: v - 4, True),
    ("i4_negative", "int",    "i4", lambda v, K: (v - K) * 100003 - 7, True),
    ("i8_top",     "int",     "i8", lambda v, K: 2 ** 63 - 1 - (K - v), False),
    ("i8_bottom",  "int",     "i8", lambda v, K: -2 ** 63 + (v - 1), False),
    ("u8_top",     "uint",    "u8", lambda v, K: 2 ** 64 - 1 - (K - v), False),
    ("u8_zero",    "uint",    "u8", lambda v, K: (v - 1) * 3, False),
    ("f8_huge",    "float",   "f8", lambda v, K: _centre(v, K) * (1e300 / K), True),
    ("f8_frac",    "float",   "f8", lambda v, K: _centre(v, K) * 0.1 - 0.05, True),
    ("f4",         "float",   "f4", lambda v, K: _centre(v, K) * 1.5e10, False),
    ("bytes",      "bytes",   None, lambda v, K: b"".join(_BALPH[i] for i in _W[_word_index(v, K)]), True),
    ("unicode",    "unicode", None, lambda v, K: "".join(_UALPH[i] for i in _W[_word_index(v, K)]), True),
]
RNAMES = [r[0] for r in REALS]
RBY = {r[0]: r for r in REALS}
# flags ("largest flag") get their own injections
FLAG_REALS = [("i8", lambda v: v - 2), ("f8", lambda v: (v - 2) * 0.25), ("i8", lambda v: -2 ** 63 + v),
              ("u8", lambda v: 2 ** 64 - 10 + v), ("i2", lambda v: v * 1000 - 2000)]


def realise(vals, rname, K):
    _, _, dt, inj, _ = RBY[rname]
    return np.array([inj(v, K) for v in vals], dtype=dt)


def inverse_table(rname, K, values):
    """concrete item -> abstract value, for the abstract values that occur"""
    arr = realise(sorted(set(values)), rname, K)
    return {item: v for item, v in zip(arr.tolist(), sorted(set(values)))}


def check_injections(K):
    """machinery self-check: every injection is strictly increasing under numpy's own ordering"""
    for name in RNAMES:
        a = realise(list(range(1, K + 1)), name, K)
        if a.size > 1 and not (np.all(a[:-1] < a[1:]) and np.all(np.argsort(a, kind="stable") == np.arange(a.size))
                               and np.all(np.searchsorted(a, a) == np.arange(a.size))):
            raise MachineryError("realisation %s is not order preserving for K=%d" % (name, K))
    for dt, f in FLAG_REALS:
        a = np.array([f(v) for v in range(1, 9)], dtype=dt)
        if not np.all(a[:-1] < a[1:]):
            raise MachineryError("flag realisation %s is not order preserving" % dt)


# ---------------------------------------------------------------------------------
# recording
# ---------------------------------------------------------------------------------
def _call(fn, *a, **kw):
    import warnings
    try:
        with warnings.catch_warnings():
            warnings.simplefilter("ignore")
            return "none", fn(*a, **kw), ""
    except Exception as e:  # noqa - any exception is a rejection
        return "rejected", None, type(e).__name__


def _ints(x):
    return [int(v) for v in np.atleast_1d(x).tolist()]


def _obs(fn, err, i1=(), i2=(), vals=()):
    return {"fn": fn, "err": err, "i1": list(i1), "i2": list(i2), "vals": list(vals)}


def observe_match(c, rname, K):
    """all call variants of one realisation -> list of (observation, variant tag, exception, frame_ok)"""
    import esutil.numpy_util as nu
    a1 = realise(c["a1"], rname, K)
    a2 = realise(c["a2"], rname, K)
    pyscalar = RBY[rname][4]
    forms1 = [("arr", a1)]
    forms2 = [("arr", a2)]
    if a1.size == 1:
        forms1.append(("npscalar", a1[0]))
        if pyscalar:
            forms1.append(("pyscalar", a1[0].item()))
    if a2.size == 1:
        forms2.append(("npscalar", a2[0]))
        if pyscalar:
            forms2.append(("pyscalar", a2[0].item()))
    nondecreasing = all(c["a1"][i] <= c["a1"][i + 1] for i in range(len(c["a1"]) - 1))
    out = []
    b1, b2 = a1.tobytes(), a2.tobytes()
    for (t1, x1), (t2, x2) in itertools.product(forms1, forms2):
        calls = [("match", nu.match, {}), ("match_multi", nu.match_multi, {})]
        if nondecreasing:
            calls += [("match_presorted", nu.match, {"presorted": True}),
                      ("match_multi_presorted", nu.match_multi, {"presorted": True})]
        for fn, f, kw in calls:
            err, res, exc = _call(f, x1, x2, **kw)
            if err == "none":
                try:
                    i1, i2 = res
                    o = _obs(fn, err, _ints(i1), _ints(i2))
                except Exception:  # noqa - not a pair of index arrays: nothing the spec accepts
                    o = _obs(fn, "none", [-1], [])
            else:
                o = _obs(fn, err)
            out.append((o, "%s/%s,%s" % (rname, t1, t2), exc, a1.tobytes() == b1 and a2.tobytes() == b2))
    return out


def observe_dedup(c, rname, K, fk):
    import esutil.numpy_util as nu
    a = realise(c["a1"], rname, K)
    fdt, finj = FLAG_REALS[fk % len(FLAG_REALS)]
    f = np.array([finj(v) for v in c["f"]], dtype=fdt)
    inv = inverse_table(rname, K, c["a1"])
    ba, bf = a.tobytes(), f.tobytes()

    def back(x):
        return [inv.get(item, 0) for item in np.atleast_1d(x).tolist()]
    out = []
    err, res, exc = _call(nu.unique, a)
    out.append((_obs("unique", err, _ints(res) if err == "none" else ()), exc))
    err, res, exc = _call(nu.unique, a, values=True)
    out.append((_obs("unique_values", err, vals=back(res) if err == "none" else ()), exc))
    err, res, exc = _call(nu.rem_dup, a, f)
    out.append((_obs("rem_dup", err, _ints(res) if err == "none" else ()), exc))
    err, res, exc = _call(nu.rem_dup, a, f, values=True)
    if err == "none":
        try:
            idx, vals = res
            o = _obs("rem_dup_values", err, _ints(idx), vals=back(vals))
        except Exception:  # noqa
            o = _obs("rem_dup_values", "none", [-1])
    else:
        o = _obs("rem_dup_values", err)
    out.append((o, exc))
    frame = a.tobytes() == ba and f.tobytes() == bf
    return [(o, "%s/flags=%s" % (rname, fdt), exc, frame) for o, exc in out]


def reals_for(i, n):
    """n realisations for case number i, rotating so that every realisation meets every region of the space"""
    if n >= len(RNAMES):
        return list(RNAMES)
    stride = 3 if len(RNAMES) % 3 else 1
    return [RNAMES[(i + k * stride) % len(RNAMES)] for k in range(n)]


def run_case(args):
    """-> {"id", "c", "obs": [distinct abstract observations], "who": [[tags] per observation], ...}"""
    i, c, K, rnames = args
    raw = []
    for k, rn in enumerate(rnames):
        raw += observe_match(c, rn, K) if c["kind"] == "match" else observe_dedup(c, rn, K, i + k)
    obs, who, excs, index = [], [], [], {}
    frame_bad = 0
    for o, tag, exc, frame in raw:
        key = (o["fn"], o["err"], tuple(o["i1"]), tuple(o["i2"]), tuple(o["vals"]))
        if key not in index:
            index[key] = len(obs)
            obs.append(o); who.append([]); excs.append(exc)
        who[index[key]].append(tag)
        frame_bad += (not frame)
    return {"id": i, "c": c, "K": K, "reals": list(rnames), "obs": obs, "who": who, "exc": excs,
            "ncalls": len(raw), "frame_bad": frame_bad}


# ---------------------------------------------------------------------------------
def struct_class(c):
    if c["kind"] == "match":
        lo, hi = min(c["a1"]), max(c["a1"])
        above, below = any(v > hi for v in c["a2"]), any(v < lo for v in c["a2"])
        s = "a2_outside_both" if above and below else "a2_above_max" if above else "a2_below_min" if below else "a2_inside"
        if len(set(c["a1"])) < len(c["a1"]):
            s = "a1_repeats"
        return s
    return "first_is_min" if c["a1"][0] == min(c["a1"]) else "first_not_min"


ENTRY = {"match": "match", "match_presorted": "match(presorted=True)", "match_multi": "match_multi",
         "match_multi_presorted": "match_multi(presorted=True)", "unique": "unique", "unique_values": "unique(values=True)",
         "rem_dup": "rem_dup", "rem_dup_values": "rem_dup(values=True)"}


def judge(ctx, recs, what, batch=250000):
    rejects = {}
    for b in range(0, len(recs), batch):
        part = recs[b:b + batch]
        rejects.update(tracecheck.validate(ctx, "ArrayMatchTrace.tla",
                                           [{"id": r["id"], "c": r["c"], "obs": r["obs"]} for r in part],
                                           what=what + (" [%d]" % (b // batch + 1) if len(recs) > batch else ""),
                                           shard_size=20000))
    byid = {r["id"]: r for r in recs}
    for rid in sorted(rejects):
        r = byid[rid]
        groups = {}
        for k, fn, cl in rejects[rid]:
            groups.setdefault((fn, cl), []).append(k - 1)
        for (fn, cl), ks in sorted(groups.items()):
            # the signature names the realisation family only when the failure is realisation dependent
            failing = {t.split("/")[0] for k in ks for t in r["who"][k]}
            called = {t.split("/")[0] for o, w in zip(r["obs"], r["who"]) if o["fn"] == fn for t in w}
            fam = "" if failing == called else "/" + "+".join(sorted({RBY[n][1] for n in failing}))
            ctx.violation("%s|%s|%s%s" % (ENTRY.get(fn, fn), cl, struct_class(r["c"]), fam),
                          "numpy_util.%s result not allowed by ArrayMatch.tla: clause %s" % (ENTRY.get(fn, fn), cl),
                          {"kind": "lattice", "c": r["c"], "K": r["K"], "reals": r["reals"], "id": r["id"],
                           "observed": [dict(r["obs"][k], who=r["who"][k][:4], exc=r["exc"][k]) for k in ks][:4]})
    return rejects


# ---------------------------------------------------------------------------------
def seeded_cases(rng, n, max1, max2, start_id):
    """larger arrays, none / some / all matching, probes below and above a1's range, heavy ties"""
    out = []
    for k in range(n):
        K = rng.choice([8, 20, 60, 150, KMAX])
        if rng.random() < 0.55:
            n1 = rng.choice([1, 2, 5, 17, max1 // 2, max1])
            lo = rng.randrange(1, max(2, K // 3))
            hi = rng.randrange(min(K, lo + 1), K + 1)           # a1 lives in lo..hi, probes in 1..K
            n1 = max(1, min(n1, hi - lo + 1))
            pool = list(range(lo, hi + 1))
            a1 = rng.sample(pool, n1)
            if rng.random() < 0.25:
                a1.sort()                                         # presorted is exercised
            if rng.random() < 0.08 and n1 > 1:
                a1[rng.randrange(n1)] = a1[rng.randrange(n1)]    # possibly a repeat -> must be rejected
            n2 = rng.choice([1, 3, 10, max2 // 2, max2])
            mode = rng.choice(["none", "some", "all", "any"])
            s1 = sorted(set(a1))
            others = [v for v in range(1, K + 1) if v not in set(a1)] or s1
            if mode == "none":
                a2 = [rng.choice(others) for _ in range(n2)]
            elif mode == "all":
                a2 = [rng.choice(s1) for _ in range(n2)]
            elif mode == "some":
                a2 = [rng.choice(s1) if rng.random() < 0.5 else rng.choice(others) for _ in range(n2)]
            else:
                a2 = [rng.randrange(1, K + 1) for _ in range(n2)]
            c = {"kind": "match", "a1": a1, "a2": a2, "f": []}
        else:
            n1 = rng.choice([1, 2, 6, 25, max2 // 2, max2])
            nv = rng.choice([1, 2, 3, 7, K])
            a = [rng.randrange(1, min(nv, K) + 1) for _ in range(n1)]
            if rng.random() < 0.5 and n1 > 1:                    # make sure the first element is not the minimum
                j = a.index(max(a)); a[0], a[j] = a[j], a[0]
            nf = rng.choice([1, 2, 3, 8])
            c = {"kind": "dedup", "a1": a, "a2": [], "f": [rng.randrange(1, nf + 1) for _ in range(n1)]}
        out.append((start_id + k, c, K, [RNAMES[(k + j * 4) % len(RNAMES)] for j in range(3)]))
    return out


BOUNDS = {
    "quick": dict(
        export=dict(MaxLen1=3, MaxLen2=3, RepLen2=2, A1Vals=set(range(2, 7)), A2Vals=set(range(1, 8)),
                    MaxLenD=4, DVals=set(range(1, 5)), FVals={1, 2, 3}),
        mech=dict(MaxLen1=3, MaxLen2=2, RepLen2=1, A1Vals=set(range(2, 6)), A2Vals=set(range(1, 7)),
                  MaxLenD=4, DVals={1, 2, 3}, FVals={1, 2}),
        nreal=4, seeded=(400, 40, 60)),
    "thorough": dict(
        export=dict(MaxLen1=4, MaxLen2=4, RepLen2=2, A1Vals=set(range(2, 7)), A2Vals=set(range(1, 8)),
                    MaxLenD=5, DVals=set(range(1, 5)), FVals={1, 2, 3}),
        mech=dict(MaxLen1=3, MaxLen2=3, RepLen2=2, A1Vals=set(range(2, 7)), A2Vals=set(range(1, 8)),
                  MaxLenD=4, DVals=set(range(1, 5)), FVals={1, 2, 3}),
        nreal=8, seeded=(4000, 150, 250)),
}
ALL_ACTIONS = ["ChooseA1", "ChooseA2", "ChooseArr", "ChooseFlags", "MSort", "MGuard", "MSearch", "MClamp", "MFilter",
               "UBegin", "UStep", "UEnd", "RBegin", "RStep", "REnd"]


def run(ctx):
    B = BOUNDS[ctx.tier]
    check_injections(7); check_injections(4); check_injections(KMAX)
    fixed = dict(ClampMode="code", SeedSorted=True, DoExport=False)
    # 1. design level: the implementation-shaped mechanisms refine the property on every case of the space
    ctx.tlc("ArrayMatchMC.tla", what="mechanisms refine property (exhaustive)",
            cfg_text=cfg(constants=dict(B["mech"], **fixed),
                         invariants=["MechRefines", "MechIsRef", "RefAccepted", "RefRejects", "RefDedup"]),
            workers=16, require=ALL_ACTIONS, timeout=3000)
    # 1b. non-vacuity of MechRefines: the deviating variants must violate it (the first one is the pinned unique())
    small = dict(B["mech"], MaxLen1=2, MaxLen2=2, MaxLenD=3)
    for what, dev in (("unique() seeded from arr[0]", dict(SeedSorted=False)), ("match() without the high-end clamp", dict(ClampMode="never"))):
        r = ctx.tlc("ArrayMatchMC.tla", what="self-test: %s violates MechRefines" % what,
                    cfg_text=cfg(constants=dict(small, **dict(fixed, **dev)), invariants=["MechRefines"]),
                    workers=4, allow_violation=True, coverage=False)
        if "MechRefines" not in r.violated:
            raise MachineryError("self-test failed: MechRefines not violated by the deviating mechanism (%s)" % what)
    # 2. export every case (spec -> code), replay it, judge the recorded observations (code -> spec);
    #    two exports (match pairs / de-duplication pairs) processed in chunks to bound memory
    K = {"match": max(B["export"]["A2Vals"]), "dedup": max(B["export"]["DVals"])}
    state = dict(nid=0, ncalls=0, frame_bad=0, probe=None, dprobe=None, exported=0)

    def process(jobs, what):
        for b0 in range(0, len(jobs), 200000):
            recs = pmap(run_case, jobs[b0:b0 + 200000])
            for r in recs:
                ctx.count(r["c"])
                state["ncalls"] += r["ncalls"]
                state["frame_bad"] += r["frame_bad"]
            ctx.evaluations += sum(r["ncalls"] - 1 for r in recs)
            for r in recs[:: max(1, len(recs) // 3)][:3]:
                ctx.sample({"case": r["c"], "realisations": r["reals"], "observed": r["obs"][:3]}, cap=8)
            if state["probe"] is None:
                state["probe"] = next((r for r in recs if r["c"]["kind"] == "match" and r["obs"][0]["err"] == "none"
                                       and len(r["obs"][0]["i2"]) >= 2), None)
            if state["dprobe"] is None:
                state["dprobe"] = next((r for r in recs if r["c"]["kind"] == "dedup" and len(set(r["c"]["a1"])) >= 2
                                        and r["c"]["a1"][0] == min(r["c"]["a1"])), None)
            judge(ctx, recs, what)

    for kind, off in (("match", dict(MaxLenD=0)), ("dedup", dict(MaxLen1=0))):
        r2 = ctx.tlc("ArrayMatchMC.tla", what="export %s cases" % kind,
                     cfg_text=cfg(constants=dict(B["export"], **dict(fixed, DoExport=True, **off)), next_="NextExport",
                                  constraints=["Export"]), workers=1, coverage=False, timeout=3000)
        cases = r2.records.get("CASE", [])
        if not cases or r2.garbled or any(c["kind"] != kind for c in cases):
            raise MachineryError("export of %s cases failed (%d cases, %d garbled)" % (kind, len(cases), r2.garbled))
        jobs = [(state["nid"] + i, c, K[kind], reals_for(i, B["nreal"])) for i, c in enumerate(cases, 1)]
        state["nid"] += len(jobs)
        state["exported"] += len(jobs)
        del cases, r2
        ctx.log("replaying %d exported %s cases x %d realisations" % (len(jobs), kind, B["nreal"]))
        process(jobs, "judge replayed %s cases (ArrayMatchTrace)" % kind)
        del jobs
    # 3. larger seeded cases, code -> spec
    ns, max1, max2 = B["seeded"]
    process(seeded_cases(random.Random(ctx.seed), ns, max1, max2, state["nid"] + 1), "judge seeded larger cases (ArrayMatchTrace)")
    # 4. binding self-test: corrupted observations must be rejected, the untouched ones accepted
    probe, dprobe = state["probe"], state["dprobe"]
    if probe is None or dprobe is None:
        raise MachineryError("no probe record for the binding self-test")
    bad1 = dict(probe["obs"][0]); bad1["i2"] = list(reversed(bad1["i2"])); bad1["i1"] = list(reversed(bad1["i1"]))
    bad2 = dict(probe["obs"][0]); bad2["i2"] = bad2["i2"][:-1]; bad2["i1"] = bad2["i1"][:-1]
    good3 = next(o for o in dprobe["obs"] if o["fn"] == "rem_dup")
    bad3 = dict(good3); bad3["i1"] = bad3["i1"] + [bad3["i1"][0]]
    saved = ctx.traces
    rej = tracecheck.validate(ctx, "ArrayMatchTrace.tla",
                              [{"id": 1, "c": probe["c"], "obs": [bad1]}, {"id": 2, "c": probe["c"], "obs": [probe["obs"][0]]},
                               {"id": 3, "c": probe["c"], "obs": [bad2]}, {"id": 4, "c": dprobe["c"], "obs": [bad3]},
                               {"id": 5, "c": dprobe["c"], "obs": [good3]}],
                              what="self-test: corrupted records rejected", workers=1)
    ctx.traces = saved
    want = {1: [[1, "match", "not_ordered_by_second_array"]], 3: [[1, "match", "matching_element_missing"]],
            4: [[1, "rem_dup", "not_one_index_per_value"]]}
    # (records 2 and 5 are the untouched observations: rejected only if the real code is wrong there)
    if any(rej.get(k) != v for k, v in want.items()):
        raise MachineryError("binding self-test failed: %s" % rej)
    frame_bad, ncalls = state["frame_bad"], state["ncalls"]
    E = B["export"]
    ctx.rule = ("every first array of length 1..%d over %d values (repeats included: rejected) x every second array of length "
                "1..%d over %d values extending below and above (length 1..%d when a1 has repeats); every array of length 1..%d "
                "over %d values x every flag array over %d values (all exported from ArrayMatchMC.tla); each case realised in %d of "
                "%d order-preserving injections (%s) and called as match / match_multi (+presorted when a1 is sorted, +numpy and "
                "python scalars for length 1) or unique / rem_dup (+values=True); plus %d seeded cases up to %d x %d; a case is "
                "distinct by its abstract record and non-trivial always" %
                (E["MaxLen1"], len(E["A1Vals"]), E["MaxLen2"], len(E["A2Vals"]), E["RepLen2"], E["MaxLenD"], len(E["DVals"]),
                 len(E["FVals"]), B["nreal"], len(RNAMES), ", ".join(RNAMES), ns, max1, max2))
    ctx.exhaustive = True
    ctx.note(bounds={t: {k: sorted(v) if isinstance(v, set) else v for k, v in B[t].items()} for t in ("export", "mech")},
             exported_cases=state["exported"], real_calls=ncalls, realisations=RNAMES,
             arguments_modified_by_calls=frame_bad)
    ctx.assumptions = ["abstract values are realised by strictly increasing injections (checked against numpy's own ordering at start): "
                       "match/unique/rem_dup depend on order and equality only",
                       "mixed signed/unsigned 64-bit pairs, NaN and empty arrays are outside the quantifier",
                       "a2 is realised with the same dtype as a1 (strings: same kind, possibly different width)"]


def replay(ctx, case):
    check_injections(max(case.get("K", 7), 2))
    rec = run_case((1, case["c"], case["K"], case["reals"]))
    for o, w, e in zip(rec["obs"], rec["who"], rec["exc"]):
        print("replay observed:", o, "by", w[:3], e)
    judge(ctx, [rec], "replay")
