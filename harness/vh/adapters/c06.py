"""C06 - array matching is sound and complete; de-duplication keeps one per value.

spec -> code : ArrayMatchMC.tla enumerates every (a1, a2) pair and every (array, flags)
               pair of the bounded space over small abstract integers and attaches to
               each case representations from a covering design (ChooseReps): element
               type of each argument (i1..i8, u1..u8, f4, f8, byte / unicode strings,
               bool flags; the two arguments of match also of different types),
               placement of the values in the types' ranges (both ends of the range,
               type minimum / maximum, +-inf, +-0.0, the empty string, values the narrower
               of two types cannot hold), byte order, layout (contiguous, strided,
               reversed, unaligned, read-only, python list, 0-d / numpy / python scalar).
               vh/c06_reps.py turns (case, representation) into concrete arguments; each
               is run through match / match_multi (+presorted) or unique / rem_dup
               (+values=True).
code -> spec : what the real code returned (indices as returned, values mapped back
               through the injection) - for those replays and for larger seeded
               arrays - is written as ndjson and judged by ArrayMatchTrace.tla
               (the property-level clauses of ArrayMatch.tla; it also re-checks that
               every representation used is one the specification admits).
Python never judges a result; it only maps abstract <-> concrete and records.
"""
import os
import random
from concurrent.futures import ThreadPoolExecutor

import numpy as np

from .. import c06_reps as R
from .. import tracecheck
from ..core import MachineryError
from ..par import pmap
from ..tlc import cfg

NEEDS_EXT = True     # "import esutil" itself needs the compiled recfile extension (build is cached)
KMAX = R.KMAX
REP_FIELDS = ("t1", "t2", "p1", "p2", "o1", "o2", "l1", "l2")


# ---------------------------------------------------------------------------------
# recording
# ---------------------------------------------------------------------------------
def _call(fn, *a, **kw):
    import warnings
    try:
        with warnings.catch_warnings():
            warnings.simplefilter("ignore")
            return "none", fn(*a, **kw), ""
    except Exception as e:  # noqa - any exception is a rejection
        return "rejected", None, type(e).__name__


def _ints(x):
    return [int(v) for v in np.atleast_1d(x).tolist()]


def _obs(fn, err, i1=(), i2=(), vals=()):
    return {"fn": fn, "err": err, "i1": list(i1), "i2": list(i2), "vals": list(vals)}


def _snap(bufs):
    return [b.tobytes() for b in bufs]


def realise(c, rep, K):
    """-> the two concrete arguments (+ their buffers, + the value table of the first); raises R.Capacity"""
    if c["kind"] == "match":
        f1, f2 = R.value_injections(rep["t1"], rep["t2"], rep["p1"], K, c["a1"], c["a2"])
        t1 = R.check_increasing(f1, c["a1"] + c["a2"])
        t2 = R.check_increasing(f2, c["a1"] + c["a2"])
        if any(t1[v] != t2[v] for v in t1):
            raise MachineryError("the injections of the two arrays disagree (%s)" % R.rep_tag(rep))
        items1, items2 = [t1[v] for v in c["a1"]], [t2[v] for v in c["a2"]]
    else:
        fa = R.single_injection(rep["t1"], rep["p1"], K["a"])
        ff = R.single_injection(rep["t2"], rep["p2"], K["f"], zero_by_position=True)
        t1 = R.check_increasing(lambda v: fa(v, 0), c["a1"])
        R.check_increasing(lambda v: ff(v, 0), c["f"])
        items1 = [t1[v] for v in c["a1"]]
        items2 = [ff(v, j) for j, v in enumerate(c["f"])]
    x1, b1 = R.build(items1, rep["t1"], rep["o1"], rep["l1"])
    x2, b2 = R.build(items2, rep["t2"], rep["o2"], rep["l2"])
    return x1, x2, b1 + b2, t1


def observe_match(c, rep, K):
    """all call variants of one representation -> list of (observation, tag, exception, frame_ok)"""
    import esutil.numpy_util as nu
    x1, x2, bufs, _ = realise(c, rep, K)
    nondecreasing = all(c["a1"][i] <= c["a1"][i + 1] for i in range(len(c["a1"]) - 1))
    calls = [("match", nu.match, {}), ("match_multi", nu.match_multi, {})]
    if nondecreasing:
        calls += [("match_presorted", nu.match, {"presorted": True}),
                  ("match_multi_presorted", nu.match_multi, {"presorted": True})]
    out = []
    before = _snap(bufs)
    for fn, f, kw in calls:
        err, res, exc = _call(f, x1, x2, **kw)
        if err == "none":
            try:
                i1, i2 = res
                o = _obs(fn, err, _ints(i1), _ints(i2))
            except Exception:  # noqa - not a pair of index arrays: nothing the spec accepts
                o = _obs(fn, "none", [-1], [])
        else:
            o = _obs(fn, err)
        out.append((o, exc))
    frame = _snap(bufs) == before
    return [(o, R.rep_tag(rep), exc, frame) for o, exc in out]


def observe_dedup(c, rep, K):
    import esutil.numpy_util as nu
    a, f, bufs, table = realise(c, rep, K)
    inv = {}
    for v, item in table.items():
        inv[item] = v
    before = _snap(bufs)

    def back(x):
        return [inv.get(item, 0) for item in np.atleast_1d(x).tolist()]
    out = []
    err, res, exc = _call(nu.unique, a)
    out.append((_obs("unique", err, _ints(res) if err == "none" else ()), exc))
    err, res, exc = _call(nu.unique, a, values=True)
    out.append((_obs("unique_values", err, vals=back(res) if err == "none" else ()), exc))
    err, res, exc = _call(nu.rem_dup, a, f)
    out.append((_obs("rem_dup", err, _ints(res) if err == "none" else ()), exc))
    err, res, exc = _call(nu.rem_dup, a, f, values=True)
    if err == "none":
        try:
            idx, vals = res
            o = _obs("rem_dup_values", err, _ints(idx), vals=back(vals))
        except Exception:  # noqa
            o = _obs("rem_dup_values", "none", [-1])
    else:
        o = _obs("rem_dup_values", err)
    out.append((o, exc))
    frame = _snap(bufs) == before
    return [(o, R.rep_tag(rep), exc, frame) for o, exc in out]


def run_case(args):
    """-> {"id", "c", "reps", "obs": [distinct abstract observations], "who": [[rep numbers] per observation], ...}"""
    i, c, K, reps = args
    raw = []
    for k, rep in enumerate(reps):
        try:
            got = observe_match(c, rep, K) if c["kind"] == "match" else observe_dedup(c, rep, K)
        except R.Capacity:
            raise MachineryError("representation %s cannot hold case %s (K=%s)" % (R.rep_tag(rep), c, K))
        raw += [(o, k, exc, frame) for o, _, exc, frame in got]
    obs, who, excs, index = [], [], [], {}
    frame_bad = 0
    for o, k, exc, frame in raw:
        key = (o["fn"], o["err"], tuple(o["i1"]), tuple(o["i2"]), tuple(o["vals"]))
        if key not in index:
            index[key] = len(obs)
            obs.append(o); who.append([]); excs.append(exc)
        who[index[key]].append(k)
        frame_bad += (not frame)
    return {"id": i, "c": c, "K": K, "reps": list(reps), "obs": obs, "who": who, "exc": excs,
            "ncalls": len(raw), "frame_bad": frame_bad}


# ---------------------------------------------------------------------------------
def struct_class(c):
    if c["kind"] == "match":
        lo, hi = min(c["a1"]), max(c["a1"])
        above, below = any(v > hi for v in c["a2"]), any(v < lo for v in c["a2"])
        s = "a2_outside_both" if above and below else "a2_above_max" if above else "a2_below_min" if below else "a2_inside"
        if len(set(c["a1"])) < len(c["a1"]):
            s = "a1_repeats"
        return s
    return "first_is_min" if c["a1"][0] == min(c["a1"]) else "first_not_min"


ENTRY = {"match": "match", "match_presorted": "match(presorted=True)", "match_multi": "match_multi",
         "match_multi_presorted": "match_multi(presorted=True)", "unique": "unique", "unique_values": "unique(values=True)",
         "rem_dup": "rem_dup", "rem_dup_values": "rem_dup(values=True)"}
MACHINERY_CLAUSES = ("bad_record", "bad_representation")


FAMILY = {"i": "int", "u": "int", "b": "int", "f": "float", "S": "str", "U": "str"}


def rep_class(c, fn, clause, rep):
    """the structural feature of a representation that a signature may name: element families only
    (the kind of the flag array - signed / unsigned / float / bool - where the largest flag is at stake)"""
    k1, k2 = R.kind_of(rep["t1"]), R.kind_of(rep["t2"])
    if c["kind"] == "match":
        return FAMILY[k1] if FAMILY[k1] == FAMILY[k2] else "%s~%s" % (FAMILY[k1], FAMILY[k2])
    return "flag:" + k2 if fn.startswith("rem_dup") and clause == "flag_not_largest" else "arr:" + FAMILY[k1]


def judge(ctx, recs, what, batch=250000):
    rejects = {}
    for b in range(0, len(recs), batch):
        part = recs[b:b + batch]
        rejects.update(tracecheck.validate(ctx, "ArrayMatchTrace.tla",
                                           [{"id": r["id"], "c": r["c"], "reps": r["reps"], "obs": r["obs"]} for r in part],
                                           what=what + (" [%d]" % (b // batch + 1) if len(recs) > batch else ""),
                                           shard_size=20000))
    byid = {r["id"]: r for r in recs}
    for rid in sorted(rejects):
        r = byid[rid]
        groups = {}
        for k, fn, cl in rejects[rid]:
            if cl in MACHINERY_CLAUSES:
                raise MachineryError("ArrayMatchTrace rejects the record itself (%s): %s" % (cl, {x: r[x] for x in ("c", "reps")}))
            groups.setdefault((fn, cl), []).append(k - 1)
        for (fn, cl), ks in sorted(groups.items()):
            # the signature names the element kinds only when the failure depends on the representation
            failing = {j for k in ks for j in r["who"][k]}
            called = {j for o, w in zip(r["obs"], r["who"]) if o["fn"] == fn for j in w}
            classes = [""] if failing == called else sorted({"/" + rep_class(r["c"], fn, cl, r["reps"][j]) for j in failing})
            for cls in classes:
                mine = [k for k in ks if cls == "" or any("/" + rep_class(r["c"], fn, cl, r["reps"][j]) == cls for j in r["who"][k])]
                ctx.violation("%s|%s|%s%s" % (ENTRY.get(fn, fn), cl, struct_class(r["c"]), cls),
                              "numpy_util.%s result not allowed by ArrayMatch.tla: clause %s" % (ENTRY.get(fn, fn), cl),
                              {"kind": "lattice", "c": r["c"], "K": r["K"], "reps": r["reps"], "id": r["id"],
                               "observed": [dict(r["obs"][k], who=[R.rep_tag(r["reps"][j]) for j in r["who"][k][:4]],
                                                 exc=r["exc"][k]) for k in mine][:4]})
    return rejects


# ---------------------------------------------------------------------------------
def _fits(c, rep, K):
    try:
        realise(c, rep, K)
        return True
    except R.Capacity:
        return False


def seeded_cases(rng, n, max1, max2, start_id, pools):
    """larger arrays, none / some / all matching, probes below and above a1's range, heavy ties;
    representations drawn from those the model attached to the exported cases (array layouts)"""
    out = []
    for k in range(n):
        K = rng.choice([8, 20, 60, 150, KMAX])
        if rng.random() < 0.55:
            n1 = rng.choice([1, 2, 5, 17, max1 // 2, max1])
            lo = rng.randrange(1, max(2, K // 3))
            hi = rng.randrange(min(K, lo + 1), K + 1)           # a1 lives in lo..hi, probes in 1..K
            n1 = max(1, min(n1, hi - lo + 1))
            pool = list(range(lo, hi + 1))
            a1 = rng.sample(pool, n1)
            if rng.random() < 0.25:
                a1.sort()                                         # presorted is exercised
            if rng.random() < 0.08 and n1 > 1:
                a1[rng.randrange(n1)] = a1[rng.randrange(n1)]    # possibly a repeat -> must be rejected
            n2 = rng.choice([1, 3, 10, max2 // 2, max2])
            mode = rng.choice(["none", "some", "all", "any"])
            s1 = sorted(set(a1))
            others = [v for v in range(1, K + 1) if v not in set(a1)] or s1
            if mode == "none":
                a2 = [rng.choice(others) for _ in range(n2)]
            elif mode == "all":
                a2 = [rng.choice(s1) for _ in range(n2)]
            elif mode == "some":
                a2 = [rng.choice(s1) if rng.random() < 0.5 else rng.choice(others) for _ in range(n2)]
            else:
                a2 = [rng.randrange(1, K + 1) for _ in range(n2)]
            c = {"kind": "match", "a1": a1, "a2": a2, "f": []}
            KK = K
        else:
            n1 = rng.choice([1, 2, 6, 25, max2 // 2, max2])
            nv = rng.choice([1, 2, 3, 7, K])
            a = [rng.randrange(1, min(nv, K) + 1) for _ in range(n1)]
            if rng.random() < 0.5 and n1 > 1:                    # make sure the first element is not the minimum
                j = a.index(max(a)); a[0], a[j] = a[j], a[0]
            nf = rng.choice([1, 2, 3, 8])
            c = {"kind": "dedup", "a1": a, "a2": [], "f": [rng.randrange(1, nf + 1) for _ in range(n1)]}
            KK = {"a": K, "f": nf}
        reps, tries = [], 0
        while len(reps) < 3 and tries < 200:
            tries += 1
            rep = rng.choice(pools[c["kind"]])
            if rep not in reps and _fits(c, rep, KK):
                reps.append(rep)
        if not reps:
            raise MachineryError("no representation fits seeded case %d" % k)
        out.append((start_id + k, c, KK, reps))
    return out


BOUNDS = {
    "quick": dict(
        export=dict(MaxLen1=3, MaxLen2=3, RepLen2=2, A1Vals=set(range(2, 7)), A2Vals=set(range(1, 8)),
                    MaxLenD=4, DVals=set(range(1, 5)), FVals={1, 2, 3}, NReps=4),
        mech=dict(MaxLen1=3, MaxLen2=2, RepLen2=1, A1Vals=set(range(2, 6)), A2Vals=set(range(1, 7)),
                  MaxLenD=4, DVals={1, 2, 3}, FVals={1, 2}, NReps=0),
        shards=dict(match=2, dedup=1), seeded=(400, 40, 60)),
    "thorough": dict(
        export=dict(MaxLen1=4, MaxLen2=4, RepLen2=2, A1Vals=set(range(2, 7)), A2Vals=set(range(1, 8)),
                    MaxLenD=5, DVals=set(range(1, 5)), FVals={1, 2, 3}, NReps=6),
        mech=dict(MaxLen1=3, MaxLen2=3, RepLen2=2, A1Vals=set(range(2, 7)), A2Vals=set(range(1, 8)),
                  MaxLenD=4, DVals=set(range(1, 5)), FVals={1, 2, 3}, NReps=0),
        shards=dict(match=8, dedup=4), seeded=(4000, 150, 250)),
}
ALL_ACTIONS = ["ChooseA1", "ChooseA2", "ChooseArr", "ChooseFlags", "MSort", "MGuard", "MSearch", "MClamp", "MFilter",
               "UBegin", "UStep", "UEnd", "RBegin", "RStep", "REnd"]


class Coverage:
    """vacuity guard of the covering design: which combinations of representation choices the exported cases met"""

    def __init__(self):
        self.pairs, self.side, self.lay2, self.flag, self.dval = set(), set(), set(), set(), set()

    def add(self, kind, rep):
        if kind == "match":
            self.pairs.add((rep["t1"], rep["t2"], rep["p1"]))
            self.side.add((1, rep["t1"], rep["l1"])); self.side.add((2, rep["t2"], rep["l2"]))
            self.side.add((1, rep["t1"], rep["o1"])); self.side.add((2, rep["t2"], rep["o2"]))
            self.lay2.add((rep["l1"], rep["l2"]))
        else:
            self.flag.add((rep["t2"], rep["p2"])); self.flag.add((rep["t2"], rep["l2"])); self.flag.add((rep["t2"], rep["o2"]))
            self.dval.add((rep["t1"], rep["p1"])); self.dval.add((rep["t1"], rep["l1"])); self.dval.add((rep["t1"], rep["o1"]))
            self.lay2.add(("d", rep["l1"], rep["l2"]))

    def missing(self, design, kinds):
        """combinations the specification admits (DESIGN record printed by the model) that no exported case carries"""
        miss = []
        has_order = lambda t: t[0] == "U" or (t[0] in "iuf" and t[1] != "1")   # noqa: E731
        if "match" in kinds:
            miss += [("pair", tuple(p)) for p in design["pairs"] if tuple(p) not in self.pairs]
            lays = list(design["layouts"]) + list(design["scalars"])
            for side in (1, 2):
                for t in design["values"]:
                    miss += [("side", side, t, l) for l in lays if (side, t, l) not in self.side]
                    miss += [("side", side, t, o) for o in (("native", "swapped") if has_order(t) else ("native",))
                             if (side, t, o) not in self.side]
            miss += [("layouts", a, b) for a in lays for b in lays if (a, b) not in self.lay2]
        if "dedup" in kinds:
            for t in design["flags"]:
                miss += [("flag", t, x) for x in list(design["places"]) + list(design["layouts"]) if (t, x) not in self.flag]
                miss += [("flag", t, "swapped") for _ in [0] if has_order(t) and (t, "swapped") not in self.flag]
            for t in design["values"]:
                miss += [("arr", t, x) for x in list(design["places"]) + list(design["layouts"]) if (t, x) not in self.dval]
                miss += [("arr", t, "swapped") for _ in [0] if has_order(t) and (t, "swapped") not in self.dval]
            miss += [("layouts", "d", a, b) for a in design["layouts"] for b in design["layouts"] if ("d", a, b) not in self.lay2]
        return miss


def run(ctx):
    B = BOUNDS[ctx.tier]
    bad = R.selftest()
    if bad:
        raise MachineryError("placements not order preserving under numpy's ordering: %s" % bad[:5])
    fixed = dict(ClampMode="code", SeedSorted=True, DoExport=False, ShardCount=1, ShardIndex=0)
    # 1. design level: the implementation-shaped mechanisms refine the property on every case of the space
    ctx.tlc("ArrayMatchMC.tla", what="mechanisms refine property (exhaustive)",
            cfg_text=cfg(constants=dict(B["mech"], **fixed),
                         invariants=["MechRefines", "MechIsRef", "RefAccepted", "RefRejects", "RefDedup"]),
            workers=16, require=ALL_ACTIONS, timeout=3000)
    # 1b. non-vacuity of MechRefines: the deviating variants must violate it (the first one is the pinned unique())
    small = dict(B["mech"], MaxLen1=2, MaxLen2=2, MaxLenD=3)
    for what, dev in (("unique() seeded from arr[0]", dict(SeedSorted=False)), ("match() without the high-end clamp", dict(ClampMode="never"))):
        r = ctx.tlc("ArrayMatchMC.tla", what="self-test: %s violates MechRefines" % what,
                    cfg_text=cfg(constants=dict(small, **dict(fixed, **dev)), invariants=["MechRefines"]),
                    workers=4, allow_violation=True, coverage=False)
        if "MechRefines" not in r.violated:
            raise MachineryError("self-test failed: MechRefines not violated by the deviating mechanism (%s)" % what)
    # 2. export every case with its representations (spec -> code), replay it, judge the recorded observations
    #    (code -> spec); two exports (match pairs / de-duplication pairs, run side by side) processed in chunks
    K = {"match": max(B["export"]["A2Vals"]), "dedup": {"a": max(B["export"]["DVals"]), "f": max(B["export"]["FVals"])}}
    state = dict(nid=0, ncalls=0, frame_bad=0, probe=None, dprobe=None, exported=0)
    cover = Coverage()
    pending = []
    pools = {"match": {}, "dedup": {}}

    def process(jobs, what):
        for b0 in range(0, len(jobs), 200000):
            recs = pmap(run_case, jobs[b0:b0 + 200000])
            for r in recs:
                ctx.count(r["c"])
                state["ncalls"] += r["ncalls"]
                state["frame_bad"] += r["frame_bad"]
            ctx.evaluations += sum(r["ncalls"] - 1 for r in recs)
            for r in recs[:: max(1, len(recs) // 3)][:3]:
                ctx.sample({"case": r["c"], "representations": [R.rep_tag(x) for x in r["reps"]], "observed": r["obs"][:3]}, cap=8)
            if state["probe"] is None:
                state["probe"] = next((r for r in recs if r["c"]["kind"] == "match" and r["obs"][0]["err"] == "none"
                                       and len(r["obs"][0]["i2"]) >= 2), None)
            if state["dprobe"] is None:
                state["dprobe"] = next((r for r in recs if r["c"]["kind"] == "dedup" and len(set(r["c"]["a1"])) >= 2
                                        and r["c"]["a1"][0] == min(r["c"]["a1"])), None)
            judge(ctx, recs, what)

    def export(task):
        kind, shard, nshards = task
        off = dict(MaxLenD=0) if kind == "match" else dict(MaxLen1=0)
        r2 = ctx.tlc("ArrayMatchMC.tla", what="export %s cases with representations [part %d/%d]" % (kind, shard + 1, nshards),
                     cfg_text=cfg(constants=dict(B["export"], **dict(fixed, DoExport=True, ShardCount=nshards, ShardIndex=shard, **off)),
                                  next_="NextExport", invariants=["RepDesignOK"], constraints=["Export"]),
                     workers=1, coverage=False, timeout=3000)
        cases = r2.records.get("CASE", [])
        design = (r2.records.get("DESIGN") or [None])[0]
        if not cases or r2.garbled or design is None or any(c["kind"] != kind or len(c["reps"]) < B["export"]["NReps"] for c in cases):
            raise MachineryError("export of %s cases failed (%d cases, %d garbled)" % (kind, len(cases), r2.garbled))
        return cases, design

    nsh = B["shards"]
    tasks = [(kind, i, nsh[kind]) for kind in ("match", "dedup") for i in range(nsh[kind])]
    design, intern = None, {}
    with ThreadPoolExecutor(max(1, min(6, int(os.environ.get("VH_MAX_WORKERS", "16"))))) as ex:
        futs = [ex.submit(export, t) for t in tasks]
        for (kind, shard, _), fut in zip(tasks, futs):
            cases, design = fut.result()
            jobs = []
            for i, c in enumerate(cases, 1):
                reps = [intern.setdefault(tuple(rep[f] for f in REP_FIELDS), rep) for rep in c.pop("reps")]
                for rep in reps:
                    cover.add(kind, rep)
                    if rep["l1"] not in R.SCALAR_LAYOUTS and rep["l2"] not in R.SCALAR_LAYOUTS and rep["t2"] != "b1":
                        pools[kind][tuple(rep[f] for f in REP_FIELDS)] = rep
                jobs.append((state["nid"] + i, c, K[kind], reps))
            state["nid"] += len(jobs)
            state["exported"] += len(jobs)
            del cases
            pending.append((kind, shard, jobs))
    for kind in ("match", "dedup"):
        miss = cover.missing(design, [kind])
        if miss:
            raise MachineryError("the covering design misses %d admitted combinations, e.g. %s" % (len(miss), miss[:6]))
    for kind in ("match", "dedup"):
        jobs = [j for k, _, js in pending if k == kind for j in js]
        ctx.log("replaying %d exported %s cases x %d representations" % (len(jobs), kind, B["export"]["NReps"]))
        process(jobs, "judge replayed %s cases (ArrayMatchTrace)" % kind)
        del jobs
    del pending[:]
    # 3. larger seeded cases, code -> spec
    ns, max1, max2 = B["seeded"]
    pools = {k: [v[key] for key in sorted(v)] for k, v in pools.items()}
    process(seeded_cases(random.Random(ctx.seed), ns, max1, max2, state["nid"] + 1, pools), "judge seeded larger cases (ArrayMatchTrace)")
    # 4. binding self-test: corrupted observations must be rejected, the untouched ones accepted
    probe, dprobe = state["probe"], state["dprobe"]
    if probe is None or dprobe is None:
        raise MachineryError("no probe record for the binding self-test")
    bad1 = dict(probe["obs"][0]); bad1["i2"] = list(reversed(bad1["i2"])); bad1["i1"] = list(reversed(bad1["i1"]))
    bad2 = dict(probe["obs"][0]); bad2["i2"] = bad2["i2"][:-1]; bad2["i1"] = bad2["i1"][:-1]
    good3 = next(o for o in dprobe["obs"] if o["fn"] == "rem_dup")
    bad3 = dict(good3); bad3["i1"] = bad3["i1"] + [bad3["i1"][0]]
    badrep = dict(dprobe["reps"][0], l1="list")               # python lists are not in the de-duplication quantifier
    saved = ctx.traces
    rej = tracecheck.validate(ctx, "ArrayMatchTrace.tla",
                              [{"id": 1, "c": probe["c"], "reps": probe["reps"], "obs": [bad1]},
                               {"id": 2, "c": probe["c"], "reps": probe["reps"], "obs": [probe["obs"][0]]},
                               {"id": 3, "c": probe["c"], "reps": probe["reps"], "obs": [bad2]},
                               {"id": 4, "c": dprobe["c"], "reps": dprobe["reps"], "obs": [bad3]},
                               {"id": 5, "c": dprobe["c"], "reps": dprobe["reps"], "obs": [good3]},
                               {"id": 6, "c": dprobe["c"], "reps": [badrep], "obs": [good3]}],
                              what="self-test: corrupted records rejected", workers=1)
    ctx.traces = saved
    want = {1: [[1, "match", "not_ordered_by_second_array"]], 3: [[1, "match", "matching_element_missing"]],
            4: [[1, "rem_dup", "not_one_index_per_value"]]}
    # (records 2 and 5 are the untouched observations: rejected only if the real code is wrong there)
    if any(rej.get(k) != v for k, v in want.items()) or not any(cl == "bad_representation" for _, _, cl in rej.get(6, [])):
        raise MachineryError("binding self-test failed: %s" % rej)
    frame_bad, ncalls = state["frame_bad"], state["ncalls"]
    E = B["export"]
    ctx.rule = ("every first array of length 1..%d over %d values (repeats included: rejected) x every second array of length "
                "1..%d over %d values extending below and above (length 1..%d when a1 has repeats); every array of length 1..%d "
                "over %d values x every flag array over %d values (all exported from ArrayMatchMC.tla); each case in %d "
                "representations of a covering design enumerated by the model (element type of each argument - %d admitted "
                "(type, type, placement) combinations for match, %d flag types x 4 placements - x byte order x layout / "
                "container form; every admitted combination of two of these choices is met) and called as match / match_multi "
                "(+presorted when a1 is sorted) or unique / rem_dup (+values=True); plus %d seeded cases up to %d x %d; a case "
                "is distinct by its abstract record and non-trivial always" %
                (E["MaxLen1"], len(E["A1Vals"]), E["MaxLen2"], len(E["A2Vals"]), E["RepLen2"], E["MaxLenD"], len(E["DVals"]),
                 len(E["FVals"]), E["NReps"], len(design["pairs"]), len(design["flags"]), ns, max1, max2))
    ctx.exhaustive = True
    ctx.note(bounds={t: {k: sorted(v) if isinstance(v, set) else v for k, v in B[t].items()} for t in ("export", "mech")},
             exported_cases=state["exported"], real_calls=ncalls,
             representation_choices={k: sorted(v) if k != "pairs" else len(v) for k, v in design.items()},
             arguments_modified_by_calls=frame_bad)
    ctx.assumptions = ["abstract values are realised by strictly increasing injections (checked for every case on the exact values and "
                       "against numpy's own ordering at start): match/unique/rem_dup depend on order and equality only",
                       "64-bit unsigned with signed integers (numpy compares them through float64), byte with unicode strings, "
                       "large integers with floats, NaN and empty arrays are outside the quantifier",
                       "python lists and scalars are arguments of match only; the de-duplication helpers are given 1-d arrays"]


def replay(ctx, case):
    rec = run_case((1, case["c"], case["K"], case["reps"]))
    for o, w, e in zip(rec["obs"], rec["who"], rec["exc"]):
        print("replay observed:", o, "by", [R.rep_tag(case["reps"][j]) for j in w[:3]], e)
    judge(ctx, [rec], "replay")
