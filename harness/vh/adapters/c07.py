"""C07 - structured-array field operations preserve data, types and documented order.

spec -> code : FieldOpsMC.tla is a state machine over "the current array"; TLC enumerates
               every chain of <= MaxDepth field operations over the bounded alphabet
               (and every single operation over the full one).  Each behaviour is
               exported and replayed: the real esutil.numpy_util functions are stepped
               through the chain, the result of one call being the input of the next.
code -> spec : before and after every call the real arrays are projected to
               [shape, fields: (name, kind, sub-shape, byte order, data token)] and the
               (pre, operation, observation) steps - of those replays and of longer
               seeded chains over a wider dtype catalogue - are judged by
               FieldOpsTrace.tla (the property-level FOFailing of FieldOps.tla).
Python never judges a result; it only maps abstract <-> concrete and records.

Data tokens: every field of every input array holds its own adversarial, pairwise
different data (integer extremes, huge / tiny floats, strings of mixed length with
non-ASCII characters; no NaN / -0.0 so that element-wise equality is byte equality
of the native-order values).  The projection reports which token's data a real field
is element-wise equal to ("?" if none).
"""
import hashlib
import json
import random
import sys
import zlib

import numpy as np

from .. import tracecheck
from ..core import MachineryError
from ..par import pmap
from ..tlc import cfg

NEEDS_EXT = True     # "import esutil" itself needs the compiled recfile extension (build is cached)

NATIVE = "<" if sys.byteorder == "little" else ">"
NOARR = {"shape": [], "fields": []}
FN = {"extract": "extract_fields", "remove": "remove_fields", "reorder": "reorder_fields", "add": "add_fields",
      "combine": "combine_fields", "copy": "copy_fields", "copy_by_name": "copy_fields_by_name", "split": "split_fields"}

# ---------------------------------------------------------------------------------
# tokens -> concrete data
# ---------------------------------------------------------------------------------
_FNAMES = ["a", "b", "c", "d", "e", "f", "g", "h", "p", "q", "x", "y", "z", "w", "u", "v", "zz", "r", "s", "t"]
_UCP = [chr(c) for c in list(range(0x41, 0x5b)) + [0xe9, 0xdf, 0x3b1, 0x20ac, 0x4e2d, 0x1d11e, 0x10ffff, 0x7e, 0x21, 0x100]]
_DEFAULTS = {"d1": (7, 2.5, b"ab", "é"), "d2": (9, -1e10, b"x", "zq"), "d3": (12, 0.125, b"q~", "€")}


def token_index(tok):
    a, _, n = tok.partition(".")
    if len(a) != 1 or n not in _FNAMES or not ("A" <= a <= "H"):
        raise MachineryError("unknown data token %r" % tok)
    return (ord(a) - 65) * len(_FNAMES) + _FNAMES.index(n) + 1          # 1..160


def native_dtype(kind):
    return np.dtype(kind if kind[0] in "SU" else "=" + kind)


def default_value(tok, kind):
    i, f, b, u = _DEFAULTS[tok]
    c = kind[0]
    if c in "iu":
        return i
    if c == "f":
        return f
    w = int(kind[1:])
    return b[:w] if c == "S" else u[:w]


_MAT = {}


def materialise(tok, kind, shape):
    """the values (native byte order) token `tok` stands for in a field of this kind and full shape (memoised, read-only)"""
    key = (tok, kind, tuple(shape))
    v = _MAT.get(key)
    if v is None:
        v = _materialise(tok, kind, shape)
        v.setflags(write=False)
        _MAT[key] = v
    return v


def _materialise(tok, kind, shape):
    dt = native_dtype(kind)
    shape = tuple(shape)
    n = int(np.prod(shape, dtype=np.int64)) if shape else 1
    if tok == "zero":
        return np.zeros(shape, dtype=dt)
    if tok in _DEFAULTS:
        out = np.empty(shape, dtype=dt)
        out[...] = default_value(tok, kind)
        return out
    t = token_index(tok)
    c, w = kind[0], int(kind[1:])
    j = np.arange(n, dtype=np.int64)
    if c in "iu":
        if w >= 4:
            v = t * 100003 + j * 7 + 1
        elif w == 2:
            v = t * 100 + j + 1
        else:
            v = (t * 37 + j * 11) % 120 + 1
        if c == "i":
            v = np.where(j % 2 == 1, -v, v)
        v = v.astype(dt)
        if n >= 3 and w >= 2:
            info = np.iinfo(dt)
            v[0], v[1] = info.min, info.max
    elif c == "f":
        step = 100 if w == 8 else 20
        v = (t + j / 64.0 + 1 / 128.0) * np.power(2.0, ((j % 5) - 2) * step)
        v = np.where(j % 2 == 1, -v, v).astype(dt)
        if n >= 3:
            info = np.finfo(dt)
            v[0], v[1] = info.max, -info.tiny
    elif c == "S":
        items = []
        for jj in range(n):
            s = bytes([33 + t % 90, 33 + (t // 90 + 7 * jj) % 90] + [33 + (jj * 5 + k) % 90 for k in range(max(0, w - 2))])
            if w >= 3 and jj % 3 == 0:
                s = s[:-1]                      # mixed lengths (the field is NUL padded)
            items.append(s[:w])
        v = np.array(items, dtype=dt)
    elif c == "U":
        L = len(_UCP)
        items = []
        for jj in range(n):
            s = _UCP[t % L] + _UCP[(t // L + 3 * jj) % L] + "".join(_UCP[(jj * 5 + k) % L] for k in range(max(0, w - 2)))
            if w >= 3 and jj % 3 == 0:
                s = s[:-1]
            items.append(s[:w])
        v = np.array(items, dtype=dt)
    else:
        raise MachineryError("kind %r not in the catalogue" % kind)
    return v.reshape(shape)


def typestr(f):
    return (f["order"] if f["order"] in "<>" else "|") + f["kind"]


def descr_of(fields):
    return [(f["name"], typestr(f), tuple(f["sub"])) if f["sub"] else (f["name"], typestr(f)) for f in fields]


def build(a):
    """abstract array -> real packed structured ndarray holding the tokens' data"""
    arr = np.zeros(tuple(a["shape"]), dtype=np.dtype(descr_of(a["fields"])))
    for f in a["fields"]:
        arr[f["name"]] = materialise(f["tok"], f["kind"], list(a["shape"]) + list(f["sub"]))
    return arr


_TABLES = {}


class Universe:
    """the data tokens of one scenario; (kind, full shape) -> {native bytes: token}"""

    def __init__(self, tokens):
        self.tokens = sorted(set(tokens) | {"zero", "d1", "d2", "d3"})
        self.tables = _TABLES.setdefault(tuple(self.tokens), {})

    def table(self, kind, shape):
        key = (kind, tuple(shape))
        tb = self.tables.get(key)
        if tb is None:
            tb = {}
            for tok in self.tokens:
                try:
                    b = materialise(tok, kind, shape).tobytes()
                except MachineryError:
                    raise
                if b in tb:
                    # two tokens with the same data for this kind/shape: the projection would be ambiguous
                    raise MachineryError("tokens %s and %s coincide for %s%s" % (tb[b], tok, kind, tuple(shape)))
                tb[b] = tok
            self.tables[key] = tb
        return tb

    def token_of(self, values, kind):
        try:
            tb = self.table(kind, values.shape)
        except MachineryError:
            if kind[0] in "iufSU" and kind[1:].isdigit() and (kind[0] not in "iu" or int(kind[1:]) in (1, 2, 4, 8)) \
                    and (kind[0] != "f" or int(kind[1:]) in (4, 8)) and int(kind[1:]) > 0:
                raise
            return "?"
        nat = np.ascontiguousarray(values).astype(native_dtype(kind), copy=False)
        return tb.get(nat.tobytes(), "?")


def kind_order(base):
    k = base.kind
    if k == "U":
        kind = "U%d" % (base.itemsize // 4)
    elif k in "iufS":
        kind = "%s%d" % (k, base.itemsize)
    else:
        kind = base.str.lstrip("<>|=")
    o = base.byteorder
    return kind, (NATIVE if o == "=" else o)


def project(arr, uni):
    """real array -> [shape, fields: (name, kind, sub, order, tok)]; public observables only"""
    if not isinstance(arr, np.ndarray) or arr.dtype.names is None:
        return {"shape": [-1], "fields": []}
    fields = []
    for name in arr.dtype.names:
        fdt = arr.dtype.fields[name][0]
        kind, order = kind_order(fdt.base)
        v = arr[name]
        tok = uni.token_of(v, kind) if kind[0] in "iufSU" else "?"
        fields.append({"name": name, "kind": kind, "sub": [int(x) for x in fdt.shape], "order": order, "tok": tok})
    return {"shape": [int(x) for x in arr.shape], "fields": fields}


def project_view(v, uni):
    v = np.asarray(v)
    if v.dtype.names is not None:
        return {"shape": [int(x) for x in v.shape], "kind": "struct", "order": "|", "tok": "?"}
    kind, order = kind_order(v.dtype)
    return {"shape": [int(x) for x in v.shape], "kind": kind, "order": order,
            "tok": uni.token_of(v, kind) if kind[0] in "iufSU" else "?"}


# ---------------------------------------------------------------------------------
# abstract operation -> real call
# ---------------------------------------------------------------------------------
_NAME_LISTS = {}      # per chain: one list object per distinct request, handed to every call that names it


def names_arg(names, form):
    if form == "tuple":
        return tuple(names)
    if form == "ndarray":
        return np.array(list(names))
    if form == "scalar":
        return names[0]
    # a caller typically keeps its list of names and passes the same object again: a callee that
    # keeps or extends the list it was given shows up in the next call of the chain that uses it
    return _NAME_LISTS.setdefault(tuple(names), list(names))


def _op_variant(op):
    """deterministic small number derived from the operation (selects memory layouts)"""
    return zlib.crc32(json.dumps(op, sort_keys=True, default=str).encode())


def strided(x):
    """the same array as every second element of a twice-as-large buffer (non-contiguous, same values)"""
    if x.ndim == 0 or x.shape[0] == 0:
        return x
    big = np.zeros((2 * x.shape[0],) + x.shape[1:], dtype=x.dtype)
    view = big[::2]
    view[...] = x
    return view


def snapshot(xs):
    return [(x, x.tobytes(), x.dtype.descr, x.shape) for x in xs]


def unchanged(snap):
    return all(x.tobytes() == b and x.dtype.descr == d and x.shape == s for x, b, d, s in snap)


def exec_op(cur, op, pool, uni):
    """-> (observation, exception class, the array the next operation works on)"""
    import esutil.numpy_util as nu
    import warnings
    k = op["op"]
    obs = {"err": "none", "arr": NOARR, "views": [], "fresh": True, "frame": True}
    nxt = cur
    exc = ""
    var = _op_variant(op)
    if var % 3 == 0:
        cur = strided(cur)          # "any memory layout": same values in a non-contiguous array
    try:
        with warnings.catch_warnings():
            warnings.simplefilter("ignore")
            if k in ("extract", "remove", "reorder"):
                snap = snapshot([cur])
                arg = names_arg(op["names"], op["form"])
                if k == "extract":
                    res = nu.extract_fields(cur, arg, strict=op["strict"]) if not op["strict"] or len(op["names"]) % 2 else nu.extract_fields(cur, arg)
                elif k == "remove":
                    res = nu.remove_fields(cur, arg)
                else:
                    res = nu.reorder_fields(cur, arg, strict=op["strict"])
                obs.update(arr=project(res, uni), fresh=not np.shares_memory(res, cur), frame=unchanged(snap))
                nxt = res
            elif k == "add":
                snap = snapshot([cur])
                d = descr_of(op["add"])
                if op["form"] == "dtype":
                    d = np.dtype(d)
                if all(f["tok"] == "zero" for f in op["add"]):
                    res = nu.add_fields(cur, d)
                else:
                    dv = [default_value(f["tok"], f["kind"]) if f["tok"] != "zero" else (0 if f["kind"][0] in "iuf" else "") for f in op["add"]]
                    res = nu.add_fields(cur, d, defaults=dv[0] if len(dv) == 1 and op["form"] == "dtype" else dv)
                obs.update(arr=project(res, uni), fresh=not np.shares_memory(res, cur), frame=unchanged(snap))
                nxt = res
            elif k == "combine":
                lst = [cur if o["id"] == "cur" else pool[o["id"]] for o in op["others"]]
                snap = snapshot(lst)
                res = nu.combine_fields(tuple(lst) if op["form"] == "tuple" else lst)
                obs.update(arr=project(res, uni), fresh=not any(np.shares_memory(res, x) for x in lst), frame=unchanged(snap))
                nxt = res
            elif k == "copy":
                src, dst = [cur if o["id"] == "cur" else pool[o["id"]] for o in op["others"]]
                if op["others"][1]["id"] != "cur":
                    dst = dst.copy()                     # the scenario's other arrays stay pristine
                if (var // 3) % 2 == 0:
                    dst = strided(dst)                   # a destination that is a view (e.g. table[::2])
                snap = snapshot([src])
                nu.copy_fields(src, dst)
                obs.update(arr=project(dst, uni), frame=unchanged(snap))
                nxt = dst
            elif k == "copy_by_name":
                have = {n: cur.dtype.fields[n][0] for n in cur.dtype.names}
                vals = [default_value(t, kind_order(have[n].base)[0]) if n in have else 1 for n, t in zip(op["names"], op["vals"])]
                if op["form"] == "scalar":
                    nu.copy_fields_by_name(cur, op["names"][0], vals[0])
                elif op["form"] == "tuple":
                    nu.copy_fields_by_name(cur, tuple(op["names"]), tuple(vals))
                else:
                    nu.copy_fields_by_name(cur, names_arg(op["names"], op["form"]), vals)
                obs.update(arr=project(cur, uni))
            elif k == "split":
                snap = snapshot([cur])
                if op["form"] == "none":
                    res = nu.split_fields(cur) if len(cur.dtype.names) % 2 else nu.split_fields(cur, getnames=True)[0]
                else:
                    res = nu.split_fields(cur, fields=names_arg(op["names"], op["form"]))
                obs.update(arr=project(cur, uni), views=[project_view(v, uni) for v in res], frame=unchanged(snap))
            else:
                raise MachineryError("unknown operation %r" % k)
    except MachineryError:
        raise
    except Exception as e:  # noqa - any exception is a rejection
        obs = {"err": "rejected", "arr": NOARR, "views": [], "fresh": True, "frame": True}
        exc = type(e).__name__
        nxt = cur
    return obs, exc, nxt


def expand(op, scen):
    """put the scenario's arrays back for the ids of a compactly exported operation"""
    if op["others"] and isinstance(op["others"][0], str):
        op = dict(op, others=[{"id": "cur", "shape": [], "fields": []} if i == "cur" else scen["pool"][i] for i in op["others"]])
    return op


def scenario_universe(scen):
    toks = [f["tok"] for f in scen["init"]["fields"]]
    for a in scen["pool"].values():
        toks += [f["tok"] for f in a["fields"]]
    return Universe(toks)


_SCEN = {}


def realise_scenario(scen):
    """universe + real arrays of a scenario (memoised per worker; the arrays are never handed out writable:
    the initial array is copied per chain, the others are copied whenever they are a destination)"""
    key = json.dumps(scen, sort_keys=True)
    got = _SCEN.get(key)
    if got is None:
        uni = scenario_universe(scen)
        init = build(scen["init"])
        pool = {i: build(a) for i, a in scen["pool"].items()}
        # the mapping itself: what was built projects back to the abstract array (all byte orders, sub-arrays)
        for real, a in [(init, scen["init"])] + [(pool[i], scen["pool"][i]) for i in pool]:
            if project(real, uni) != {"shape": a["shape"], "fields": a["fields"]}:
                raise MachineryError("build/project round trip failed for %s" % a)
        for x in pool.values():
            x.setflags(write=False)
        if len(_SCEN) > 2000:
            _SCEN.clear()
        got = _SCEN[key] = (uni, init, pool)
    return got


def run_chain(scen, ops, _memo={}):
    """step the real code through one chain -> [(pre, op, obs, exception)]"""
    m = _memo.get(id(scen))
    if m is None or m[0] is not scen:
        if len(_memo) > 64:
            _memo.clear()
        m = _memo[id(scen)] = (scen, realise_scenario(scen))
    uni, init, pool = m[1]
    cur = init.copy()
    steps = []
    _NAME_LISTS.clear()
    for op in ops:
        op = expand(op, scen)
        pre = project(cur, uni)
        obs, exc, cur = exec_op(cur, op, pool, uni)
        steps.append((pre, op, obs, exc))
    return steps


def run_batch(batch):
    """batch of (scenario, ops) chains -> in-batch distinct steps [(hash, step, chain ref)] + number of calls"""
    out, seen, ncalls = [], set(), 0
    for scen, ops in batch:
        for k, (pre, op, obs, exc) in enumerate(run_chain(scen, ops)):
            ncalls += 1
            step = {"pre": pre, "op": op, "obs": obs}
            h = hashlib.blake2b(json.dumps(step, sort_keys=True).encode(), digest_size=12).digest()
            if h not in seen:
                seen.add(h)
                out.append((h, step, {"scen": scen, "ops": ops, "step": k, "exc": exc}))
    return out, ncalls


# ---------------------------------------------------------------------------------
class Steps:
    """distinct (pre, op, obs) steps over all chains executed so far"""

    def __init__(self):
        self.byhash = {}
        self.recs = []
        self.refs = []
        self.calls = 0
        self.chains = 0

    def add_chains(self, chains, batch=300):
        batches = [chains[i:i + batch] for i in range(0, len(chains), batch)]
        new = []
        for out, ncalls in pmap(run_batch, batches, chunk=1):
            self.calls += ncalls
            for h, step, ref in out:
                if h not in self.byhash:
                    self.byhash[h] = len(self.recs)
                    rec = dict(step, id=len(self.recs) + 1)
                    self.recs.append(rec)
                    self.refs.append(ref)
                    new.append(rec)
        self.chains += len(chains)
        return new


def ndim_class(pre):
    return "%dd" % len(pre["shape"])


def judge(ctx, steps, recs, what, tally):
    rejects = tracecheck.validate(ctx, "FieldOpsTrace.tla", recs, what=what, shard_size=6000)
    for rid in sorted(rejects):
        rec, ref = steps.recs[rid - 1], steps.refs[rid - 1]
        for cl in rejects[rid]:
            entry = FN[rec["op"]["op"]]
            if cl.startswith("nongating/"):
                key = "%s(%s): %s" % (entry, rec["op"]["form"], cl[len("nongating/"):].split(":")[0])
                tally[key] = tally.get(key, 0) + 1
                continue
            ctx.violation("%s|%s|%s" % (entry, cl, ndim_class(rec["pre"])),
                          "numpy_util.%s result not allowed by FieldOps.tla: clause %s" % (entry, cl),
                          {"kind": "chain", "scen": ref["scen"], "ops": ref["ops"], "step": ref["step"],
                           "pre": rec["pre"], "op": rec["op"], "observed": rec["obs"], "exc": ref["exc"]})
    return rejects


# ---------------------------------------------------------------------------------
# longer seeded chains over a wider catalogue (code -> spec)
# ---------------------------------------------------------------------------------
_CAT = [("i4", [], "<"), ("i4", [], ">"), ("f8", [], "<"), ("f8", [], ">"), ("S3", [], "|"), ("U2", [], "<"), ("i2", [2], "<"),
        ("f4", [2, 2], "<"), ("i8", [], ">"), ("u8", [], "<"), ("u2", [], ">"), ("u4", [3], ">"), ("f4", [], ">"), ("S8", [], "|"),
        ("U5", [], ">"), ("U2", [2], ">"), ("S2", [1], "|"), ("i1", [], "|"), ("u1", [2], "|"), ("f8", [1, 2], ">"), ("i2", [], ">")]
_SHAPES = [[], [1], [4], [2, 3], [1, 1], [3, 1], [2, 2], [5]]


def _fld(name, t, tok):
    return {"name": name, "kind": t[0], "sub": list(t[1]), "order": t[2], "tok": tok}


def _flip(t):
    return (t[0], t[1], {"<": ">", ">": "<"}.get(t[2], t[2]))


def seeded_chain(rng):
    shape = rng.choice(_SHAPES)
    size = int(np.prod(shape)) if shape else 1
    n = rng.randrange(1, 7)
    names = _FNAMES[:8]
    init = {"shape": shape, "fields": [_fld(names[k], rng.choice(_CAT), "A." + names[k]) for k in range(n)]}
    other = [s for s in _SHAPES if (int(np.prod(s)) if s else 1) != size]
    pool = {
        "B": {"id": "B", "shape": shape, "fields": [_fld("x", rng.choice(_CAT), "B.x"), _fld("y", rng.choice(_CAT), "B.y")]},
        "C": {"id": "C", "shape": shape, "fields": [_fld("z", rng.choice(_CAT), "C.z")]},
        "F": {"id": "F", "shape": shape, "fields": [_fld("w", rng.choice(_CAT), "F.w"), _fld("u", rng.choice(_CAT), "F.u"), _fld("v", rng.choice(_CAT), "F.v")]},
        "D": {"id": "D", "shape": shape, "fields": [_fld("r", rng.choice(_CAT), "D.r"), _fld(rng.choice(names[:n]), rng.choice(_CAT), "D.s")]},
        "E": {"id": "E", "shape": rng.choice(other), "fields": [_fld("t", rng.choice(_CAT), "E.t")]},
    }
    common = rng.sample(init["fields"], rng.randrange(1, n + 1))
    pool["G"] = {"id": "G", "shape": shape,
                 "fields": [_fld("g", rng.choice(_CAT), "G.g")] + [_fld(f["name"], _flip((f["kind"], f["sub"], f["order"])), "G." + f["name"]) for f in common]}
    scen = {"init": init, "pool": pool}
    have = list(names[:n])           # the harness' own book-keeping of the names, only to choose plausible arguments
    ops = []
    for _ in range(rng.randrange(2, 7)):
        k = rng.choice(["extract", "remove", "reorder", "add", "combine", "copy", "copy_by_name", "split", "reorder", "extract"])
        op = {"op": k, "names": [], "strict": True, "form": "list", "add": [], "vals": [], "others": []}
        pick = rng.sample(have, rng.randrange(1, len(have) + 1))
        if rng.random() < 0.2:
            pick.insert(rng.randrange(len(pick) + 1), "zz")
        if k in ("extract", "reorder"):
            op.update(names=pick, strict=rng.random() < 0.6)
        elif k == "remove":
            op.update(names=pick)
        elif k == "split":
            op.update(names=pick if rng.random() < 0.8 else [], form="list")
            if not op["names"]:
                op["form"] = "none"
        elif k == "copy_by_name":
            op.update(names=pick[:3], vals=[rng.choice(["d1", "d2", "d3"]) for _ in pick[:3]])
            if len(op["names"]) == 1 and rng.random() < 0.5:
                op["form"] = "scalar"
        elif k == "add":
            newn = rng.sample(["p", "q", "s"], rng.randrange(1, 3))
            if rng.random() < 0.15:
                newn[0] = rng.choice(have)
            dflt = rng.random() < 0.5
            op.update(add=[_fld(nm, rng.choice(_CAT), rng.choice(["d1", "d2", "d3"]) if dflt else "zero") for nm in newn],
                      form=rng.choice(["descr", "dtype"]))
        elif k == "combine":
            ids = rng.sample(["B", "C", "F"], rng.randrange(0, 4))
            if rng.random() < 0.15:
                ids.append(rng.choice(["D", "E"]))
            ids.insert(rng.randrange(len(ids) + 1), "cur")
            op.update(others=ids[:4])
        elif k == "copy":
            op.update(others=rng.choice([["G", "cur"], ["cur", "G"], ["E", "cur"]]))
        if k in ("extract", "remove", "reorder", "split") and op["form"] == "list" and rng.random() < 0.15:
            op["form"] = rng.choice(["tuple", "ndarray"] + (["scalar"] if len(op["names"]) == 1 else []))
        ops.append(op)
        # book-keeping (never used for judging)
        if k == "add" and not any(f["name"] in have for f in op["add"]):
            have += [f["name"] for f in op["add"]]
        elif k == "combine" and len(ids) > 1 and "D" not in ids and "E" not in ids:
            for i in op["others"]:
                if i != "cur" and not any(f["name"] in have for f in pool[i]["fields"]):
                    pass
            newh = []
            for i in op["others"]:
                newh += have if i == "cur" else [f["name"] for f in pool[i]["fields"]]
            if len(set(newh)) == len(newh):
                have = newh
        elif k == "extract" and op["form"] == "list" and (not op["strict"] or "zz" not in pick) and any(p in have for p in pick):
            have = [h for h in have if h in pick]
        elif k == "remove" and op["form"] == "list" and any(h not in pick for h in have):
            have = [h for h in have if h not in pick]
        elif k == "copy" and op["others"] == ["cur", "G"]:
            have = [f["name"] for f in pool["G"]["fields"]]
    return scen, ops


# ---------------------------------------------------------------------------------
BOUNDS = {
    "quick": dict(
        single=dict(Shapes={0, 1, 2}, NFields={1, 2, 3}, Rots={0, 3, 6}, MaxDepth=1, Names1=2, NamesN=1, LeanFrom=1,
                    Forms1={"list", "tuple", "ndarray", "scalar"}),
        chains=[dict(Shapes={2}, NFields={2}, Rots={1}, MaxDepth=3, Names1=1, NamesN=1, LeanFrom=2, Forms1={"list"}),
                dict(Shapes={0, 1}, NFields={2}, Rots={4}, MaxDepth=2, Names1=2, NamesN=2, LeanFrom=2, Forms1={"list"})],
        seeded=1500),
    "thorough": dict(
        single=dict(Shapes={0, 1, 2}, NFields={1, 2, 3, 4}, Rots=set(range(16)), MaxDepth=1, Names1=3, NamesN=1, LeanFrom=1,
                    Forms1={"list", "tuple", "ndarray", "scalar"}),
        chains=[dict(Shapes={s}, NFields={nf}, Rots={r}, MaxDepth=3, Names1=1, NamesN=1, LeanFrom=3, Forms1={"list"})
                for s, nf, r in ((0, 2, 1), (1, 3, 6), (2, 2, 11), (2, 3, 4), (0, 3, 13), (1, 2, 2))] +
               [dict(Shapes={0, 1, 2}, NFields={2, 3}, Rots={0, 5, 10, 15}, MaxDepth=2, Names1=2, NamesN=2, LeanFrom=2, Forms1={"list"})],
        seeded=30000),
}
ACTIONS = ["Start", "Extract", "Remove", "Reorder", "Add", "Combine", "Copy", "CopyByName", "Split"]
INVARIANTS = ["NamesDistinct", "ShapeInv", "StepLaws", "RejectLaws", "MechRefines", "RefAccepted"]


def _consts(b, **kw):
    d = dict(b, FixedShape=True, DoExport=False)
    d.update(kw)
    return d


def run(ctx):
    B = BOUNDS[ctx.tier]
    steps = Steps()
    tally = {}
    nbeh = 0
    configs = [("single operations", B["single"])] + [("chains %d" % (i + 1), c) for i, c in enumerate(B["chains"])]
    # self-test of the mechanism model: the pinned combine_fields (1-d result) must violate MechRefines
    r = ctx.tlc("FieldOpsMC.tla", what="self-test: combine_fields building a 1-d result violates MechRefines",
                cfg_text=cfg(constants=_consts(B["single"], Shapes={0, 2}, NFields={2}, Rots={0}, Names1=1, Forms1={"list"},
                                               FixedShape=False), invariants=["MechRefines"]),
                workers=4, allow_violation=True, coverage=False)
    if "MechRefines" not in r.violated:
        raise MachineryError("self-test failed: MechRefines not violated by the deviating mechanism")
    for label, c in configs:
        # 1. design level: laws of the statement + mechanism refinement on every transition of every behaviour
        ctx.tlc("FieldOpsMC.tla", what="laws + mechanism refinement, %s" % label,
                cfg_text=cfg(constants=_consts(c), invariants=INVARIANTS, view="LastView"),
                workers=16, coverage=False, timeout=3000)
        # 2. export every behaviour (spec -> code) and replay it
        r2 = ctx.tlc("FieldOpsMC.tla", what="export behaviours, %s" % label,
                     cfg_text=cfg(constants=_consts(c, DoExport=True), constraints=["Export"]),
                     workers=1, coverage=True, require=ACTIONS, timeout=3000)     # vacuity guard: every action fired
        scens = {tuple(s["key"]): {"init": s["init"], "pool": s["pool"]} for s in r2.records.get("SCEN", [])}
        cases = r2.records.get("CASE", [])
        if not cases or not scens or r2.garbled:
            raise MachineryError("no behaviours exported (%s; %d garbled)" % (label, r2.garbled))
        chains = [(scens[tuple(c_["key"])], c_["ops"]) for c_ in cases]
        nbeh += len(chains)
        del cases, r2
        ctx.log("replaying %d behaviours (%s)" % (len(chains), label))
        steps.add_chains(chains)
        for scen, ops in chains[:: max(1, len(chains) // 2)][:2]:
            ctx.sample({"initial": scen["init"], "operations": [{k: v for k, v in o.items() if v not in ([], "")} for o in ops]}, cap=8)
        del chains
    # longer seeded chains over a wider dtype catalogue
    rng = random.Random(ctx.seed)
    nseed = B["seeded"]
    sch = []
    while len(sch) < nseed:
        scen, ops = seeded_chain(rng)
        try:
            uni = scenario_universe(scen)
            for a in [scen["init"]] + list(scen["pool"].values()):
                for f in a["fields"]:
                    uni.table(f["kind"], list(a["shape"]) + list(f["sub"]))
                    uni.table(f["kind"], list(scen["init"]["shape"]) + list(f["sub"]))
            for op in ops:
                for f in op["add"]:
                    uni.table(f["kind"], list(scen["init"]["shape"]) + list(f["sub"]))
        except MachineryError:
            continue                      # two tokens would coincide for a 1-byte kind: draw another scenario
        sch.append((scen, ops))
    steps.add_chains(sch)
    ctx.sample({"seeded_initial": sch[0][0]["init"], "operations": [{k: v for k, v in o.items() if v not in ([], "")} for o in sch[0][1]]}, cap=8)
    # 3. code -> spec: every distinct step observed (exported behaviours and seeded chains) is judged by the trace specification
    judge(ctx, steps, steps.recs, "judge every distinct step observed (FieldOpsTrace)", tally)
    # counting: one evaluation per real call; distinct non-trivial = distinct (pre, op, obs) steps
    ctx.evaluations += steps.calls
    ctx.nontrivial_n += len(steps.recs)
    ctx.traces_chains = nbeh + nseed
    # 5. binding self-test: corrupted observations must be rejected with the right clause
    probe = next(r for r in steps.recs if r["op"]["op"] == "reorder" and r["op"]["form"] == "list" and r["obs"]["err"] == "none"
                 and len(r["obs"]["arr"]["fields"]) >= 2 and any(f["order"] == ">" for f in r["obs"]["arr"]["fields"]))

    def corrupt(fn):
        o = json.loads(json.dumps(probe["obs"]))
        fn(o)
        return o
    k = next(i for i, f in enumerate(probe["obs"]["arr"]["fields"]) if f["order"] == ">")
    bads = {
        1: (corrupt(lambda o: o["arr"]["fields"][k].update(tok="?")), "field_data"),
        2: (corrupt(lambda o: o["arr"]["fields"][k].update(order="<")), "field_byteorder"),
        3: (corrupt(lambda o: o["arr"].update(fields=o["arr"]["fields"][1:] + o["arr"]["fields"][:1])), "field_order"),
        4: (corrupt(lambda o: o["arr"].update(shape=o["arr"]["shape"] + [1])), "shape"),
        5: (corrupt(lambda o: o["arr"].update(fields=o["arr"]["fields"][1:])), "field_list"),
        6: (corrupt(lambda o: o.update(fresh=False)), "not_a_new_array"),
        7: (probe["obs"], None),
    }
    saved = ctx.traces
    rej = tracecheck.validate(ctx, "FieldOpsTrace.tla", [{"id": i, "pre": probe["pre"], "op": probe["op"], "obs": o} for i, (o, _) in bads.items()],
                              what="self-test: corrupted steps rejected", workers=1)
    ctx.traces = saved
    for i, (_, want) in bads.items():
        got = [c.split(":")[0] for c in rej.get(i, [])]
        if want is not None and got != [want]:
            raise MachineryError("binding self-test failed: corruption %d gave %s, expected %s" % (i, got, want))
    # and the projection itself: one flipped byte in a real field must lose its token
    scen0 = steps.refs[0]["scen"]
    uni0 = scenario_universe(scen0)
    real = build(scen0["init"])
    real.reshape(-1).view(np.uint8)[0] ^= 0x40
    if project(real, uni0)["fields"][0]["tok"] != "?":
        raise MachineryError("projection self-test failed: a flipped data byte kept its token")
    S = B["single"]
    ctx.rule = ("every single field operation over the full alphabet (arrays of shape (), (3,), (2,2) with %s fields typed by %d rotations of "
                "{i4, >i4, f8, >f8, S3, U2, i2(2,), f4(2,2)}; every ordered name selection of length <= %d incl. a missing name, strict and "
                "not, names as list/tuple/ndarray/scalar; add-descriptors of <= 2 fields with/without defaults, as descr and dtype; lists "
                "of 1..4 arrays incl. shared name / other size; copy into, out of, unequal sizes; copy_by_name; split) and every chain of "
                "<= 3 operations over the chain alphabet (%d behaviours in all, exported from FieldOpsMC.tla), each replayed into the real "
                "code; plus %d seeded chains of 2..6 operations over %d field types and %d shapes; counted: %d real calls, of which the "
                "distinct (input projection, operation, observation) steps are the distinct non-trivial cases" %
                (sorted(S["NFields"]), len(S["Rots"]), S["Names1"], nbeh, nseed, len(_CAT), len(_SHAPES), steps.calls))
    ctx.exhaustive = True
    ctx.traces = ctx.traces                # steps accepted by TLC (counted by tracecheck)
    ctx.note(bounds={"single": _j(B["single"]), "chains": [_j(c) for c in B["chains"]]}, behaviours_replayed=nbeh,
             seeded_chains=nseed, real_calls=steps.calls, distinct_steps=len(steps.recs),
             nongating_name_forms_not_matching_documented_result=tally)
    ctx.assumptions = ["data tokens are NaN-free and -0.0-free, so element-wise equality of a field with its source is byte equality of the native-order values",
                       "forms of passing names that the docstrings do not document (tuple / ndarray / scalar for extract, remove, reorder, split; "
                       "tuple for combine and copy_fields_by_name) are exercised and tallied but do not gate",
                       "aligned (non-packed) dtypes, zero-size arrays, duplicate names in one request and lossy type conversions in copy_fields are outside the quantifier"]


def _j(b):
    return {k: sorted(v) if isinstance(v, set) else v for k, v in b.items()}


def replay(ctx, case):
    steps = Steps()
    new = steps.add_chains([(case["scen"], case["ops"])])
    for r, ref in zip(steps.recs, steps.refs):
        print("replay step %d: %s %s -> %s %s" % (ref["step"], r["op"]["op"], {k: v for k, v in r["op"].items() if v not in ([], "") and k != "op"},
                                                  json.dumps(r["obs"])[:400], ref["exc"]))
    judge(ctx, steps, new, "replay", {})
