"""C07 - structured-array field operations preserve data, types and documented order.

spec -> code : FieldOpsMC.tla is a state machine over "the current array"; TLC enumerates
               every chain of <= MaxDepth field operations over the bounded alphabet
               (and every single operation over the full one).  Each behaviour is
               exported and replayed: the real esutil.numpy_util functions are stepped
               through the chain, the result of one call being the input of the next.
code -> spec : before and after every call the real arrays are projected to
               [shape, fields: (name, kind, sub-shape, byte order, inner fields, data token)] and the
               (pre, operation, observation) steps - of those replays and of longer
               seeded chains over a wider dtype catalogue - are judged by
               FieldOpsTrace.tla (the property-level FOFailing of FieldOps.tla).
Python never judges a result; it only maps abstract <-> concrete and records.

Data tokens: every field of every input array holds its own adversarial, pairwise
different data (integer extremes, huge / tiny floats, strings of mixed length with
non-ASCII characters; no NaN / -0.0 so that element-wise equality is byte equality
of the native-order values).  The projection reports which token's data a real field
is element-wise equal to ("?" if none).

Field alphabet: scalar and sub-array fields of integer / unsigned / float / complex / bool /
bytes / unicode type in either byte order, and NESTED structured fields (kind "struct" with
their own inner field sequence - inner names equal to outer names, inner sub-arrays, inner
byte orders, a second level, sub-arrays of structures): one field with one data token, whose
leaves all hold that token's data.  Field names are symbolic in the model; the scenario key
carries a spelling (plain / differing only in case + long / non-ASCII) applied here.
"""
import hashlib
import json
import random
import sys
import zlib

import numpy as np

from .. import tracecheck
from ..core import MachineryError
from ..par import pmap
from ..tlc import cfg

NEEDS_EXT = True     # "import esutil" itself needs the compiled recfile extension (build is cached)

NATIVE = "<" if sys.byteorder == "little" else ">"
NOARR = {"shape": [], "fields": []}
FN = {"extract": "extract_fields", "remove": "remove_fields", "reorder": "reorder_fields", "add": "add_fields",
      "combine": "combine_fields", "copy": "copy_fields", "copy_by_name": "copy_fields_by_name", "split": "split_fields"}

# ---------------------------------------------------------------------------------
# tokens -> concrete data
# ---------------------------------------------------------------------------------
_FNAMES = ["a", "b", "c", "d", "e", "f", "g", "h", "p", "q", "x", "y", "z", "w", "u", "v", "zz", "r", "s", "t"]
_UCP = [chr(c) for c in list(range(0x41, 0x5b)) + [0xe9, 0xdf, 0x3b1, 0x20ac, 0x4e2d, 0x1d11e, 0x10ffff, 0x7e, 0x21, 0x100]]
# default values per kind (integer, float, bytes, unicode).  d4 / d5 are the values a detour through another type
# loses: integers at the ends of the field's own range (64-bit: not representable as a double), 0.1, '0'
_DEFAULTS = {"d1": (7, 2.5, b"ab", "é"), "d2": (9, -1e10, b"x", "zq"), "d3": (12, 0.125, b"q~", "€"),
             "d4": (None, 0.1, b"~z", "ÿ€"), "d5": (None, -1e30, b"0", "0")}
_BOOLPAT = {"d1": 65531, "d2": 65532, "d3": 65533, "d4": 65534, "d5": 65535}   # a bool field is always a sub-array of 16 flags
_ARRAY_DEFAULTS = ("H.p", "H.q", "H.s")            # data tokens handed over as per-field ARRAY defaults / values
_SPECIAL = ("zero",) + tuple(sorted(_DEFAULTS))


class Unusable(MachineryError):
    """this (tokens, type, shape) combination cannot be told apart by its data: draw another scenario"""


def token_index(tok):
    a, _, n = tok.partition(".")
    if len(a) != 1 or not ("A" <= a <= "H"):
        raise MachineryError("unknown data token %r" % tok)
    if n[:1] == "f" and n[1:].isdigit() and 1 <= int(n[1:]) <= 70:      # fields f1 .. f70 of a wide table
        return 160 + (ord(a) - 65) * 70 + int(n[1:])                       # 161..720
    if n not in _FNAMES:
        raise MachineryError("unknown data token %r" % tok)
    return (ord(a) - 65) * len(_FNAMES) + _FNAMES.index(n) + 1          # 1..160


def native_dtype(kind):
    return np.dtype(kind if kind[0] in "SUOb" else "=" + kind)


def _bits(p):
    return np.array([(p >> k) & 1 for k in range(16)], dtype=bool)


def leaf_default(tok, kind, sub=()):
    """the default value token `tok` stands for in a (leaf) field of this kind"""
    i, f, b, u = _DEFAULTS[tok]
    c = kind[0]
    if i is None and c in "iuMmO":
        info = np.iinfo(native_dtype(kind) if c in "iu" else np.int64)
        if tok == "d4":
            i = int(info.max) - (58 if info.bits == 64 else 2)
        else:
            i = int(info.min) + 1 if c != "u" else (2 ** 53 + 1 if info.bits == 64 else int(info.max) // 2 + 2)
    if c in "iu":
        return i
    if c == "f":
        return f if kind != "f2" else {"d2": -6e4, "d5": -1234.5}.get(tok, f)
    if c == "c":
        return complex(f, -1.25)
    if c == "b":
        return _bits(_BOOLPAT[tok]).reshape(tuple(sub) if sub else (16,))
    if c in "Mm":
        return np.array(i, dtype="i8").view(native_dtype(kind))[()]
    if c == "O":
        return "default:%s" % tok                        # (a tuple or list would be taken for a sequence of values)
    w = int(kind[1:])
    return b[:w] if c == "S" else u[:w]


_MAT = {}


def materialise(tok, kind, shape, salt=0):
    """the values (native byte order) token `tok` stands for in a leaf field of this kind and full shape (memoised,
    read-only); `salt` = position of the leaf inside a nested field (0: a top-level field), so that the leaves of one
    nested field hold different data"""
    key = (tok, kind, tuple(shape), salt)
    v = _MAT.get(key)
    if v is None:
        v = _materialise(tok, kind, shape, salt)
        v.setflags(write=False)
        if len(_MAT) > 200000:
            _MAT.clear()
        _MAT[key] = v
    return v


def _materialise(tok, kind, shape, salt):
    try:
        dt = native_dtype(kind)
    except TypeError:
        raise MachineryError("kind %r not in the catalogue" % kind)
    shape = tuple(shape)
    n = int(np.prod(shape, dtype=np.int64)) if shape else 1
    c = kind[0]
    if c == "b" and n % 16:
        raise Unusable("a bool field needs 16 elements per item")
    if tok == "zero":
        return np.zeros(shape, dtype=dt)                  # (object: the integer 0, as np.zeros gives)
    if tok in _DEFAULTS:
        out = np.empty(shape, dtype=dt)
        if c == "b":
            out.reshape(-1, 16)[...] = _bits(_BOOLPAT[tok])
        elif c == "O":
            for ix in np.ndindex(*shape):
                out[ix] = leaf_default(tok, kind)
        else:
            out[...] = leaf_default(tok, kind)
        return out
    t = token_index(tok) + 163 * salt
    j = np.arange(n, dtype=np.int64)
    if c in "iuMm":
        w = dt.itemsize
        if w >= 4:
            v = t * 100003 + j * 7 + 1
        elif w == 2:
            v = t * 100 + j + 1
        else:
            v = (np.where(j % 2 == 0, t % 120, t // 120) + j * 11) % 120 + 1     # (two elements identify the token)
        if c != "u":
            v = np.where(j % 2 == 1, -v, v)
        idt = dt if c in "iu" else np.dtype("=i8")
        v = v.astype(idt)
        if n >= 3 and w >= 2:
            info = np.iinfo(idt)
            v[0], v[1] = info.min + (1 if c in "Mm" else 0), info.max       # (the minimum is NaT)
        if c in "Mm":
            v = v.view(dt)
    elif c == "f":
        v = _floats(t, j, n, dt)
    elif c == "c":
        fdt = np.dtype("=f%d" % (dt.itemsize // 2))
        v = np.empty(n, dtype=dt)
        v.real = _floats(t, j, n, fdt)
        v.imag = -_floats(t + 1, j, n, fdt)[::-1] / 2
    elif c == "b":
        p = token_index(tok) + 1000 * salt                                     # < 65531, injective in the token
        v = np.empty((n // 16, 16), dtype=bool)
        v[...] = _bits(p)
        v[1::2] = ~v[1::2]
    elif c == "S":
        w = dt.itemsize
        items = []
        for jj in range(n):
            s = bytes([33 + t % 90, 33 + (t // 90 + 7 * jj) % 90] + [33 + (jj * 5 + k) % 90 for k in range(max(0, w - 2))])
            if w >= 3 and jj % 3 == 0:
                s = s[:-1]                      # mixed lengths (the field is NUL padded)
            items.append(s[:w])
        v = np.array(items, dtype=dt)
    elif c == "U":
        w = dt.itemsize // 4
        L = len(_UCP)
        items = []
        for jj in range(n):
            s = _UCP[t % L] + _UCP[(t // L + 3 * jj) % L] + "".join(_UCP[(jj * 5 + k) % L] for k in range(max(0, w - 2)))
            if w >= 3 and jj % 3 == 0:
                s = s[:-1]
            items.append(s[:w])
        v = np.array(items, dtype=dt)
    elif c == "O":
        v = np.empty(n, dtype=object)
        for jj in range(n):
            v[jj] = [t * 1000 + jj, "t%d.%d" % (t, jj), (t, jj, 2.5), None, {"k": t + jj}][jj % 5] if jj else t * 1000
    else:
        raise MachineryError("kind %r not in the catalogue" % kind)
    return v.reshape(shape)


def _floats(t, j, n, dt):
    if dt.itemsize == 2:
        v = t + (j % 2) * 0.5 + 0.25                    # exactly representable up to 2048
        v = np.where(j % 2 == 1, -v, v).astype(dt)
    else:
        step = 100 if dt.itemsize == 8 else 20
        v = (t + j / 64.0 + 1 / 128.0) * np.power(2.0, ((j % 5) - 2) * step)
        v = np.where(j % 2 == 1, -v, v).astype(dt)
    if n >= 3:
        info = np.finfo(dt)
        v[0], v[1] = info.max, -info.tiny
    return v


def typestr(f):
    return (f["order"] if f["order"] in "<>" else "|") + f["kind"]


def descr_of(fields):
    """abstract field sequence -> numpy descr (nested fields: a descr of their own)"""
    out = []
    for f in fields:
        t = descr_of(f["inner"]) if f["kind"] == "struct" else typestr(f)
        out.append((f["name"], t, tuple(f["sub"])) if f["sub"] else (f["name"], t))
    return out


def _fill(view, f, tok, counter):
    """write token `tok`'s data into the real field `view` (all leaves of a nested field, in order)"""
    if f["kind"] == "struct":
        for g in f["inner"]:
            _fill(view[g["name"]], g, tok, counter)
    else:
        counter[0] += 1
        view[...] = materialise(tok, f["kind"], view.shape, counter[0] if counter[1] else 0)


def fill(view, f, tok):
    _fill(view, f, tok, [0, f["kind"] == "struct"])


def build(a):
    """abstract array -> real packed structured ndarray holding the tokens' data"""
    arr = np.zeros(tuple(a["shape"]), dtype=np.dtype(descr_of(a["fields"])))
    for f in a["fields"]:
        fill(arr[f["name"]], f, f["tok"])
    return arr


def default_value(tok, f, shape=(), as_numpy=False):
    """the value handed to the real code for default token `tok` of (abstract) field f: a python scalar (as_numpy:
    the numpy scalar of the field's own type), one structure (numpy.void) for a nested field, or - `tok` a data
    token - a per-field ARRAY of the field's full shape (`shape` = shape of the table)"""
    if "." in tok:
        full = tuple(shape) + tuple(f["sub"])
        if f["kind"] != "struct":
            return materialise(tok, f["kind"], full)
        z = np.zeros(full, dtype=np.dtype(descr_of(f["inner"])))
        fill(z, f, tok)
        return z
    if f["kind"] != "struct":
        if tok == "zero":
            return 0 if f["kind"][0] in "iuf" else "" if f["kind"][0] in "SU" else np.zeros((), dtype=native_dtype(f["kind"]))[()]
        v = leaf_default(tok, f["kind"], f["sub"])
        if as_numpy and f["kind"][0] in "iufcSU":
            v = np.array(v, dtype=native_dtype(f["kind"]))[()]        # np.int64(...), np.float32(...), np.bytes_(...)
        return v
    z = np.zeros((), dtype=np.dtype(descr_of(f["inner"])))
    fill(z, f, tok)
    return z[()]


def inner_of(dt):
    """the field sequence of a structured dtype (public observables only), data tokens "-" """
    return [dict(field_of_dtype(n, dt.fields[n][0]), tok="-") for n in dt.names]


_FOD = {}


def field_of_dtype(name, fdt):
    """the abstract field (without data token) of a real field type; memoised - the nested parts are shared, never modified"""
    got = _FOD.get(fdt)
    if got is None:
        base = fdt.base
        if base.names is not None:
            got = {"kind": "struct", "sub": [int(x) for x in fdt.shape], "order": "|", "inner": inner_of(base)}
        else:
            kind, order = kind_order(base)
            if not _known_kind(kind):
                # a type outside the catalogue (raw void bytes V<n> where a record was asked for, S0, f16 ...): only a
                # wrong result has one.  It is projected to a token of its own, so that TLC rejects the step that made
                # it (field type differs) and judges later steps of the chain on it like on any other opaque kind
                kind = "other:" + base.str
            got = {"kind": kind, "sub": [int(x) for x in fdt.shape], "order": order, "inner": []}
        got["known"] = _all_known(got)
        if len(_FOD) > 20000:
            _FOD.clear()
        _FOD[fdt] = got
    return {"name": name, "kind": got["kind"], "sub": got["sub"], "order": got["order"], "inner": got["inner"]}


def _is_known(fdt):
    got = _FOD.get(fdt)
    return got["known"] if got is not None else _all_known(field_of_dtype("", fdt))


def type_sig(f):
    """what the data of a field depend on: the kinds and sub-array shapes of its leaves, in order"""
    if f["kind"] != "struct":
        return f["kind"]
    return tuple((type_sig(g), tuple(g["sub"])) for g in f["inner"])


def _leaf_bytes(v, kind):
    if kind == "O":
        return repr(v.tolist()).encode()
    return np.ascontiguousarray(v).astype(native_dtype(kind), copy=False).tobytes()


def _gather(view, f, out):
    if f["kind"] == "struct":
        for g in f["inner"]:
            _gather(view[g["name"]], g, out)
    else:
        out.append(_leaf_bytes(view, f["kind"]))


def _expected_bytes(tok, f, shape, counter, out):
    """leaf by leaf, the bytes token `tok` stands for in a field of type f and full shape `shape`"""
    if f["kind"] == "struct":
        for g in f["inner"]:
            _expected_bytes(tok, g, tuple(shape) + tuple(g["sub"]), counter, out)
    else:
        counter[0] += 1
        out.append(_leaf_bytes(materialise(tok, f["kind"], shape, counter[0] if counter[1] else 0), f["kind"]))


_TABLES = {}
_KNOWN = ("i1", "i2", "i4", "i8", "u1", "u2", "u4", "u8", "f2", "f4", "f8", "c8", "c16", "b1", "O")


def _known_kind(kind):
    return kind in _KNOWN or (kind[0] in "SU" and kind[1:].isdigit() and int(kind[1:]) > 0) or kind[:3] in ("M8[", "m8[")


class Universe:
    """the data tokens of one scenario; (type signature, full shape) -> {native bytes of the leaves: token}"""

    def __init__(self, tokens):
        self.tokens = sorted(set(tokens) | set(_SPECIAL) | set(_ARRAY_DEFAULTS))
        self.tables = _TABLES.setdefault(tuple(self.tokens), {})

    def table(self, f, shape):
        key = (type_sig(f), tuple(shape))
        tb = self.tables.get(key)
        if tb is None:
            tb = {}
            for tok in self.tokens:
                parts = []
                _expected_bytes(tok, f, shape, [0, f["kind"] == "struct"], parts)
                if tok not in _SPECIAL and len(set(parts)) < len(parts):
                    raise Unusable("two leaves of %s hold the same data for token %s" % (key[0], tok))
                b = b"\0|".join(parts)
                if b in tb:
                    # two tokens with the same data for this type/shape: the projection would be ambiguous
                    raise Unusable("tokens %s and %s coincide for %s%s" % (tb[b], tok, key[0], tuple(shape)))
                tb[b] = tok
            self.tables[key] = tb
        return tb

    def token_of(self, view, f):
        """which token's data the real field `view` (of projected type f) holds, "?" if none"""
        try:
            tb = self.table(f, view.shape)
        except MachineryError:
            # a kind outside the catalogue, or a (type, shape) for which two tokens coincide: every type and shape a
            # correct result can have is registered beforehand (realise_scenario / plan_additions raise if one of THOSE
            # is unusable), so only a wrong result gets here, and its type or shape is already not the expected one
            return "?"
        parts = []
        _gather(view, f, parts)
        return tb.get(b"\0|".join(parts), "?")


def _all_known(f):
    return all(_all_known(g) for g in f["inner"]) if f["kind"] == "struct" else _known_kind(f["kind"])


def kind_order(base):
    k = base.kind
    if k == "U":
        kind = "U%d" % (base.itemsize // 4)
    elif k in "iufSc":
        kind = "%s%d" % (k, base.itemsize)
    else:
        kind = base.str.lstrip("<>|=")                   # b1, M8[s], m8[ms], O, V3
    o = base.byteorder
    return kind, (NATIVE if o == "=" else o)


def project(arr, uni):
    """real array -> [shape, fields: (name, kind, sub, order, inner, tok)]; public observables only"""
    if not isinstance(arr, np.ndarray) or arr.dtype.names is None:
        return {"shape": [-1], "fields": []}
    fields = []
    for name in arr.dtype.names:
        fdt = arr.dtype.fields[name][0]
        f = field_of_dtype(name, fdt)
        f["tok"] = uni.token_of(arr[name], f) if _is_known(fdt) else "?"
        fields.append(f)
    return {"shape": [int(x) for x in arr.shape], "fields": fields}


def project_view(v, uni):
    v = np.asarray(v)
    f = field_of_dtype("", v.dtype)
    return {"shape": [int(x) for x in v.shape], "kind": f["kind"], "order": f["order"], "inner": f["inner"],
            "tok": uni.token_of(v, f) if _all_known(f) else "?"}


# ---------------------------------------------------------------------------------
# symbolic field names -> the spelling used in the real arrays (the algebra of FieldOps.tla is name-blind;
# the style is enumerated by TLC as part of the scenario key)
# ---------------------------------------------------------------------------------
_LONG = "_aperture_corrected_model_magnitude_error_0123456789"
_STYLE = {
    0: {},
    # names that differ only in case (also the name no array has), long names
    1: {"a": "flux", "b": "Flux", "c": "FLUX", "d": "fluX", "zz": "fLUX", "p": "flux" + _LONG, "q": "FLUX" + _LONG,
        "s": "Flux" + _LONG, "x": "Xcol", "y": "xcol", "m": "XCOL"},
    # non-ASCII names: accented (composed, and the missing name is its decomposed twin), other scripts, a blank,
    # sharp s / long s, micro sign vs greek mu
    2: {"a": "é", "b": "É", "c": "αβγ", "d": "名前", "zz": "é", "p": "a b", "q": "ß",
        "s": "ſ", "x": "µ", "y": "μ", "m": "\U0001d4c1"},
}
_STYLE_REST = {0: "%s", 1: "%s_Col", 2: "%sü"}
_ALLNAMES = _FNAMES + ["m", "n", "k"]


def spell(name, style):
    return _STYLE[style].get(name, _STYLE_REST[style] % name)


for _st in _STYLE:
    if len({spell(n, _st) for n in _ALLNAMES}) != len(_ALLNAMES):
        raise MachineryError("name style %d is not a bijection" % _st)


def respell(obj, style):
    """the same scenario / operation with every field name (top level, nested, requested, added) spelt in `style`"""
    if style == 0:
        return obj
    if isinstance(obj, dict):
        return {k: (spell(v, style) if k == "name" else [spell(n, style) for n in v] if k == "names" else respell(v, style))
                for k, v in obj.items()}
    if isinstance(obj, list):
        return [respell(v, style) for v in obj]
    return obj


# ---------------------------------------------------------------------------------
# abstract operation -> real call
# ---------------------------------------------------------------------------------
_NAME_LISTS = {}      # per chain: one list object per distinct request, handed to every call that names it


def names_arg(names, form):
    if form == "tuple":
        return tuple(names)
    if form == "ndarray":
        return np.array(list(names))
    if form == "scalar":
        return names[0]
    # a caller typically keeps its list of names and passes the same object again: a callee that
    # keeps or extends the list it was given shows up in the next call of the chain that uses it
    return _NAME_LISTS.setdefault(tuple(names), list(names))


def _op_variant(op):
    """deterministic small number derived from the operation (selects memory layouts)"""
    return zlib.crc32(json.dumps(op, sort_keys=True, default=str).encode())


def strided(x):
    """the same array as every second element of a twice-as-large buffer (non-contiguous, same values)"""
    if x.ndim == 0 or x.shape[0] == 0:
        return x
    big = np.zeros((2 * x.shape[0],) + x.shape[1:], dtype=x.dtype)
    view = big[::2]
    view[...] = x
    return view


def frozen(x):
    """the same array handed over READ-ONLY (a view with the writeable flag off: what a caller holding a memory map opened
    for reading, or a table it wants protected, passes).  The operations that yield a NEW array, the source of a copy and
    the array that is split have no business writing to their input"""
    v = x.view()
    v.setflags(write=False)
    return v


def snapshot(xs):
    return [(x, x.tobytes(), x.dtype, x.shape) for x in xs]


def unchanged(snap):
    return all(x.tobytes() == b and (x.dtype is d or x.dtype == d) and x.shape == s for x, b, d, s in snap)


def is_table(x):
    return isinstance(x, np.ndarray) and x.dtype.names is not None


def shares(res, xs):
    """does the result share memory with one of the inputs?  (a result that is no array shares nothing - its
    projection is already not the documented one)"""
    return isinstance(res, np.ndarray) and any(np.shares_memory(res, x) for x in xs)


def column_holding(cur, f, tok, uni, prefer=None):
    """ALIASING between arguments: token `tok` names the data of a field of the table itself (tokens A.x .. G.x).  If a
    column of the real current array has the type of f and holds that data, the column ITSELF (a view of the table) is
    what the caller hands over as per-field array; None otherwise (the chain has moved on: the same data in a fresh array)"""
    if "." not in tok or tok in _ARRAY_DEFAULTS or not is_table(cur):
        return None
    want = {k: f[k] for k in ("kind", "sub", "order", "inner")}
    names = list(cur.dtype.names)
    for n in ([prefer] if prefer in names else []) + names:
        g = field_of_dtype(n, cur.dtype.fields[n][0])
        if {k: g[k] for k in want} == want and _all_known(g) and uni.token_of(cur[n], g) == tok:
            return cur[n]
    return None


def value_for(tok, f, shape, as_numpy=False):
    """the value handed over for token `tok` and the REAL field type f the current array has.  On a correct tree that
    type is one of the registered ones; a field of a kind outside the catalogue (or a flag field of another size) can
    only be left over from an earlier wrong result of the chain - already rejected by TLC -: it is handed the plain 1
    that a name the array does not have gets, never a machinery error"""
    if not _all_known(f):
        return 1
    try:
        return default_value(tok, f, shape, as_numpy)
    except Unusable:
        return 1


def exec_op(cur, op, pool, uni):
    """-> (observation, exception class, the array the next operation works on)"""
    import esutil.numpy_util as nu
    import warnings
    k = op["op"]
    obs = {"err": "none", "arr": NOARR, "views": [], "fresh": True, "frame": True}
    nxt = cur
    exc = ""
    var = _op_variant(op)
    if var % 3 == 0:
        cur = strided(cur)          # "any memory layout": same values in a non-contiguous array
    given = frozen(cur) if (var // 6) % 2 == 0 else cur       # ... every other time read-only where only read
    try:
        with warnings.catch_warnings():
            warnings.simplefilter("ignore")
            if k in ("extract", "remove", "reorder"):
                snap = snapshot([cur])
                arg = names_arg(op["names"], op["form"])
                if k == "extract":
                    res = nu.extract_fields(given, arg, strict=op["strict"]) if not op["strict"] or len(op["names"]) % 2 else nu.extract_fields(given, arg)
                elif k == "remove":
                    res = nu.remove_fields(given, arg)
                else:
                    res = nu.reorder_fields(given, arg, strict=op["strict"])
                obs.update(arr=project(res, uni), fresh=not shares(res, [cur]), frame=unchanged(snap))
                nxt = res
            elif k == "add":
                snap = snapshot([cur])
                d = descr_of(op["add"])
                if op["form"] == "dtype":
                    d = np.dtype(d)
                if all(f["tok"] == "zero" for f in op["add"]):
                    res = nu.add_fields(given, d)
                else:
                    dv = [default_value(f["tok"], f, cur.shape, op["form"] == "descr_np") for f in op["add"]]
                    for i, f in enumerate(op["add"]):
                        col = column_holding(given, f, f["tok"], uni)
                        if col is not None:
                            dv[i] = col                     # the default of the new field is a column of the table
                    res = nu.add_fields(given, d, defaults=dv[0] if len(dv) == 1 and op["form"] == "dtype" else dv)
                obs.update(arr=project(res, uni), fresh=not shares(res, [cur]), frame=unchanged(snap))
                nxt = res
            elif k == "combine":
                # (a list of one array may be handed back as it is: the chain goes on with it, so it stays writable)
                lst = [(given if len(op["others"]) > 1 else cur) if o["id"] == "cur" else pool[o["id"]] for o in op["others"]]
                snap = snapshot(lst)
                res = nu.combine_fields(tuple(lst) if op["form"] == "tuple" else lst)
                obs.update(arr=project(res, uni), fresh=not shares(res, lst), frame=unchanged(snap))
                nxt = res
            elif k == "copy":
                src, dst = [cur if o["id"] == "cur" else pool[o["id"]] for o in op["others"]]
                same = op["others"][0]["id"] == op["others"][1]["id"]        # source and destination are ONE object
                if op["others"][1]["id"] != "cur":
                    dst = dst.copy()                     # the scenario's other arrays stay pristine
                if (var // 3) % 2 == 0 and not same:
                    dst = strided(dst)                   # a destination that is a view (e.g. table[::2])
                snap = snapshot([src])
                nu.copy_fields(given if op["others"][0]["id"] == "cur" and op["others"][1]["id"] != "cur" else src, dst)
                obs.update(arr=project(dst, uni), frame=unchanged(snap))
                nxt = dst
            elif k == "copy_by_name":
                have = {n: field_of_dtype(n, cur.dtype.fields[n][0]) for n in cur.dtype.names}
                vals = [value_for(t, have[n], cur.shape) if n in have else 1 for n, t in zip(op["names"], op["vals"])]
                for i, (n, t) in enumerate(zip(op["names"], op["vals"])):
                    col = column_holding(cur, have[n], t, uni, prefer=n) if n in have else None
                    if col is not None:
                        vals[i] = col                       # the value is a column of the table (the one assigned to, or a twin)
                if op["form"] == "scalar":
                    # (an array-valued default - the 8 flags of a bool field - would be taken for the sequence of values)
                    nu.copy_fields_by_name(cur, op["names"][0], [vals[0]] if isinstance(vals[0], np.ndarray) else vals[0])
                elif op["form"] == "tuple":
                    nu.copy_fields_by_name(cur, tuple(op["names"]), tuple(vals))
                else:
                    nu.copy_fields_by_name(cur, names_arg(op["names"], op["form"]), vals)
                obs.update(arr=project(cur, uni))
            elif k == "split":
                snap = snapshot([cur])
                if op["form"] == "none":
                    res = nu.split_fields(given) if len(cur.dtype.names) % 2 else nu.split_fields(given, getnames=True)[0]
                else:
                    res = nu.split_fields(given, fields=names_arg(op["names"], op["form"]))
                obs.update(arr=project(cur, uni), views=[project_view(v, uni) for v in res], frame=unchanged(snap))
            else:
                raise MachineryError("unknown operation %r" % k)
    except MachineryError:
        raise
    except Exception as e:  # noqa - any exception is a rejection
        obs = {"err": "rejected", "arr": NOARR, "views": [], "fresh": True, "frame": True}
        exc = type(e).__name__
        nxt = cur
    return obs, exc, nxt


def expand(op, scen):
    """put the scenario's arrays back for the ids of a compactly exported operation"""
    if op["others"] and isinstance(op["others"][0], str):
        op = dict(op, others=[{"id": "cur", "shape": [], "fields": []} if i == "cur" else scen["pool"][i] for i in op["others"]])
    return op


def scenario_universe(scen):
    toks = [f["tok"] for f in scen["init"]["fields"]]
    for a in scen["pool"].values():
        toks += [f["tok"] for f in a["fields"]]
    return Universe(toks)


_SCEN = {}


def realise_scenario(scen):
    """universe + real arrays of a scenario (memoised per worker; the arrays are never handed out writable:
    the initial array is copied per chain, the others are copied whenever they are a destination)"""
    key = json.dumps(scen, sort_keys=True)
    got = _SCEN.get(key)
    if got is None:
        uni = scenario_universe(scen)
        init = build(scen["init"])
        pool = {i: build(a) for i, a in scen["pool"].items()}
        # the mapping itself: what was built projects back to the abstract array (all byte orders, sub-arrays)
        for real, a in [(init, scen["init"])] + [(pool[i], scen["pool"][i]) for i in pool]:
            if project(real, uni) != {"shape": a["shape"], "fields": a["fields"]}:
                raise MachineryError("build/project round trip failed for %s" % a)
        for x in pool.values():
            x.setflags(write=False)
        if len(_SCEN) > 2000:
            _SCEN.clear()
        got = _SCEN[key] = (uni, init, pool)
    return got


def plan_additions(uni, init, ops):
    """register the types of the fields a chain adds (the tables of the scenario's own fields exist already)"""
    for op in ops:
        for tok in [f["tok"] for f in op["add"]] + list(op["vals"]):
            if tok not in uni.tokens:
                raise MachineryError("data token %r of an operation is not in the scenario's universe" % tok)
        for f in op["add"]:
            uni.table(f, list(init.shape) + list(f["sub"]))


def run_chain(scen, ops, _memo={}):
    """step the real code through one chain -> [(pre, op, obs, exception)]"""
    m = _memo.get(id(scen))
    if m is None or m[0] is not scen:
        if len(_memo) > 64:
            _memo.clear()
        m = _memo[id(scen)] = (scen, realise_scenario(scen))
    uni, init, pool = m[1]
    cur = init.copy()
    steps = []
    _NAME_LISTS.clear()
    plan_additions(uni, init, ops)
    for op in ops:
        op = expand(op, scen)
        pre = project(cur, uni)
        obs, exc, cur = exec_op(cur, op, pool, uni)
        steps.append((pre, op, obs, exc))
        if not is_table(cur):
            break        # a result that is no structured array (projected to shape [-1], rejected by TLC): nothing to go on with
    return steps


def run_batch(batch):
    """batch of (scenario, ops) chains -> in-batch distinct steps [(hash, step, chain ref)] + number of calls + chains run.
    A chain marked (scenario, ops, "screen") is dropped if its data tokens cannot be told apart (seeded draws)"""
    out, seen, ncalls, nrun = [], set(), 0, 0
    for scen, ops in ((c[0], c[1]) for c in batch if len(c) == 2 or _usable(c[0], c[1])):
        nrun += 1
        for k, (pre, op, obs, exc) in enumerate(run_chain(scen, ops)):
            ncalls += 1
            step = {"pre": pre, "op": op, "obs": obs}
            h = hashlib.blake2b(json.dumps(step, sort_keys=True).encode(), digest_size=12).digest()
            if h not in seen:
                seen.add(h)
                out.append((h, step, {"scen": scen, "ops": ops, "step": k, "exc": exc}))
    return out, ncalls, nrun


# ---------------------------------------------------------------------------------
class Steps:
    """distinct (pre, op, obs) steps over all chains executed so far"""

    def __init__(self):
        self.byhash = {}
        self.recs = []
        self.refs = []
        self.calls = 0
        self.chains = 0

    def add_chains(self, chains, batch=300):
        batches = [chains[i:i + batch] for i in range(0, len(chains), batch)]
        new = []
        nrun = 0
        for out, ncalls, n in pmap(run_batch, batches, chunk=1):
            self.calls += ncalls
            nrun += n
            for h, step, ref in out:
                if h not in self.byhash:
                    self.byhash[h] = len(self.recs)
                    rec = dict(step, id=len(self.recs) + 1)
                    self.recs.append(rec)
                    self.refs.append(ref)
                    new.append(rec)
        self.chains += nrun
        self.last_run = nrun
        return new


def ndim_class(pre):
    return "%dd" % len(pre["shape"])


def _weight(rec):
    """rough size of a step record (bytes of JSON): wide tables make heavy records"""
    nf = len(rec["pre"]["fields"]) + len(rec["obs"]["arr"]["fields"]) + len(rec["op"]["add"]) + len(rec["op"]["names"]) // 4 + \
        sum(len(o["fields"]) for o in rec["op"]["others"])
    return 400 + 130 * nf


def judge(ctx, steps, recs, what, tally):
    # TLC reads a whole shard into memory (2 GB heap): at most ~60 MB of records per shard, five shards at a time
    rejects, group, w = {}, [], 0
    for rec in list(recs) + [None]:
        if rec is not None:
            group.append(rec)
            w += _weight(rec)
        if group and (rec is None or w >= 5 * 60e6):
            nsh = max(1, min(5, max(int(w // 60e6) + 1, (len(group) + 5999) // 6000)))
            rejects.update(tracecheck.validate(ctx, "FieldOpsTrace.tla", group, what=what, shard_size=(len(group) + nsh - 1) // nsh))
            group, w = [], 0
    for rid in sorted(rejects):
        rec, ref = steps.recs[rid - 1], steps.refs[rid - 1]
        for cl in rejects[rid]:
            entry = FN[rec["op"]["op"]]
            if cl.startswith("nongating/"):
                key = "%s(%s): %s" % (entry, rec["op"]["form"], cl[len("nongating/"):].split(":")[0])
                tally[key] = tally.get(key, 0) + 1
                continue
            if cl.startswith("outside/"):                # a date / time-span / object field is involved: outside the quantifier
                key = "%s with M8/m8/O fields: %s" % (entry, cl[len("outside/"):])
                tally[key] = tally.get(key, 0) + 1
                continue
            ctx.violation("%s|%s|%s" % (entry, cl, ndim_class(rec["pre"])),
                          "numpy_util.%s result not allowed by FieldOps.tla: clause %s" % (entry, cl),
                          {"kind": "chain", "scen": ref["scen"], "ops": ref["ops"], "step": ref["step"],
                           "pre": rec["pre"], "op": rec["op"], "observed": rec["obs"], "exc": ref["exc"]})
    return rejects


# ---------------------------------------------------------------------------------
# longer seeded chains over a wider catalogue (code -> spec)
# ---------------------------------------------------------------------------------
_CAT = [("i4", [], "<"), ("i4", [], ">"), ("f8", [], "<"), ("f8", [], ">"), ("S3", [], "|"), ("U2", [], "<"), ("i2", [2], "<"),
        ("f4", [2, 2], "<"), ("i8", [], ">"), ("u8", [], "<"), ("u2", [], ">"), ("u4", [3], ">"), ("f4", [], ">"), ("S8", [], "|"),
        ("U5", [], ">"), ("U2", [2], ">"), ("S2", [1], "|"), ("i1", [], "|"), ("u1", [2], "|"), ("f8", [1, 2], ">"), ("i2", [], ">"),
        ("b1", [16], "|"), ("b1", [2, 8], "|"), ("c8", [], ">"), ("c16", [2], "<"), ("f2", [], "<"), ("f2", [3], ">"),
        # outside the quantifier of the statement (judged, tallied, not gating)
        ("M8[s]", [], "<"), ("M8[ns]", [2], ">"), ("m8[ms]", [], ">"), ("O", [], "|")]
_NLEAF_INSIDE = 27
_SHAPES = [[], [1], [4], [2, 3], [1, 1], [3, 1], [2, 2], [5]]
_SUBS = [[], [], [], [2], [1, 2], [3]]


def _fld(name, t, tok):
    return {"name": name, "kind": t[0], "sub": list(t[1]), "order": t[2], "inner": list(t[3]) if len(t) > 3 else [], "tok": tok}


def _flip(f):
    """the same field type in the other byte order, through every level"""
    return dict(f, order={"<": ">", ">": "<"}.get(f["order"], f["order"]), inner=[_flip(g) for g in f["inner"]])


def rand_type(rng, outer_names, depth=0, wide=False):
    """a field type: a leaf of the catalogue or (one in four) a nested structured type whose inner names are drawn
    from the names of the enclosing array, the name no array has, and names of their own"""
    if depth < 2 and rng.random() < (0.25 if depth == 0 else 0.2):
        pool = list(outer_names) + ["zz", "m", "n", "k", "x", "p", "q", "w"]
        inner = [_fld(nm, rand_type(rng, outer_names, depth + 1, wide), "-") for nm in rng.sample(pool, rng.randrange(1, 4))]
        return ("struct", rng.choice(_SUBS), "|", inner)
    while True:
        t = rng.choice(_CAT[:_NLEAF_INSIDE] if depth and rng.random() < 0.9 else _CAT)
        if not (wide and t[0] in ("i1", "u1")):          # (with the many tokens of a wide table two 1-byte fields would coincide)
            return t


def _usable(scen, ops):
    """can every field type / shape the chain can produce be told apart by its data?  (else: draw another scenario)"""
    try:
        uni = scenario_universe(scen)
        for a in [scen["init"]] + list(scen["pool"].values()):
            for f in a["fields"]:
                uni.table(f, list(a["shape"]) + list(f["sub"]))
                uni.table(f, list(scen["init"]["shape"]) + list(f["sub"]))
        for op in ops:
            for f in op["add"]:
                uni.table(f, list(scen["init"]["shape"]) + list(f["sub"]))
    except Unusable:
        return False                  # two tokens would coincide (1-byte kinds of one element, flags of a 0-d array)
    return True


def seeded_chain(rng):
    shape = rng.choice(_SHAPES)
    size = int(np.prod(shape)) if shape else 1
    n = rng.randrange(1, 7)
    names = _FNAMES[:8]
    wide = rng.random() < 0.1
    if wide:                                  # a wide table: field positions beyond 8, 16, 32, 64
        n = rng.choice([9, 10, 16, 17, 33, 40, 65])
        names = ["f%d" % (k + 1) for k in range(n)]
    RT = lambda: rand_type(rng, names[:min(n, 8)], wide=wide)                     # noqa: E731
    init = {"shape": shape, "fields": [_fld(names[k], RT(), "A." + names[k]) for k in range(n)]}
    other = [s for s in _SHAPES if (int(np.prod(s)) if s else 1) != size]
    pool = {
        "B": {"id": "B", "shape": shape, "fields": [_fld("x", RT(), "B.x"), _fld("y", RT(), "B.y")]},
        "C": {"id": "C", "shape": shape, "fields": [_fld("z", RT(), "C.z")]},
        "F": {"id": "F", "shape": shape, "fields": [_fld("w", RT(), "F.w"), _fld("u", RT(), "F.u"), _fld("v", RT(), "F.v")]},
        "D": {"id": "D", "shape": shape, "fields": [_fld("r", RT(), "D.r"), _fld(rng.choice(names[:n]), RT(), "D.s")]},
        "E": {"id": "E", "shape": rng.choice(other), "fields": [_fld("t", RT(), "E.t")]},
    }
    common = rng.sample(init["fields"], rng.randrange(1, n + 1))
    pool["G"] = {"id": "G", "shape": shape,
                 "fields": [_fld("g", RT(), "G.g")] + [dict(_flip(f), tok="G." + f["name"]) for f in common]}
    style = rng.randrange(3)
    scen = {"init": init, "pool": pool}
    tok0 = {f["name"]: f["tok"] for f in init["fields"]}
    have = list(names[:n])           # the harness' own book-keeping of the names, only to choose plausible arguments
    ops = []
    for _ in range(rng.randrange(2, 7)):
        k = rng.choice(["extract", "remove", "reorder", "add", "combine", "copy", "copy_by_name", "split", "reorder", "extract"])
        op = {"op": k, "names": [], "strict": True, "form": "list", "add": [], "vals": [], "others": []}
        pick = rng.sample(have, rng.randrange(1, len(have) + 1))
        if rng.random() < 0.2:
            pick.insert(rng.randrange(len(pick) + 1), "zz")
        if k in ("extract", "reorder"):
            op.update(names=pick, strict=rng.random() < 0.6)
        elif k == "remove":
            op.update(names=pick)
        elif k == "split":
            op.update(names=pick if rng.random() < 0.8 else [], form="list")
            if not op["names"]:
                op["form"] = "none"
        elif k == "copy_by_name":
            op.update(names=pick[:3], vals=[rng.choice(["d1", "d2", "d3", "d4", "d5", "H.p"]) for _ in pick[:3]])
            if rng.random() < 0.2:             # aliasing: the value IS the column it is assigned to (if it still holds its data)
                op["vals"] = [tok0.get(nm, v) for nm, v in zip(op["names"], op["vals"])]
            if len(op["names"]) == 1 and rng.random() < 0.5:
                op["form"] = "scalar"
        elif k == "add":
            newn = rng.sample(["p", "q", "s"], rng.randrange(1, 3))
            if rng.random() < 0.15:
                newn[0] = rng.choice(have)
            dflt = rng.random() < 0.5
            op.update(add=[_fld(nm, RT(), rng.choice(["d1", "d2", "d3", "d4", "d4", "d5", "d5", _ARRAY_DEFAULTS[i]]) if dflt else "zero")
                           for i, nm in enumerate(newn)],
                      form=rng.choice(["descr", "dtype", "descr_np"]))
            if dflt and rng.random() < 0.25:   # aliasing: the default of a new field is a column of the table (same type)
                op["add"][-1] = dict(rng.choice(init["fields"]), name=op["add"][-1]["name"])
        elif k == "combine":
            ids = rng.sample(["B", "C", "F"], rng.randrange(0, 4))
            if rng.random() < 0.15:
                ids.append(rng.choice(["D", "E"]))
            ids.insert(rng.randrange(len(ids) + 1), "cur")
            op.update(others=ids[:4])
        elif k == "copy":
            op.update(others=rng.choice([["G", "cur"], ["cur", "G"], ["E", "cur"]]))
        if k in ("extract", "remove", "reorder", "split") and op["form"] == "list" and rng.random() < 0.15:
            op["form"] = rng.choice(["tuple", "ndarray"] + (["scalar"] if len(op["names"]) == 1 else []))
        ops.append(op)
        # book-keeping (never used for judging)
        if k == "add" and not any(f["name"] in have for f in op["add"]):
            have += [f["name"] for f in op["add"]]
        elif k == "combine" and len(ids) > 1 and "D" not in ids and "E" not in ids:
            for i in op["others"]:
                if i != "cur" and not any(f["name"] in have for f in pool[i]["fields"]):
                    pass
            newh = []
            for i in op["others"]:
                newh += have if i == "cur" else [f["name"] for f in pool[i]["fields"]]
            if len(set(newh)) == len(newh):
                have = newh
        elif k == "extract" and op["form"] == "list" and (not op["strict"] or "zz" not in pick) and any(p in have for p in pick):
            have = [h for h in have if h in pick]
        elif k == "remove" and op["form"] == "list" and any(h not in pick for h in have):
            have = [h for h in have if h not in pick]
        elif k == "copy" and op["others"] == ["cur", "G"]:
            have = [f["name"] for f in pool["G"]["fields"]]
    return respell(scen, style), respell(ops, style)


# ---------------------------------------------------------------------------------
BOUNDS = {
    "quick": dict(
        single=dict(Shapes={0, 1, 2}, NFields={1, 2, 3}, Rots={0, 3, 6, 9}, MaxDepth=1, Names1=2, NamesN=1, LeanFrom=1,
                    Forms1={"list", "tuple", "ndarray", "scalar"}),
        # (i8, nested{a, zz}) with names differing in case;  (i2(2,), nested(2,){b, m{a, x}, p}) with non-ASCII / plain names
        chains=[dict(Shapes={2}, NFields={2}, Rots={0}, MaxDepth=3, Names1=1, NamesN=1, LeanFrom=2, Forms1={"list"}),
                dict(Shapes={0, 1}, NFields={2}, Rots={6}, MaxDepth=2, Names1=2, NamesN=2, LeanFrom=2, Forms1={"list"})],
        # wide tables (the algebra is size independent - BlockLaw -, the implementation need not be): 9 fields with every
        # pair of positions in both orders, 33 fields naming positions around 8 / 16 / 32
        # (a wide table comes in one shape, (#fields div 3) mod 3: 9 fields 0-d, 33 fields 2-d)
        wide=[dict(Shapes={0, 1, 2}, NFields={9, 33}, Rots={2}, MaxDepth=1, Names1=2, NamesN=1, LeanFrom=1, Forms1={"list"}, Marks={1, 2, 8, 9, 17, 32})],
        seeded=1500),
    "thorough": dict(
        single=dict(Shapes={0, 1, 2}, NFields={1, 2, 3, 4}, Rots=set(range(12)) | {12, 14, 16, 18, 20, 22}, MaxDepth=1, Names1=3, NamesN=1, LeanFrom=1,
                    Forms1={"list", "tuple", "ndarray", "scalar"}),
        chains=[dict(Shapes={s}, NFields={nf}, Rots={r}, MaxDepth=3, Names1=1, NamesN=1, LeanFrom=3, Forms1={"list"})
                for s, nf, r in ((0, 2, 1), (1, 3, 6), (2, 2, 12), (2, 3, 4), (0, 3, 19), (1, 2, 7))] +
               [dict(Shapes={0, 1, 2}, NFields={2, 3}, Rots={0, 7, 14, 21}, MaxDepth=2, Names1=2, NamesN=2, LeanFrom=2, Forms1={"list"})],
        wide=[dict(Shapes={0, 1, 2}, NFields={9}, Rots={0, 17}, MaxDepth=1, Names1=3, NamesN=1, LeanFrom=1, Forms1={"list", "ndarray"}, Marks={1}),
              dict(Shapes={0, 1, 2}, NFields={9}, Rots={5}, MaxDepth=2, Names1=2, NamesN=1, LeanFrom=1, Forms1={"list"}, Marks={1}),
              dict(Shapes={0, 1, 2}, NFields={10, 16, 17, 33, 40}, Rots={4}, MaxDepth=1, Names1=2, NamesN=1, LeanFrom=1, Forms1={"list"},
                   Marks={1, 2, 8, 9, 10, 16, 17, 32}),
              dict(Shapes={0, 1, 2}, NFields={65}, Rots={3}, MaxDepth=1, Names1=2, NamesN=1, LeanFrom=1, Forms1={"list"}, Marks={1, 8, 9, 33, 64})],
        seeded=20000),
}
ACTIONS = ["Start", "Extract", "Remove", "Reorder", "Add", "Combine", "Copy", "CopyByName", "Split"]
INVARIANTS = ["NamesDistinct", "ShapeInv", "StepLaws", "RejectLaws", "MechRefines", "RefAccepted", "BlockLaw"]


def _consts(b, **kw):
    d = dict(b, FixedShape=True, DoExport=False, NameStyles={0, 1, 2}, NameCover=True)
    d.setdefault("Marks", {1})
    d.update(kw)
    return d


def run(ctx):
    B = BOUNDS[ctx.tier]
    steps = Steps()
    tally = {}
    nbeh = 0
    configs = [("single operations", B["single"])] + [("chains %d" % (i + 1), c) for i, c in enumerate(B["chains"])] + \
              [("wide tables %d" % (i + 1), c) for i, c in enumerate(B["wide"])]
    # self-test of the mechanism model: the pinned combine_fields (1-d result) must violate MechRefines
    r = ctx.tlc("FieldOpsMC.tla", what="self-test: combine_fields building a 1-d result violates MechRefines",
                cfg_text=cfg(constants=_consts(B["single"], Shapes={0, 2}, NFields={2}, Rots={0}, Names1=1, Forms1={"list"},
                                               FixedShape=False), invariants=["MechRefines"]),
                workers=4, allow_violation=True, coverage=False)
    if "MechRefines" not in r.violated:
        raise MachineryError("self-test failed: MechRefines not violated by the deviating mechanism")
    for label, c in configs:
        small = False     # (one run for laws + export pays only for a few hundred narrow states)
        # 1. design level: laws of the statement + mechanism refinement on every transition of every behaviour
        if not small:
            ctx.tlc("FieldOpsMC.tla", what="laws + mechanism refinement, %s" % label,
                    cfg_text=cfg(constants=_consts(c), invariants=INVARIANTS, view="LastView"),
                    workers=16, coverage=False, timeout=3000)
        # 2. export every behaviour (spec -> code) and replay it (few states: laws and export in one run)
        r2 = ctx.tlc("FieldOpsMC.tla", what=("laws + mechanism refinement + export, %s" if small else "export behaviours, %s") % label,
                     cfg_text=cfg(constants=_consts(c, DoExport=True), constraints=["Export"], invariants=INVARIANTS if small else []),
                     workers=1, coverage=True, require=ACTIONS, timeout=3000)     # vacuity guard: every action fired
        # (the fourth component of the key is the name style: the scenario and its operations are spelt in it)
        scens = {tuple(s["key"]): respell({"init": s["init"], "pool": s["pool"]}, s["key"][3]) for s in r2.records.get("SCEN", [])}
        cases = r2.records.get("CASE", [])
        if not cases or not scens or r2.garbled:
            raise MachineryError("no behaviours exported (%s; %d garbled)" % (label, r2.garbled))
        chains = [(scens[tuple(c_["key"])], respell(c_["ops"], c_["key"][3])) for c_ in cases]
        nbeh += len(chains)
        del cases, r2
        ctx.log("replaying %d behaviours (%s)" % (len(chains), label))
        steps.add_chains(chains)
        for scen, ops in chains[:: max(1, len(chains) // 2)][:2]:
            ctx.sample({"initial": scen["init"], "operations": [{k: v for k, v in o.items() if v not in ([], "")} for o in ops]}, cap=8)
        del chains
    # longer seeded chains over a wider dtype catalogue
    rng = random.Random(ctx.seed)
    nseed = B["seeded"]
    want, nseed, sch = nseed, 0, []
    while nseed < want:
        # drawn one after the other from the seeded generator; the workers drop the draws whose data tokens would
        # coincide (1-byte kinds of one element, flags of a 0-d array) - about one in eight
        sch = [seeded_chain(rng) + ("screen",) for _ in range(max(100, int(1.16 * (want - nseed))))]
        steps.add_chains(sch, batch=max(8, min(300, len(sch) // 80)))
        nseed += steps.last_run
    ctx.sample({"seeded_initial": sch[0][0]["init"], "operations": [{k: v for k, v in o.items() if v not in ([], "")} for o in sch[0][1]]}, cap=8)
    # 3. code -> spec: every distinct step observed (exported behaviours and seeded chains) is judged by the trace specification
    judge(ctx, steps, steps.recs, "judge every distinct step observed (FieldOpsTrace)", tally)
    # counting: one evaluation per real call; distinct non-trivial = distinct (pre, op, obs) steps
    ctx.evaluations += steps.calls
    ctx.nontrivial_n += len(steps.recs)
    ctx.traces_chains = nbeh + nseed
    # 5. binding self-test: corrupted observations must be rejected with the right clause
    # (the probes take the input projection and the operation of an observed step, never its observation: the tree under
    # test may be broken, the self-test of the machinery must not depend on it.  The clean observation is written down
    # here and TLC must accept it - corruptions 7 and 16)
    def clean(fields):
        return {"err": "none", "arr": {"shape": probe_pre["shape"], "fields": fields}, "views": [], "fresh": True, "frame": True}

    def plain_request(r):
        have = [f["name"] for f in r["pre"]["fields"]]
        return r["op"]["form"] == "list" and len(set(r["op"]["names"])) == len(r["op"]["names"]) and all(n in have for n in r["op"]["names"]) \
            and all(f["tok"] != "?" and _all_known(f) for f in r["pre"]["fields"])       # (not downstream of a wrong result)
    probe = next(r for r in steps.recs if r["op"]["op"] == "reorder" and plain_request(r)
                 and len(r["pre"]["fields"]) >= 2 and any(f["order"] == ">" for f in r["pre"]["fields"]))
    probe_pre = probe["pre"]
    probe = dict(probe, obs=clean([f for n in probe["op"]["names"] for f in probe_pre["fields"] if f["name"] == n] +
                                  [f for f in probe_pre["fields"] if f["name"] not in probe["op"]["names"]]))

    def corrupt(fn):
        o = json.loads(json.dumps(probe["obs"]))
        fn(o)
        return o
    k = next(i for i, f in enumerate(probe["obs"]["arr"]["fields"]) if f["order"] == ">")
    bads = {
        1: (corrupt(lambda o: o["arr"]["fields"][k].update(tok="?")), "field_data"),
        2: (corrupt(lambda o: o["arr"]["fields"][k].update(order="<")), "field_byteorder"),
        3: (corrupt(lambda o: o["arr"].update(fields=o["arr"]["fields"][1:] + o["arr"]["fields"][:1])), "field_order"),
        4: (corrupt(lambda o: o["arr"].update(shape=o["arr"]["shape"] + [1])), "shape"),
        5: (corrupt(lambda o: o["arr"].update(fields=o["arr"]["fields"][1:])), "field_list"),
        6: (corrupt(lambda o: o.update(fresh=False)), "not_a_new_array"),
        7: (probe["obs"], None),
    }
    # a retained NESTED field: an inner field dropped / renamed to its outer twin / byte-swapped, data of one leaf lost
    def is_nested(f):
        return f["kind"] == "struct" and len(f["inner"]) >= 2
    probe2 = next(r for r in steps.recs if r["op"]["op"] == "remove" and plain_request(r)
                  and any(is_nested(f) and f["name"] not in r["op"]["names"] for f in r["pre"]["fields"]))
    probe_pre = probe2["pre"]
    probe2 = dict(probe2, obs=clean([f for f in probe_pre["fields"] if f["name"] not in probe2["op"]["names"]]))
    k2 = next(i for i, f in enumerate(probe2["obs"]["arr"]["fields"]) if is_nested(f))

    def corrupt2(fn):
        o = json.loads(json.dumps(probe2["obs"]))
        fn(o["arr"]["fields"][k2])
        return o
    bads2 = {
        11: (corrupt2(lambda f: f.update(inner=f["inner"][1:])), "field_substructure"),
        12: (corrupt2(lambda f: f["inner"][0].update(name=f["inner"][0]["name"] + "_")), "field_substructure"),
        13: (corrupt2(lambda f: f["inner"][0].update(order="!")), "field_substructure"),
        14: (corrupt2(lambda f: f.update(tok="?")), "field_data"),
        15: (corrupt2(lambda f: f.update(inner=f["inner"][::-1])), "field_substructure"),
        16: (probe2["obs"], None),
    }
    saved = ctx.traces
    rej = tracecheck.validate(ctx, "FieldOpsTrace.tla",
                              [{"id": i, "pre": probe["pre"], "op": probe["op"], "obs": o} for i, (o, _) in bads.items()] +
                              [{"id": i, "pre": probe2["pre"], "op": probe2["op"], "obs": o} for i, (o, _) in bads2.items()],
                              what="self-test: corrupted steps rejected", workers=1)
    ctx.traces = saved
    bads.update(bads2)
    for i, (_, want) in bads.items():
        got = [c.split(":")[0] for c in rej.get(i, [])]
        if got != ([want] if want is not None else []):
            raise MachineryError("binding self-test failed: corruption %d gave %s, expected %s" % (i, got, want))
    # and the projection itself: one flipped byte in a real field must lose its token
    scen0 = steps.refs[0]["scen"]
    uni0 = scenario_universe(scen0)
    real = build(scen0["init"])
    real.reshape(-1).view(np.uint8)[0] ^= 0x40
    if project(real, uni0)["fields"][0]["tok"] != "?":
        raise MachineryError("projection self-test failed: a flipped data byte kept its token")
    # ... also in the last leaf of a nested field (the scenario of probe2 has one)
    ref2 = steps.refs[probe2["id"] - 1]
    uni2 = scenario_universe(ref2["scen"])
    nested = [(a, f) for a in [ref2["scen"]["init"]] + [ref2["scen"]["pool"][i] for i in sorted(ref2["scen"]["pool"])]
              for f in a["fields"] if f["kind"] == "struct"]
    if not nested:
        raise MachineryError("projection self-test: no nested field in the scenario of the nested probe")
    for a, f in nested[:2]:
        real = build(a)
        fdt, off = real.dtype.fields[f["name"]][:2]
        while fdt.base.names is not None:                 # first element of the last leaf, in the first record
            fdt, o2 = fdt.base.fields[fdt.base.names[-1]][:2]
            off += o2
        real.reshape(-1).view(np.uint8)[off + fdt.base.itemsize - 1] ^= 0x01
        got = {g["name"]: g["tok"] for g in project(real, uni2)["fields"]}
        if got[f["name"]] != "?" or any(got[g["name"]] != g["tok"] for g in a["fields"] if g["name"] != f["name"]):
            raise MachineryError("projection self-test failed: a flipped byte in a nested leaf kept its token (or another field lost its)")
    S = B["single"]
    ctx.rule = ("every single field operation over the full alphabet (arrays of shape (), (3,), (2,2) with %s fields typed by %d rotations of "
                "{i8, >i4, f8, >f8, S3, U2, i2(2,), f4(2,2), b1(16,), >c8, nested{a:>f4, zz:i2(2,)}, nested(2,){b:>U2, m:{a:>i4, x:f8}, p:S3}} - a "
                "nested structured field is ONE field whose inner field sequence, inner byte orders and data must be retained; its inner "
                "names equal outer names, the name no array has, names of added fields and of fields of the other arrays -, the names spelt plainly / differing only in case and long / non-ASCII "
                "(one spelling per scenario, pairwise covering); every ordered name selection of length <= %d incl. a missing name, strict and "
                "not, names as list/tuple/ndarray/scalar; add-descriptors of <= 2 fields (also nested ones) with/without defaults, as descr and "
                "dtype, defaults also as numpy scalars / per-field arrays and of different kinds side by side (64-bit integers at the ends of "
                "their range next to floats, text next to numbers); lists of 1..4 arrays incl. shared name / other size; copy into, out of, unequal sizes; copy_by_name; split) and every "
                "chain of <= 3 operations over the chain alphabet (%d behaviours in all, exported from FieldOpsMC.tla), each replayed into the "
                "real code; the same operations on WIDE tables (%s fields; FieldOpsMC's BlockLaw: the algebra does not depend on the number "
                "of fields) naming marked low / high positions in every order and all-but-one-or-two names; plus %d seeded chains of 2..6 operations over %d leaf types (also f2, c16, u1.., and - not gating - M8, m8, O), random "
                "nested types of depth <= 2, %d shapes, the three spellings, one in ten a wide table of 9..65 fields; counted: %d real calls, of which the "
                "distinct (input projection, operation, observation) steps are the distinct non-trivial cases" %
                (sorted(S["NFields"]), len(S["Rots"]), S["Names1"], nbeh, sorted(set().union(*[w["NFields"] for w in B["wide"]])), nseed,
                 len(_CAT), len(_SHAPES), steps.calls))
    ctx.exhaustive = True
    ctx.traces = ctx.traces                # steps accepted by TLC (counted by tracecheck)
    ctx.note(bounds={"single": _j(B["single"]), "chains": [_j(c) for c in B["chains"]], "wide": [_j(c) for c in B["wide"]]}, behaviours_replayed=nbeh,
             seeded_chains=nseed, real_calls=steps.calls, distinct_steps=len(steps.recs),
             nongating_name_forms_or_outside_types_not_matching_documented_result=tally)
    ctx.assumptions = ["data tokens are NaN-free and -0.0-free, so element-wise equality of a field with its source is byte equality of the native-order values",
                       "forms of passing names that the docstrings do not document (tuple / ndarray / scalar for extract, remove, reorder, split; "
                       "tuple for combine and copy_fields_by_name) are exercised and tallied but do not gate",
                       "aligned (non-packed) dtypes, zero-size arrays, duplicate names in one request and lossy type conversions in copy_fields are outside the quantifier",
                       "steps that involve a datetime64 / timedelta64 / object field (the quantifier names numeric, bytes and unicode fields) are exercised "
                       "and judged by the same specification, but tallied instead of gating",
                       "a nested structured field counts as one field of the array (its inner names are not field names of the array): the statement's "
                       "'every retained field has the same type' is read as 'the same inner field sequence, inner sub-array shapes and inner byte orders'"]


def _j(b):
    return {k: sorted(v) if isinstance(v, set) else v for k, v in b.items()}


def replay(ctx, case):
    steps = Steps()
    new = steps.add_chains([(case["scen"], case["ops"])])
    for r, ref in zip(steps.recs, steps.refs):
        print("replay step %d: %s %s -> %s %s" % (ref["step"], r["op"]["op"], {k: v for k, v in r["op"].items() if v not in ([], "") and k != "op"},
                                                  json.dumps(r["obs"])[:400], ref["exc"]))
    judge(ctx, steps, new, "replay", {})
