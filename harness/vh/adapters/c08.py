"""C08 - angular separations equal the true great-circle angle.

spec -> code : SphereMC.tla checks the lattice theorems of Sphere.tla (symmetry, range, zero iff
               same point, +-360 and common-shift invariance, additivity, ...) on the bounded
               great-circle lattice and rational sphere and exports, per first point, the row of
               exact separations (eps-angles) / dot products.  Every exported pair is concretised
               (eps in 1e-12, 1e-9, 1e-6, 1e-3 degree) and evaluated by esutil.coords.sphdist (all
               four unit combinations) and gcirc, in both argument orders, with +-360 added to the
               longitudes, as python scalars, length-1, length-3 and long arrays.
code -> spec : every returned number is *projected* onto the lattice with exact Fraction / 60-digit
               decimal arithmetic (vh.spherelat) - "the lattice values within the stated tolerance
               of what came back" - and SphereTrace.tla, run by TLC, recomputes SepGC / CosSep from
               the case and accepts only the exact value; it also judges no_error, finite, range
               and "exactly zero for identical inputs".
Python never decides a verdict; it maps abstract <-> concrete and records.
"""
import math
import random
from decimal import Decimal, localcontext
from fractions import Fraction

import numpy as np

from .. import spherelat as sl
from .. import tracecheck
from ..core import MachineryError
from ..par import pmap
from ..tlc import cfg

NEEDS_EXT = True      # coords.py is pure python, but `import esutil` needs the compiled sub-packages (build is cached)

BOUNDS = {
    "quick": dict(GCA={0, 1, 89, 90, 91, 95, 179, 180, 181, 270, 359}, BMax=1, MerLons={0, 95},
                  PoleLons={0, 217}, MaxD=7, NMaskMax=4),
    "thorough": dict(GCA={0, 1, 2, 30, 45, 60, 89, 90, 91, 95, 120, 135, 150, 174, 175, 179, 180, 181, 185, 269, 270,
                          271, 275, 359}, BMax=2, MerLons={0, 90, 95}, PoleLons={0, 217, 360}, MaxD=15, NMaskMax=5),
}

# tolerances of the property statement, in degrees; ALLOW covers the rounding of the lattice
# inputs to doubles (<= 1/2 ulp(720) = 5.7e-14 degree per coordinate)
TOL = {"sphdist": Fraction(1, 10 ** 11), "gcirc": Fraction(2, 10 ** 6)}
ALLOW = Fraction(2, 10 ** 13)

# (function, units in, units out, k1, k2, swap): k1/k2 multiples of 360 added to the first /
# second longitude of the call, swap = arguments exchanged
V_BASE = [("sphdist", "deg", "deg", 0, 0, 0), ("sphdist", "deg", "deg", 0, 0, 1),
          ("gcirc", "deg", "rad", 0, 0, 0), ("gcirc", "deg", "rad", 0, 0, 1),
          ("sphdist", "rad", "rad", 0, 0, 0)]
V_MORE = [("sphdist", "deg", "deg", 1, 0, 0), ("sphdist", "deg", "deg", 0, -1, 0), ("sphdist", "deg", "deg", 1, 1, 1),
          ("gcirc", "deg", "rad", 1, 0, 0), ("gcirc", "deg", "rad", -1, 1, 1),
          ("sphdist", "rad", "deg", 0, 1, 0), ("sphdist", "deg", "rad", -1, 0, 1), ("sphdist", "rad", "rad", 1, -1, 1)]
SHAPES = ("scalar", "n1", "n3", "long", "one_vs_n3", "n2x3")     # one_vs_n3: first point python floats, second point arrays;
                                                                  # n2x3: two-dimensional arrays of shape (2, 3)
BLOCK = 240          # pairs per evaluation block = length of the "long" arrays


# ---------------------------------------------------------------------------------
# abstract -> concrete
def pair_args(pr, var):
    """the four doubles (lon1, lat1, lon2, lat2) of one call, in the variant's input units"""
    fn, uin, uout, k1, k2, swap = var
    conv = sl.deg_float if uin == "deg" else sl.rad_float
    if pr["kind"] == "gc":
        eps = sl.EPS[pr["eps"]]
        a, b = (pr["c"]["q"], pr["c"]["p"]) if swap else (pr["c"]["p"], pr["c"]["q"])
        return (conv(sl.eangle(a["lon"], eps, k1)), conv(sl.eangle(a["lat"], eps)),
                conv(sl.eangle(b["lon"], eps, k2)), conv(sl.eangle(b["lat"], eps)))
    a, b = (pr["Q"], pr["P"]) if swap else (pr["P"], pr["Q"])
    return (conv(Fraction(a[0]) + 360 * k1), conv(Fraction(a[1])), conv(Fraction(b[0]) + 360 * k2), conv(Fraction(b[1])))


def call(var, A, mixed=False, twod=False):
    """A: (n,4) doubles or a tuple of 4 python floats -> list of per-element (err, value)"""
    import esutil.coords as co
    fn = var[0]
    scalar = isinstance(A, tuple)
    n = 1 if scalar else len(A)
    if scalar:
        args = A
    elif mixed:       # one point (python floats) against an array of points; only element 0 is the pair under test
        arrs = tuple(np.ascontiguousarray(A[:, k]) for k in (2, 3))
        args = (float(A[0, 0]), float(A[0, 1])) + arrs
        before = [a.tobytes() for a in arrs]
    else:
        args = tuple(np.ascontiguousarray(A[:, k]) for k in range(4))
        if twod:
            args = tuple(a.reshape(2, 3) for a in args)
        before = [a.tobytes() for a in args]
    try:
        with np.errstate(all="ignore"):
            if fn == "sphdist":
                res = co.sphdist(*args, units=[var[1], var[2]])
            else:
                res = co.gcirc(*args)
        res = np.asarray(res, dtype="f8").ravel()
        if res.size != n:
            out = [("ShapeError", None)] * n
        else:
            out = [("none", float(v)) for v in res]
    except Exception as e:  # noqa
        out = [(type(e).__name__, None)] * n
    if not scalar and [a.tobytes() for a in args if isinstance(a, np.ndarray)] != before:
        out = [("ArgumentModified", None)] * n
    return out[:1] if mixed else out


def project(pr, var, err, r):
    """one outcome -> the observation record judged by SphereTrace.tla (+ deviation for messages)"""
    fn, uin, uout, k1, k2, swap = var
    o = {"fn": fn, "samewrap": k1 == k2, "err": err, "fin": False, "rng": False, "zero": False, "on": False}
    o.update({"a": 0, "blo": 0, "bhi": 0} if pr["kind"] == "gc" else {"dn": 0, "dd": 1})
    dev = None
    if err != "none":
        return o, dev
    o["fin"] = math.isfinite(r)
    if not o["fin"]:
        return o, dev
    r_deg = Fraction(r) if uout == "deg" else sl.rad_to_deg_fraction(r)
    o["rng"] = bool(r >= 0.0 and r_deg <= 180)
    o["zero"] = bool(r == 0.0)
    tol = TOL[fn] + ALLOW
    if pr["kind"] == "gc":
        o["on"], o["a"], o["blo"], o["bhi"] = sl.project_gc(r_deg, sl.EPS[pr["eps"]], tol)
        dev = abs(float(r_deg - sl.eangle(pr["sep"], sl.EPS[pr["eps"]])))
    else:
        with localcontext() as c:
            c.prec = sl.PREC
            d = abs(Decimal(r_deg.numerator) / Decimal(r_deg.denominator) - pr["theta"])
            dev = float(d)
            if d <= Decimal(tol.numerator) / Decimal(tol.denominator):
                o["on"], o["dn"], o["dd"] = True, pr["dot"], pr["den"]
    return o, dev


OKEYS = ("fn", "samewrap", "err", "fin", "rng", "zero", "on", "a", "blo", "bhi", "dn", "dd")


def eval_block(arg):
    """evaluate every variant x shape on one block of pairs.  Returns (records, perm_long): one trace
    record per pair whose observations are the distinct *projections* of everything that came back;
    members[k] lists the evaluations (variant, shapes, call) behind observation k."""
    bno, bseed, pairs, variants = arg
    rng = random.Random(bseed)
    n = len(pairs)
    perm_long = list(range(n))
    rng.shuffle(perm_long)
    perm3 = list(range(n))
    rng.shuffle(perm3)
    t = 0
    while len(perm3) % 3:                        # pad the last group of three with already used pairs
        perm3.append(perm3[t])
        t += 1
    groups = ([("scalar", [m]) for m in range(n)] + [("n1", [m]) for m in range(n)] +
              [("n3", perm3[t:t + 3]) for t in range(0, len(perm3), 3)] + [("long", perm_long)] +
              [("one_vs_n3", [m, perm3[m % len(perm3)], perm_long[m]]) for m in range(n)] +
              [("n2x3", (perm_long + perm_long[:6])[t:t + 6]) for t in range(0, n, 6)])
    raw = [dict() for _ in pairs]                # per pair: (vi, err, hex) -> [first (shape, idxs, pos), set of shapes]
    near = [sep_group(pr) == "near180" for pr in pairs]
    gnear = {id(idxs): any(near[t] for t in idxs) for _, idxs in groups}
    for vi, var in enumerate(variants):
        C = np.array([pair_args(pr, var) for pr in pairs], dtype="f8")
        for shape, idxs in groups:
            A = tuple(float(x) for x in C[idxs[0]]) if shape == "scalar" else C[idxs]
            for pos, (m, (err, v)) in enumerate(zip(idxs, call(var, A, mixed=(shape == "one_vs_n3"), twod=(shape == "n2x3")))):
                # an exception belongs to the whole call: remember whether the call held a near-antipodal pair
                key = (vi, err if v is not None or not gnear[id(idxs)] else err + "@near180", None if v is None else v.hex())
                cl = raw[m].get(key)
                if cl is None:
                    raw[m][key] = [(shape, None if shape == "long" else list(idxs), pos), {shape}]
                else:
                    cl[1].add(shape)
    out = []
    for m, pr in enumerate(pairs):
        merged = {}
        for key in sorted(raw[m], key=lambda kk: (kk[0], kk[1], kk[2] or "")):
            vi, err, hx = key
            (shape, idxs, pos), shapes = raw[m][key]
            err, _, incall = err.partition("@")
            o, dev = project(pr, variants[vi], err, None if hx is None else float.fromhex(hx))
            pk = tuple(o.get(f) for f in OKEYS)
            ent = merged.setdefault(pk, (o, []))
            ent[1].append({"vi": vi, "shapes": sorted(shapes), "shape": shape, "idxs": idxs, "pos": pos, "ret": hx,
                           "dev": dev, "incall": incall})
        obs, members = [], {}
        for k, (o, mem) in enumerate(merged.values(), 1):
            o["k"] = k
            obs.append(o)
            members[k] = mem
        nvar = len({key[0] for key in raw[m]})
        out.append({"id": pr["id"], "c": pr["c"], "obs": obs, "members": members, "b": bno,
                    "shape_dependent": len(raw[m]) - nvar,
                    "evals": sum(len(cl[1]) for cl in raw[m].values())})
    return out, perm_long


# ---------------------------------------------------------------------------------
def sep_group(pr):
    """which code path the true separation selects: identical/coincident, chord formula, or the
    cross-product branch (chord^2 >= 3.99  <=>  cos(sep) <= -0.995)"""
    if pr["kind"] == "gc":
        a, b = pr["sep"]
        if a == 0 and b == 0:
            return "zero"
        return "near180" if math.cos(math.radians(a + b * float(sl.EPS[pr["eps"]]))) <= -0.995 else "small"
    if pr["dot"] == pr["den"]:
        return "zero"
    return "near180" if 1000 * pr["dot"] <= -995 * pr["den"] else "small"


def build_pairs(exp, quick):
    """exported rows -> concrete pair list (great-circle cases first)"""
    gpts, spts = exp["GCPTS"][0]["pts"], exp["RSPTS"][0]["pts"]
    pairs = []
    n = 0
    for row in exp["GCROW"]:
        p = gpts[row["i"] - 1]
        for j, sep in zip(row["js"], row["seps"]):
            q = gpts[j - 1]
            n += 1
            hasb = any(t[1] for t in (p["lon"], p["lat"], q["lon"], q["lat"]))
            # quick: two of the four eps per abstract pair, alternating; thorough: all four
            es = (0,) if not hasb else ((0, 2) if n % 2 else (1, 3)) if quick else range(4)
            for e in es:
                pairs.append({"kind": "gc", "c": {"kind": "gc", "p": p, "q": q}, "eps": e, "sep": sep})
    ngc = len(pairs)
    P = [sl.rs_point_deg(v) for v in spts]
    for row in exp["RSROW"]:
        i = row["i"]
        for k, dot in enumerate(row["dots"]):
            j = i + k
            u, v = spts[i - 1], spts[j - 1]
            pairs.append({"kind": "rs", "c": {"kind": "rs", "u": u, "v": v}, "dot": dot, "den": u[3] * v[3],
                          "P": P[i - 1], "Q": P[j - 1]})
    for n, pr in enumerate(pairs, 1):
        pr["id"] = n
    return pairs, ngc


def add_theta(pr):
    if pr["kind"] == "rs":
        pr["theta"] = sl.exact_angle_deg(pr["dot"], pr["den"])
    return pr


def describe(pr, var, mem):
    return ("%s(units=%s,%s; +360*(%d,%d); %s; %s) returned %s for a true separation of %s%s" % (
        var[0], var[1], var[2], var[3], var[4], "swapped" if var[5] else "p,q", "/".join(mem["shapes"]),
        "an exception" if mem["ret"] is None else repr(float.fromhex(mem["ret"])) + (" rad" if var[2] == "rad" else " deg"),
        ("%d%+d*%s deg" % (pr["sep"][0], pr["sep"][1], sl.EPS_NAMES[pr["eps"]])) if pr["kind"] == "gc"
        else ("acos(%d/%d) = %.15g deg" % (pr["dot"], pr["den"], float(pr["theta"]))),
        "" if mem["dev"] is None else " (off by %.3g deg)" % mem["dev"]))


def judge(ctx, pid, recs, variants, blocks, what, cap=6):
    """TLC judges the records; rejected observations become violations with structural signatures:
    <function>|<clause>|<shapes that fail: anyshape or a list>|<separation classes that fail: anysep or a list>"""
    rejects = tracecheck.validate(ctx, "SphereTrace.tla",
                                  [{"id": r["id"], "c": r["c"], "obs": r["obs"]} for r in recs], what=what)
    byid = {r["id"]: r for r in recs}
    fails = []                                    # (fn, clause, sepgroup, shape, rec id, k, member index)
    for rid, failing in rejects.items():
        r, pr = byid[rid], pid[rid]
        for cl, k in failing:
            if cl == "malformed_case":
                raise MachineryError("SphereTrace rejected the case itself as malformed: %s" % r["c"])
            for mi, mem in enumerate(r["members"][k]):
                for shape in mem["shapes"]:     # the class of an exception is that of the whole call
                    fails.append((variants[mem["vi"]][0], cl, mem["incall"] or sep_group(pr), shape, rid, k, mi))
    groups_present = {sep_group(pid[r["id"]]) for r in recs}
    shapes_of, seps_of = {}, {}
    for fn, cl, sg, shape, rid, k, mi in fails:
        shapes_of.setdefault((fn, cl, sg), set()).add(shape)
    label = {key: ("anyshape" if v == set(SHAPES) else "+".join(sorted(v))) for key, v in shapes_of.items()}
    for (fn, cl, sg), lab in label.items():
        seps_of.setdefault((fn, cl, lab), set()).add(sg)
    glabel = {key: ("anysep" if v == groups_present else "+".join(sorted(v))) for key, v in seps_of.items()}
    emitted, done = {}, set()
    for fn, cl, sg, shape, rid, k, mi in sorted(fails):
        lab = label[(fn, cl, sg)]
        sig = "%s|%s|%s|%s" % (fn, cl, lab, glabel[(fn, cl, lab)])
        if emitted.get(sig, 0) >= cap or (sig, rid, k) in done:
            continue
        emitted[sig] = emitted.get(sig, 0) + 1
        done.add((sig, rid, k))
        r, pr = byid[rid], pid[rid]
        mem = r["members"][k][mi]
        var = variants[mem["vi"]]
        bpairs, perm_long = blocks[r["b"]]
        idxs = perm_long if mem["idxs"] is None else mem["idxs"]
        case = {"kind": pr["kind"], "c": pr["c"], "variant": list(var), "shape": mem["shape"], "index": mem["pos"],
                "call": [[float(x).hex() for x in pair_args(bpairs[t], var)] for t in idxs],
                "clause": cl, "sig": sig, "returned": mem["ret"]}
        if pr["kind"] == "gc":
            case.update(eps=pr["eps"], sep=pr["sep"])
        else:
            case.update(dot=pr["dot"], den=pr["den"], P=list(pr["P"]), Q=list(pr["Q"]))
        ctx.violation(sig, "clause %s of SphereTrace.tla: %s" % (cl, describe(pr, var, mem)), case)
    return rejects, len(fails)


def run(ctx):
    sl.self_validate()
    B = BOUNDS[ctx.tier]
    consts = dict(B, FixedAxis=True, DoExport=False)
    # 1. the theorems the property relies on, on both bounded lattices; the branch mechanism refines its intent
    ctx.tlc("SphereMC.tla", what="lattice theorems + branch model (exhaustive)",
            cfg_text=cfg(constants=consts, invariants=["GCTheorems", "RSTheorems", "BranchRefines"]),
            workers=16, require=["PickGC1", "PickGC2", "PickRS1", "PickRS2", "PickMask", "RunBranch"], timeout=3000)
    # 1b. the pinned mask-on-the-wrong-axis mechanism must violate BranchRefines (non-vacuity)
    small = dict(consts, GCA={0, 90}, BMax=0, MerLons={0}, PoleLons={0}, MaxD=1, NMaskMax=3, FixedAxis=False)
    r1b = ctx.tlc("SphereMC.tla", what="self-test: mask on the coordinate axis violates BranchRefines",
                  cfg_text=cfg(constants=small, invariants=["BranchRefines"]), workers=1, allow_violation=True,
                  coverage=False)
    if "BranchRefines" not in r1b.violated:
        raise MachineryError("self-test failed: BranchRefines not violated by the deviating mechanism")
    # 2. export the rows of exact separations (spec -> code)
    r2 = ctx.tlc("SphereMC.tla", what="export lattice rows",
                 cfg_text=cfg(constants=dict(consts, DoExport=True), next_="NextExport", constraints=["Export"]),
                 workers=1, coverage=False, timeout=3000)
    exp = r2.records
    for tag in ("GCPTS", "RSPTS", "GCROW", "RSROW"):
        if not exp.get(tag):
            raise MachineryError("nothing exported for %s" % tag)
    pairs, ngc = build_pairs(exp, ctx.quick)
    if ngc < 100 or len(pairs) - ngc < 100:
        raise MachineryError("too few pairs exported (%d gc, %d rs)" % (ngc, len(pairs) - ngc))
    pairs = pmap(add_theta, pairs)
    pid = {p["id"]: p for p in pairs}
    ctx.log("%d great-circle cases (abstract pair x eps), %d rational-sphere pairs" % (ngc, len(pairs) - ngc))
    # 3. evaluate: every variant on the great-circle lattice; on the sphere the base set + three wrapped (quick) / all
    v_gc = V_BASE + V_MORE
    v_rs = V_BASE + (V_MORE if not ctx.quick else [V_MORE[0], V_MORE[3], V_MORE[7]])
    rng = random.Random(ctx.seed)
    work, blocks = [], []
    for vs, sub in ((v_gc, pairs[:ngc]), (v_rs, pairs[ngc:])):
        order = list(range(len(sub)))
        rng.shuffle(order)                # mix the separation classes inside the arrays (seeded)
        nb = max(1, round(len(sub) / BLOCK), min(64, len(sub) // 48))     # >= 64 blocks keeps the pool busy
        for b in range(nb):
            work.append((len(work), ctx.seed * 7919 + len(work), [sub[t] for t in order[b::nb]], vs))
    res = pmap(eval_block, work, chunk=1)
    gc_recs, rs_recs = [], []
    for w, (out, perm_long) in zip(work, res):
        blocks.append((w[2], perm_long))
        (gc_recs if w[3] is v_gc else rs_recs).extend(out)
    gc_recs.sort(key=lambda r: r["id"])
    rs_recs.sort(key=lambda r: r["id"])
    recs = gc_recs + rs_recs
    for r in recs:
        ctx.count({"c": r["c"], "eps": pid[r["id"]].get("eps")})
    ctx.evaluations += sum(r["evals"] for r in recs) - len(recs)
    for r in recs[:: max(1, len(recs) // 4)][:4]:
        ctx.sample({"case": r["c"], "eps": pid[r["id"]].get("eps"), "observations": r["obs"]})
    # 4. TLC judges (code -> spec)
    rej1, nf1 = judge(ctx, pid, gc_recs, v_gc, blocks, "judge great-circle lattice evaluations (SphereTrace)")
    rej2, nf2 = judge(ctx, pid, rs_recs, v_rs, blocks, "judge rational-sphere evaluations (SphereTrace)")
    # 5. binding self-test: a corrupted observation must be rejected, its untouched twin accepted
    def first_good(rs, rej):
        for r in rs:
            if r["id"] not in rej:
                for o in r["obs"]:
                    if o["on"]:
                        return {"c": r["c"], "o": o, "real": True}
        o = dict(rs[0]["obs"][0], err="none", fin=True, rng=True, on=True, zero=False)
        return {"c": rs[0]["c"], "o": o, "real": False}       # nothing accepted on this tree: synthetic twin
    probe, good = [], [first_good(gc_recs, rej1), first_good(rs_recs, rej2)]
    for n, g in enumerate(good):
        bad = dict(g["o"])
        if "a" in bad and bad.get("dd") is None:
            bad["a"] += 1
        else:
            bad["dn"], bad["dd"] = bad["dn"] + 1, max(bad["dd"], 1)
        probe.append({"id": 2 * n + 1, "c": g["c"], "obs": [bad]})
        probe.append({"id": 2 * n + 2, "c": g["c"], "obs": [g["o"]]})
    saved = ctx.traces
    rej = tracecheck.validate(ctx, "SphereTrace.tla", probe, what="self-test: corrupted record rejected", workers=1)
    ctx.traces = saved
    if not (1 in rej and 3 in rej) or any(g["real"] and 2 * n + 2 in rej for n, g in enumerate(good)):
        raise MachineryError("binding self-test failed: %s" % rej)
    shape_dep = sum(r["shape_dependent"] for r in recs)
    ctx.rule = ("every unordered pair (incl. p=q) of the %d great-circle-lattice points (positions %s deg x eps multiples "
                "-%d..%d on the equator and the meridian circles %s, poles also at longitudes %s) that lie on a common "
                "lattice circle, x eps in {1e-12,1e-9,1e-6,1e-3} deg%s; every unordered pair of the %d rational-sphere points "
                "with denominator <= %d (all exported from SphereMC.tla); each evaluated by sphdist (4 unit combinations), "
                "gcirc, both argument orders, +-360 on the longitudes, as scalar / length-1 / length-3 / length-~%d arrays; "
                "a case is distinct by (abstract pair, eps) and non-trivial always" %
                (len(exp["GCPTS"][0]["pts"]), sorted(B["GCA"]), B["BMax"], B["BMax"], sorted(B["MerLons"]),
                 sorted(B["PoleLons"]), " (quick: two of the four per pair, alternating)" if ctx.quick else "",
                 len(exp["RSPTS"][0]["pts"]), B["MaxD"], BLOCK))
    ctx.exhaustive = True
    ctx.note(bounds={k: sorted(v) if isinstance(v, set) else v for k, v in B.items()}, gc_cases=ngc,
             rs_pairs=len(pairs) - ngc, variants_gc=len(v_gc), variants_rs=len(v_rs), rejected_records=len(rej1) + len(rej2),
             failing_evaluations=nf1 + nf2, informational_shape_dependent_results=shape_dep,
             tolerances_deg={"sphdist": "1e-11", "gcirc": "2e-6", "input_rounding_allowance": "2e-13"})
    ctx.trusted_base += ["fractions.Fraction / decimal (60 digits) arithmetic of vh.spherelat (self-validated per run: pi, "
                         "sin/cos series, exact_angle_deg anchors)",
                         "float(Fraction) correctly rounded; longdouble atan2 for the rational-sphere inputs"]
    ctx.assumptions = ["lattice inputs are rounded once to doubles; the projection accepts 2e-13 deg beyond the stated "
                       "tolerance for that rounding",
                       "symmetric / unchanged by +360 / same for scalar and array are read at the function's stated accuracy "
                       "(each argument order, wrap and shape must itself be accepted; the lattice theorems GThmSymmetric, "
                       "GThmWrap make the expected value independent of them); only 'exactly zero for identical inputs' is "
                       "exact; bit-level shape dependence is reported as a note, not judged",
                       "accuracy at generic doubles off both lattices is not decided (no transcendental oracle in TLA+)"]


def replay(ctx, case):
    sl.self_validate()
    var = tuple(case["variant"])
    C = np.array([[float.fromhex(x) for x in row] for row in case["call"]], dtype="f8")
    A = tuple(float(x) for x in C[0]) if case["shape"] == "scalar" else C
    err, v = call(var, A, mixed=(case["shape"] == "one_vs_n3"), twod=(case["shape"] == "n2x3"))[case["index"]]
    pr = {"kind": case["kind"], "c": case["c"], "id": 1}
    if case["kind"] == "gc":
        pr.update(eps=case["eps"], sep=case["sep"])
    else:
        pr.update(dot=case["dot"], den=case["den"], P=tuple(case["P"]), Q=tuple(case["Q"]))
        add_theta(pr)
    o, dev = project(pr, var, err, v)
    o["k"] = 1
    print("replay observed: err=%s value=%r projection=%s deviation=%s" % (err, v, o, dev))
    rej = tracecheck.validate(ctx, "SphereTrace.tla", [{"id": 1, "c": case["c"], "obs": [o]}], what="replay", workers=1)
    for cl, k in rej.get(1, []):
        sig = case["sig"] if cl == case.get("clause") else "%s|%s|%s|replay" % (var[0], cl, case["shape"])
        ctx.violation(sig, "clause %s of SphereTrace.tla on replay: returned %r (%s)" % (cl, v, err), case)
