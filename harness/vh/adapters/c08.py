"""C08 - angular separations equal the true great-circle angle.

spec -> code : SphereMC.tla checks the lattice theorems of Sphere.tla (symmetry, range, zero iff
               same point, +-360 and common-shift invariance, additivity, ...) on the bounded
               great-circle lattice and rational sphere and exports, per first point, the row of
               exact separations (eps-angles) / dot products.  Every exported pair is concretised
               (eps in 1e-12, 1e-9, 1e-6, 1e-3 degree) and evaluated by esutil.coords.sphdist (all
               four unit combinations) and gcirc, in both argument orders, with +-360 added to the
               longitudes, as python scalars, length-1, length-3 and long arrays.
               SCALE (Sphere.tla 3a): the separation functions are elementwise, so a call on 2^20 +- 1 or
               2^21 + 5 pairs that repeats a small tile of lattice pairs is decided by the tile
               (laws GThmConcat / GThmCycle / GThmBroadcast, checked by TLC).  SphereMC exports the
               class-cyclic tiles and the design of the large cases (length x rotation x shape x
               function/units); each large result is compressed per tile position to the distinct
               values it holds (with counts) and those are judged like any other evaluation, plus the
               clause scale_complete.  The tile alone is evaluated too (a part of the law).
               TURNS (Sphere.tla 3b): k*360 degrees / the double nearest to (lon + 360 k) in radians for
               |k| up to 10^6, negative turns, -0.0 coordinates.  The doubles handed to the code are then
               displaced from the lattice longitude by an exactly known amount; only the classes of pairs
               whose separation is an exactly known function of the displacement are judged (the trace
               module re-checks the claimed class), the tolerance applies to the angle of the ACTUAL doubles.
               WORLD (SphereWorld.tla, class W): the outcome of eq2xyz / xyz2eq / sphdist / gcirc depends on the
               arguments only - not on earlier calls of any entry point in the process, nor on what the caller did to
               results it was handed or to its argument buffers.  TLC checks the world machine (heap of cells + a
               module-level memo of the shared conversion kernels) for the faithful mechanisms on all sessions of
               <= 3 steps and finds every deviating mechanism (memo handing out its own storage; key merging twin
               points; key ignoring the unit).  The exported sessions (writer call, Scribble(result) / ScribbleArgs /
               nothing, reader call; also reader-first) cover every ordered pair of entry points x forms (python scalar,
               numpy scalar, 1-element array) x relation (same point, twin point 2 eps away, same numbers with the
               other unit).  Each session runs in ONE fresh process (forked from a helper that imported esutil and
               called nothing); every call is compared with the same call as the only call of a fresh process
               (SphereWorldTrace.tla: world_independent, results_are_callers, arguments_unchanged, no_error) and every
               sphdist / gcirc call on-unit is also judged by the exact lattice separation (SphereTrace.tla).
code -> spec : every returned number is *projected* onto the lattice with exact Fraction / 60-digit
               decimal arithmetic (vh.spherelat) - "the lattice values within the stated tolerance
               of what came back" - and SphereTrace.tla, run by TLC, recomputes SepGC / CosSep from
               the case and accepts only the exact value; it also judges no_error, finite, range
               and "exactly zero for identical inputs".
Python never decides a verdict; it maps abstract <-> concrete and records.
"""
import math
import os
import random
import zlib
from decimal import Decimal, localcontext
from fractions import Fraction

import numpy as np

from .. import spherelat as sl
from .. import tracecheck
from ..core import MachineryError
from ..par import pmap
from ..tlc import cfg

NEEDS_EXT = True      # coords.py is pure python, but `import esutil` needs the compiled sub-packages (build is cached)

TURNMAGS = {1, 7, 100, 1000, 100000, 1000000}
BOUNDS = {
    "quick": dict(GCA={0, 1, 89, 90, 91, 95, 179, 180, 181, 270, 359}, BMax=1, MerLons={0, 95},
                  PoleLons={0, 217}, MaxD=7, NMaskMax=4, TurnMags=TURNMAGS, NScaleMax=7, TileMax=24, Thorough=False,
                  ScaleNs={2 ** 10 + 1, 2 ** 16 + 1, 2 ** 18 + 1, 2 ** 20 - 1, 2 ** 20, 2 ** 20 + 1, 2 ** 21 + 5}),
    "thorough": dict(GCA={0, 1, 2, 30, 45, 60, 89, 90, 91, 95, 120, 135, 150, 174, 175, 179, 180, 181, 185, 269, 270,
                          271, 275, 359}, BMax=2, MerLons={0, 90, 95}, PoleLons={0, 217, 360}, MaxD=15, NMaskMax=5,
                     TurnMags=TURNMAGS, NScaleMax=9, TileMax=32, Thorough=True,
                     ScaleNs={2 ** 10 - 1, 2 ** 10, 2 ** 10 + 1, 2 ** 16 - 1, 2 ** 16, 2 ** 16 + 1, 2 ** 18 - 1, 2 ** 18,
                              2 ** 18 + 1, 2 ** 20 - 1, 2 ** 20, 2 ** 20 + 1, 2 ** 21 - 1, 2 ** 21, 2 ** 21 + 5}),
}
# rows of the many-turn design evaluated per block of pairs (the rows are spread over the blocks)
TURN_ROWS_PER_BLOCK = {"quick": 4, "thorough": 4}

# eps instantiations: the four decimal ones of vh.spherelat and 2^-44 degree = 1 ulp of the doubles in
# [256, 512): 360 - eps is the largest double below 360 and every lattice value is a double exactly
EPS = tuple(sl.EPS) + (Fraction(1, 2 ** 44),)
EPS_NAMES = tuple(sl.EPS_NAMES) + ("2^-44",)

# tolerances of the property statement, in degrees; ALLOW covers the rounding of the lattice
# inputs to doubles (<= 1/2 ulp(720) = 5.7e-14 degree per coordinate)
TOL = {"sphdist": Fraction(1, 10 ** 11), "gcirc": Fraction(2, 10 ** 6)}
ALLOW = Fraction(2, 10 ** 13)

# (function, units in, units out, k1, k2, swap, nz): k1/k2 multiples of 360 added to the first /
# second longitude of the call, swap = arguments exchanged, nz = every coordinate that is zero is given as -0.0
V_BASE = [("sphdist", "deg", "deg", 0, 0, 0, 0), ("sphdist", "deg", "deg", 0, 0, 1, 0),
          ("gcirc", "deg", "rad", 0, 0, 0, 0), ("gcirc", "deg", "rad", 0, 0, 1, 0),
          ("sphdist", "rad", "rad", 0, 0, 0, 0)]
V_MORE = [("sphdist", "deg", "deg", 1, 0, 0, 0), ("sphdist", "deg", "deg", 0, -1, 0, 1), ("sphdist", "deg", "deg", 1, 1, 1, 0),
          ("gcirc", "deg", "rad", 1, 0, 0, 0), ("gcirc", "deg", "rad", -1, 1, 1, 1),
          ("sphdist", "rad", "deg", 0, 1, 0, 1), ("sphdist", "deg", "rad", -1, 0, 1, 0), ("sphdist", "rad", "rad", 1, -1, 1, 0),
          ("sphdist", "deg", "deg", 0, 0, 0, 1)]
SHAPES = ("scalar", "n1", "n3", "long", "one_vs_n3", "n2x3")     # one_vs_n3: first point python floats, second point arrays;
                                                                  # n2x3: two-dimensional arrays of shape (2, 3)
BLOCK = 240          # pairs per evaluation block = length of the "long" arrays
BATCH_ITEMS = 320    # blocks / large calls evaluated and judged together (bounds the memory of the thorough tier)


# ---------------------------------------------------------------------------------
# abstract -> concrete
def vnorm(var):
    """variants recorded before the nz field existed have six entries"""
    var = tuple(var)
    return var if len(var) >= 7 else var + (0,) * (7 - len(var))


def pair_args(pr, var):
    """the four doubles (lon1, lat1, lon2, lat2) of one call, in the variant's input units"""
    fn, uin, uout, k1, k2, swap, nz = vnorm(var)
    conv = sl.deg_float if uin == "deg" else sl.rad_float
    if pr["kind"] == "gc":
        eps = EPS[pr["eps"]]
        a, b = (pr["c"]["q"], pr["c"]["p"]) if swap else (pr["c"]["p"], pr["c"]["q"])
        out = (conv(sl.eangle(a["lon"], eps, k1)), conv(sl.eangle(a["lat"], eps)),
               conv(sl.eangle(b["lon"], eps, k2)), conv(sl.eangle(b["lat"], eps)))
    else:
        a, b = (pr["Q"], pr["P"]) if swap else (pr["P"], pr["Q"])
        out = (conv(Fraction(a[0]) + 360 * k1), conv(Fraction(a[1])), conv(Fraction(b[0]) + 360 * k2), conv(Fraction(b[1])))
    if nz:
        out = tuple(-0.0 if x == 0.0 else x for x in out)
    return out


# ---------------------------------------------------------------------------------
# many turns: the doubles handed to the code are displaced from the lattice longitude (Sphere.tla 3b)
def is_turn(var):
    return max(abs(var[3]), abs(var[4])) > 1


def actual_deg(x, uin):
    """the exact angle, in degrees, that the double x denotes"""
    return Fraction(x) if uin == "deg" else Fraction(x) * 180 / sl.PI_F


def circsep(t1, t2):
    """separation of two positions (exact degrees) on one circle: the shorter arc"""
    d = (t2 - t1) % 360
    return d if d <= 180 else 360 - d


def turn_info(pr, var, args):
    """(class, offset) under which this evaluation is decidable, or None.  offset = (separation of the
    ACTUAL double inputs) - (lattice separation), exact; non-zero only in class "equator"."""
    if not is_turn(var):
        return ("none", 0)            # at most one turn: the rounding of the inputs is inside ALLOW
    if pr["kind"] != "gc":
        return None
    fn, uin, uout, k1, k2, swap, nz = var
    a, b = (pr["c"]["q"], pr["c"]["p"]) if swap else (pr["c"]["p"], pr["c"]["q"])
    eps = EPS[pr["eps"]]
    L1, L2 = sl.eangle(a["lon"], eps, k1), sl.eangle(b["lon"], eps, k2)
    if uin == "deg" and a["lon"][1] == 0 and b["lon"][1] == 0:
        if Fraction(args[0]) != L1 or Fraction(args[2]) != L2:
            raise MachineryError("integer-degree longitude not exactly representable: %r" % (args,))
        return ("exact", 0)
    zero = [0, 0]
    if list(a["lat"]) == zero and list(b["lat"]) == zero:
        if args[1] != 0.0 or args[3] != 0.0:
            raise MachineryError("equatorial latitude is not zero: %r" % (args,))
        lat_sep = sl.eangle(pr["sep"], eps)               # SepGC as exported by the spec
        if circsep(L1, L2) != lat_sep:
            raise MachineryError("equatorial separation differs from the exported SepGC: %s" % (pr["c"],))
        return ("equator", circsep(actual_deg(args[0], uin), actual_deg(args[2], uin)) - lat_sep)
    if any(list(t["lat"]) in ([90, 0], [-90, 0]) for t in (a, b)):
        return ("pole", 0)
    if list(a["lon"]) == list(b["lon"]) and k1 == k2:
        if args[0] != args[2]:
            raise MachineryError("equal longitudes became different doubles: %r" % (args,))
        return ("samelon", 0)
    return None


def call(var, A, mixed=False, twod=False):
    """A: (n,4) doubles or a tuple of 4 python floats -> list of per-element (err, value)"""
    import esutil.coords as co
    fn = var[0]
    scalar = isinstance(A, tuple)
    n = 1 if scalar else len(A)
    if scalar:
        args = A
    elif mixed:       # one point (python floats) against an array of points; only element 0 is the pair under test
        arrs = tuple(np.ascontiguousarray(A[:, k]) for k in (2, 3))
        args = (float(A[0, 0]), float(A[0, 1])) + arrs
        before = [a.tobytes() for a in arrs]
    else:
        args = tuple(np.ascontiguousarray(A[:, k]) for k in range(4))
        if twod:
            args = tuple(a.reshape(2, 3) for a in args)
        before = [a.tobytes() for a in args]
    try:
        with np.errstate(all="ignore"):
            if fn == "sphdist":
                res = co.sphdist(*args, units=[var[1], var[2]])
            else:
                res = co.gcirc(*args)
        res = np.asarray(res, dtype="f8").ravel()
        if res.size != n:
            out = [("ShapeError", None)] * n
        else:
            out = [("none", float(v)) for v in res]
    except Exception as e:  # noqa
        out = [(type(e).__name__, None)] * n
    if not scalar and [a.tobytes() for a in args if isinstance(a, np.ndarray)] != before:
        out = [("ArgumentModified", None)] * n
    return out[:1] if mixed else out


def project(pr, var, err, r, tinfo=("none", 0)):
    """one outcome -> the observation record judged by SphereTrace.tla (+ deviation for messages).
    tinfo = (many-turn class, exactly known effect of the displacement of the inputs on the separation)"""
    fn, uin, uout, k1, k2, swap, nz = vnorm(var)
    tc, off = tinfo
    o = {"fn": fn, "samewrap": k1 == k2, "err": err, "fin": False, "rng": False, "zero": False, "on": False,
         "tc": tc, "uin": uin, "sh": bool(off != 0)}
    o.update({"a": 0, "blo": 0, "bhi": 0} if pr["kind"] == "gc" else {"dn": 0, "dd": 1})
    dev = None
    if err != "none":
        return o, dev
    o["fin"] = math.isfinite(r)
    if not o["fin"]:
        return o, dev
    r_deg = Fraction(r) if uout == "deg" else sl.rad_to_deg_fraction(r)
    o["rng"] = bool(r >= 0.0 and r_deg <= 180)
    o["zero"] = bool(r == 0.0)
    tol = TOL[fn] + ALLOW
    if pr["kind"] == "gc":
        # |r - (lattice separation + off)| <= tol  <=>  the lattice separation is within tol of r - off
        o["on"], o["a"], o["blo"], o["bhi"] = sl.project_gc(r_deg - off, EPS[pr["eps"]], tol)
        dev = abs(float(r_deg - off - sl.eangle(pr["sep"], EPS[pr["eps"]])))
    else:
        with localcontext() as c:
            c.prec = sl.PREC
            d = abs(Decimal(r_deg.numerator) / Decimal(r_deg.denominator) - pr["theta"])
            dev = float(d)
            if d <= Decimal(tol.numerator) / Decimal(tol.denominator):
                o["on"], o["dn"], o["dd"] = True, pr["dot"], pr["den"]
    return o, dev


OKEYS = ("fn", "samewrap", "err", "fin", "rng", "zero", "on", "a", "blo", "bhi", "dn", "dd", "tc", "uin", "sh")


def eval_block(arg):
    """evaluate every variant x shape on one block of pairs.  Returns (records, perm_long): one trace
    record per pair whose observations are the distinct *projections* of everything that came back;
    members[k] lists the evaluations (variant, shapes, call) behind observation k."""
    bno, bseed, pairs, variants, idoff = arg
    rng = random.Random(bseed)
    n = len(pairs)
    perm_long = list(range(n))
    rng.shuffle(perm_long)
    perm3 = list(range(n))
    rng.shuffle(perm3)
    t = 0
    while len(perm3) % 3:                        # pad the last group of three with already used pairs
        perm3.append(perm3[t])
        t += 1
    groups = ([("scalar", [m]) for m in range(n)] + [("n1", [m]) for m in range(n)] +
              [("n3", perm3[t:t + 3]) for t in range(0, len(perm3), 3)] + [("long", perm_long)] +
              [("one_vs_n3", [m, perm3[m % len(perm3)], perm_long[m]]) for m in range(n)] +
              [("n2x3", (perm_long + perm_long[:6])[t:t + 6]) for t in range(0, n, 6)])
    raw = [dict() for _ in pairs]                # per pair: (vi, err, hex) -> [first (shape, idxs, pos), set of shapes]
    near = [sep_group(pr) == "near180" for pr in pairs]
    gnear = {id(idxs): any(near[t] for t in idxs) for _, idxs in groups}
    tin = {}                                     # (pair, variant) -> many-turn class and offset; absent = not decidable
    for vi, var in enumerate(variants):
        rows = [pair_args(pr, var) for pr in pairs]
        C = np.array(rows, dtype="f8")
        for m, pr in enumerate(pairs):
            ti = turn_info(pr, var, rows[m])
            if ti is not None:
                tin[(m, vi)] = ti
        for shape, idxs in groups:
            if not any((m, vi) in tin for m in idxs) or (shape == "one_vs_n3" and (idxs[0], vi) not in tin):
                continue
            A = tuple(float(x) for x in C[idxs[0]]) if shape == "scalar" else C[idxs]
            for pos, (m, (err, v)) in enumerate(zip(idxs, call(var, A, mixed=(shape == "one_vs_n3"), twod=(shape == "n2x3")))):
                if (m, vi) not in tin:
                    continue
                # an exception belongs to the whole call: remember whether the call held a near-antipodal pair
                key = (vi, err if v is not None or not gnear[id(idxs)] else err + "@near180", None if v is None else v.hex())
                cl = raw[m].get(key)
                if cl is None:
                    raw[m][key] = [(shape, None if shape == "long" else list(idxs), pos), {shape}]
                else:
                    cl[1].add(shape)
    out = []
    for m, pr in enumerate(pairs):
        merged = {}
        for key in sorted(raw[m], key=lambda kk: (kk[0], kk[1], kk[2] or "")):
            vi, err, hx = key
            (shape, idxs, pos), shapes = raw[m][key]
            err, _, incall = err.partition("@")
            o, dev = project(pr, variants[vi], err, None if hx is None else float.fromhex(hx), tin[(m, vi)])
            pk = tuple(o.get(f) for f in OKEYS)
            ent = merged.setdefault(pk, (o, []))
            ent[1].append({"vi": vi, "shapes": sorted(shapes), "shape": shape, "idxs": idxs, "pos": pos, "ret": hx,
                           "dev": dev, "incall": incall})
        obs, members = [], {}
        for k, (o, mem) in enumerate(merged.values(), 1):
            o["k"] = k
            obs.append(o)
            members[k] = mem
        nvar = len({key[0] for key in raw[m]})
        if not obs:
            continue                              # no variant of this block is decidable for the pair
        out.append({"id": pr["id"] + ID_STEP * idoff, "pid": pr["id"], "c": pr["c"], "obs": obs, "members": members, "b": bno,
                    "shape_dependent": len(raw[m]) - nvar,
                    "evals": sum(len(cl[1]) for cl in raw[m].values())})
    return out, perm_long


# ---------------------------------------------------------------------------------
# SCALE: large array calls that repeat a tile of lattice pairs (Sphere.tla 3a)
ID_STEP = 1000000         # record ids: pair id (+ ID_STEP for the many-turn records); scale records from 2 * ID_STEP
MAX_DISTINCT = 4          # distinct deviating values kept per tile position of one large call


def _crc(a):
    return zlib.crc32(memoryview(np.ascontiguousarray(a)).cast("B"))


def call_big(var, cols, fixed):
    """cols: four arrays (n,) of doubles; fixed: None or the pair of column numbers that hold ONE point,
    which is then passed as two python floats -> (err, result (n,) float64 or None)"""
    import esutil.coords as co
    n = len(cols[0])
    args = [float(c[0]) if fixed and k in fixed else c for k, c in enumerate(cols)]
    before = [_crc(a) for a in args if isinstance(a, np.ndarray)]
    try:
        with np.errstate(all="ignore"):
            res = co.sphdist(*args, units=[var[1], var[2]]) if var[0] == "sphdist" else co.gcirc(*args)
        res = np.ascontiguousarray(np.asarray(res, dtype="f8").ravel())
        err = "none" if res.size == n else "ShapeError"
    except Exception as e:  # noqa
        err, res = type(e).__name__, None
    if [_crc(a) for a in args if isinstance(a, np.ndarray)] != before:
        err = "ArgumentModified"
    return err, (res if err == "none" else None)


def scale_eval(var, n, rot, shape, Ct):
    """Ct: (T,4) doubles of the tile.  Evaluates the call on the tile alone and the call on n pairs that
    repeat the tile from offset rot (element k shows tile position (k + rot) % T).  Returns per tile
    position the list of (source, err, hex value or None, count, first index): the distinct values the
    large result holds at that position, compressed in O(n), and the value of the tile call."""
    T = len(Ct)
    fixed = None if shape == 1 else ((2, 3) if var[5] else (0, 1))       # the columns of the one point
    if fixed and len({(float(a), float(b)) for a, b in Ct[:, list(fixed)]}) != 1:
        raise MachineryError("one-point-against-array tile has more than one first point")
    out = [[] for _ in range(T)]
    err, res = call_big(var, [np.ascontiguousarray(Ct[:, k]) for k in range(4)], fixed)
    for t in range(T):
        out[t].append(("tile", err, None if res is None else float(res[t]).hex(), 0, t))
    idx = (np.arange(n, dtype=np.int64) + rot) % T
    counts = np.bincount(idx, minlength=T)
    first = (np.arange(T, dtype=np.int64) - rot) % T           # first element that shows position t
    err, res = call_big(var, [np.ascontiguousarray(Ct[idx, k]) for k in range(4)], fixed)
    if res is None:
        for t in range(T):
            if counts[t]:
                out[t].append(("big", err, None, int(counts[t]), int(first[t])))
        return out
    bits = res.view(np.uint64)
    have = first < n
    ref = np.zeros(T, dtype=np.uint64)
    ref[have] = bits[first[have]]
    km = np.nonzero(bits != ref[idx])[0]                       # elements that differ from the first of their position
    extra = {}
    if km.size:
        key = np.stack([idx[km].astype(np.uint64), bits[km]])
        u, ui, uc = np.unique(key, axis=1, return_index=True, return_counts=True)
        for j in np.argsort(ui, kind="stable"):
            extra.setdefault(int(u[0, j]), []).append((int(km[ui[j]]), int(uc[j])))
    for t in range(T):
        if not counts[t]:
            continue
        ex = extra.get(t, [])
        if len(ex) > MAX_DISTINCT:                              # lump the rest with the last kept value
            ex = ex[:MAX_DISTINCT - 1] + [(ex[MAX_DISTINCT - 1][0], sum(c for _, c in ex[MAX_DISTINCT - 1:]))]
        out[t].append(("big", "none", float(res[first[t]]).hex(), int(counts[t]) - sum(c for _, c in ex), int(first[t])))
        for k, c in ex:
            out[t].append(("big", "none", float(res[k]).hex(), c, k))
    return out


def scale_tile(case, tiles, gpts):
    """the tile of one exported large case as a list of concrete lattice pairs"""
    tile = []
    for i in case["firsts"]:
        tl = tiles[i]
        for j, sep in zip(tl["js"], tl["seps"]):
            tile.append({"kind": "gc", "c": {"kind": "gc", "p": gpts[i - 1], "q": gpts[j - 1]}, "eps": case["e"], "sep": sep})
    return tile


def scale_var(case):
    return (case["fn"], case["uin"], case["uout"], 0, 0, case["swap"], 0)


def scale_record(rid, case, t, pr, var, outcomes):
    """the trace record of tile position t of a large call"""
    merged = {}
    for src, err, hx, cnt, k in outcomes:
        o, dev = project(pr, var, err, None if hx is None else float.fromhex(hx))
        pk = tuple(o.get(f) for f in OKEYS)
        ent = merged.setdefault(pk, (o, []))
        ent[1].append({"src": src, "ret": hx, "cnt": cnt, "index": k, "dev": dev})
    obs, members = [], {}
    for k, (o, mem) in enumerate(merged.values(), 1):
        o["k"] = k
        o["cnt"] = sum(m["cnt"] for m in mem)
        obs.append(o)
        members[k] = mem
    c = dict(pr["c"], kind="gcs", n=case["n"], T=case["T"], rot=case["rot"], t=t)
    return {"id": rid, "c": c, "obs": obs, "members": members}


def eval_scale(arg):
    sno, case, tile = arg
    var = scale_var(case)
    Ct = np.array([pair_args(pr, var) for pr in tile], dtype="f8")
    res = scale_eval(var, case["n"], case["rot"], case["shape"], Ct)
    recs = []
    for t, (pr, outs) in enumerate(zip(tile, res)):
        r = scale_record(2 * ID_STEP + sno * 4096 + t, dict(case, T=len(tile)), t, pr, var, outs)
        r.update(sno=sno, t=t, eps=pr["eps"], sep=pr["sep"],
                 bitdiff=len({o[2] for o in outs if o[1] == "none"}) - 1 if any(o[1] == "none" for o in outs) else 0)
        recs.append(r)
    return recs, [[float(x).hex() for x in row] for row in Ct]


def eval_work(item):
    return eval_scale(item[1:4]) if item[0] == "scale" else eval_block(item[1:6])


# ---------------------------------------------------------------------------------
# WORLD: sessions over the public entry points in ONE process (SphereWorld.tla)
WORLD = True              # class W dimension (disable = not exported, not run)
WORLD_EPS = (1, 2, 0)     # session field e -> eps instantiation: twins differ in the 10th / 7th / 13th digit
W_ID = 3 * ID_STEP        # record ids of the sessions' separation calls: W_ID + 8 * session + step
HARNESS_DIR = os.path.dirname(os.path.dirname(os.path.dirname(os.path.abspath(__file__))))


def world_call(c, wp, eidx):
    """abstract call of SphereWorld.tla -> concrete call {e, u, f, args (hex doubles)}"""
    eps = EPS[eidx]
    conv = sl.deg_float if c["nu"] == "deg" else sl.rad_float
    args = []
    for p in c["a"]:
        pt = wp["pts"][p - 1]
        if c["e"] == "xyz2eq":       # a direction as three numbers (the outcome is judged against the fresh world only)
            lon, lat = (math.radians(sl.deg_float(sl.eangle(pt[k], eps))) for k in ("lon", "lat"))
            args += [math.cos(lon) * math.cos(lat), math.sin(lon) * math.cos(lat), math.sin(lat)]
        else:
            args += [conv(sl.eangle(pt["lon"], eps)), conv(sl.eangle(pt["lat"], eps))]
    return {"e": c["e"], "u": c["u"], "nu": c["nu"], "f": c["f"], "p": list(c["a"]), "args": [float(x).hex() for x in args]}


def world_session(sess, wp):
    eidx = WORLD_EPS[sess["e"] % len(WORLD_EPS)]
    steps = [dict(st, c=world_call(st["c"], wp, eidx)) if st["op"] == "call" else dict(st) for st in sess["steps"]]
    return {"eps": eidx, "steps": steps, "tag": {k: sess[k] for k in ("i1", "i2", "f1", "f2", "rel", "t")}}


def _w_snapshot(res):
    parts = res if isinstance(res, tuple) else (res,)
    out = []
    for r in parts:
        a = np.asarray(r)
        out.append([type(r).__name__, a.dtype.str, list(a.shape), np.ascontiguousarray(a).tobytes().hex()])
    return out


def _w_run_session(sess):
    """executed in a forked child of a pristine process: the steps of one session, in order"""
    import esutil.coords as co
    held, out = [], []
    for st in sess["steps"]:
        if st["op"] == "call":
            c = st["c"]
            xs = [float.fromhex(x) for x in c["args"]]
            mk = {"scalar": float, "npscalar": np.float64, "arr1": lambda x: np.array([x], dtype="f8")}[c["f"]]
            args = [mk(x) for x in xs]
            before = [a.tobytes() for a in args if isinstance(a, np.ndarray)]
            rec = {"op": "call", "err": "none", "out": None, "argsok": True}
            res = None
            try:
                with np.errstate(all="ignore"):
                    if c["e"] == "eq2xyz":
                        res = co.eq2xyz(*args, units=c["u"])
                    elif c["e"] == "xyz2eq":
                        res = co.xyz2eq(*args, units=c["u"])
                    elif c["e"] == "sphdist":
                        res = co.sphdist(*args, units=[c["u"], c["u"]])
                    else:
                        res = co.gcirc(*args)
                rec["out"] = _w_snapshot(res)
            except Exception as e:  # noqa
                rec["err"] = type(e).__name__
            rec["argsok"] = [a.tobytes() for a in args if isinstance(a, np.ndarray)] == before
            held.append((res, args))
            out.append(rec)
        else:
            res, args = held[st["h"] - 1]
            targets = args if st["op"] == "scribble_args" else (res if isinstance(res, tuple) else (res,))
            n = 0
            for a in targets:
                if isinstance(a, np.ndarray) and a.flags.writeable and a.dtype.kind == "f":
                    if st["how"] == 0:
                        a *= 1500.0
                    elif st["how"] == 1:
                        a[...] = np.nan
                    else:
                        a[...] = 0.0
                    n += 1
            held.append(None)
            out.append({"op": st["op"], "h": st["h"], "n": n})
    for rec, h in zip(out, held):
        if rec["op"] == "call":
            rec["kept"] = bool(rec["err"] != "none" or _w_snapshot(h[0]) == rec["out"])
    return out


def _world_zygote():
    """main of the helper process: imports esutil, calls nothing, forks one child per session"""
    import json
    import sys
    job = json.load(sys.stdin)
    import esutil
    if not os.path.realpath(esutil.__file__).startswith(os.path.realpath(job["tree"])):
        print(json.dumps({"error": "esutil imported from %s" % esutil.__file__}))
        return
    import esutil.coords  # noqa
    results = []
    for sess in job["sessions"]:
        r, w = os.pipe()
        pid = os.fork()
        if pid == 0:
            try:
                os.close(r)
                data = json.dumps(_w_run_session(sess)).encode()
                with os.fdopen(w, "wb") as f:
                    f.write(data)
            finally:
                os._exit(0)
        os.close(w)
        with os.fdopen(r, "rb") as f:
            data = f.read()
        os.waitpid(pid, 0)
        results.append(json.loads(data) if data else None)
    print(json.dumps({"results": results}))


def world_exec(ctx, sessions, lanes=None):
    """run every session in a fresh process image (helper processes that fork one child per session)"""
    import json
    import subprocess
    import sys
    from concurrent.futures import ThreadPoolExecutor
    lanes = lanes or max(1, min(8, int(os.environ.get("VH_MAX_WORKERS", "16")), len(sessions) // 32 + 1))
    code = "import sys; sys.path.insert(0, %r); from vh.adapters import c08; c08._world_zygote()" % HARNESS_DIR
    tree = ctx.tree or os.path.dirname(os.path.dirname(os.path.realpath(__import__("esutil").__file__)))

    def lane(k):
        part = sessions[k::lanes]
        p = subprocess.run([sys.executable, "-c", code], input=json.dumps({"tree": tree, "sessions": part}),
                           stdout=subprocess.PIPE, stderr=subprocess.PIPE, text=True, timeout=900)
        try:
            res = json.loads(p.stdout.strip().splitlines()[-1])
        except (ValueError, IndexError):
            raise MachineryError("world helper process failed (rc %s): %s" % (p.returncode, p.stderr[-2000:]))
        if "error" in res:
            raise MachineryError("world helper process: " + res["error"])
        return res["results"]
    with ThreadPoolExecutor(lanes) as ex:
        parts = list(ex.map(lane, range(lanes)))
    out = [None] * len(sessions)
    for k, part in enumerate(parts):
        out[k::lanes] = part
    return out


def world_eval(ctx, sessions):
    """sessions (concrete) -> per session the trace record of SphereWorldTrace.tla (+ raw outcomes): every call step
    is compared with the same call made as the only call of a fresh process"""
    import json
    keyof = lambda c: json.dumps(c, sort_keys=True)  # noqa
    refs = {}
    for s in sessions:
        for st in s["steps"]:
            if st["op"] == "call":
                refs.setdefault(keyof(st["c"]), st["c"])
    rkeys = sorted(refs)
    singles = [{"steps": [{"op": "call", "c": refs[k]}]} for k in rkeys]
    res = world_exec(ctx, singles + sessions)
    fresh = {}
    for k, r in zip(rkeys, res[:len(singles)]):
        if r is None:
            raise MachineryError("fresh-world reference call died: %s" % k)
        fresh[k] = (r[0]["err"], r[0]["out"])
    recs = []
    for s, r in zip(sessions, res[len(singles):]):
        steps = []
        for n, st in enumerate(s["steps"]):
            if st["op"] != "call":
                steps.append({"op": st["op"], "h": st["h"]})
            elif r is None:
                steps.append({"op": "call", "err": "ProcessDied", "same": False, "kept": False, "argsok": False})
            else:
                o = r[n]
                steps.append({"op": "call", "err": o["err"], "same": (o["err"], o["out"]) == fresh[keyof(st["c"])],
                              "kept": o["kept"], "argsok": o["argsok"]})
        recs.append({"steps": steps, "raw": r, "fresh": fresh})
    return recs


def world_gc_record(rid, wp, eidx, c, o):
    """a separation call of a session as a record of SphereTrace.tla (only when the numbers were made for the declared unit)"""
    p, q = c["p"]
    pr = {"kind": "gc", "c": {"kind": "gc", "p": wp["pts"][p - 1], "q": wp["pts"][q - 1]}, "eps": eidx, "sep": wp["seps"][p - 1][q - 1]}
    var = ("sphdist", c["u"], c["u"], 0, 0, 0, 0) if c["e"] == "sphdist" else ("gcirc", "deg", "rad", 0, 0, 0, 0)
    err, v = o["err"], None
    if err == "none":
        a = np.frombuffer(bytes.fromhex(o["out"][0][3]), dtype=np.dtype(o["out"][0][1])) if len(o["out"]) == 1 else np.zeros(0)
        if a.size == 1 and a.dtype.kind == "f":
            v = float(a[0])
        else:
            err = "ShapeError"
    ob, dev = project(pr, var, err, v)
    ob["k"] = 1
    return {"id": rid, "c": pr["c"], "obs": [ob], "dev": dev, "ret": v}


def world_judge(ctx, wp, sessions, cap=4, recs=None):
    """run, record, let TLC judge (SphereWorldTrace: independence of the process history; SphereTrace: the exact
    separation of every sphdist / gcirc call made inside a session) -> violations.  Returns counters."""
    from concurrent.futures import ThreadPoolExecutor
    recs = recs or world_eval(ctx, sessions)
    wrecs = [{"id": n + 1, "steps": r["steps"]} for n, r in enumerate(recs)]
    grecs = {}
    for n, (s, r) in enumerate(zip(sessions, recs)):
        for k, st in enumerate(s["steps"]):
            if st["op"] == "call" and st["c"]["e"] in ("sphdist", "gcirc") and st["c"]["nu"] == st["c"]["u"] and r["raw"] is not None:
                g = world_gc_record(W_ID + 8 * n + k, wp, s["eps"], st["c"], r["raw"][k])
                grecs[g["id"]] = g
    with ThreadPoolExecutor(2) as ex:
        f1 = ex.submit(tracecheck.validate, ctx, "SphereWorldTrace.tla", wrecs, what="judge sessions (SphereWorldTrace)")
        f2 = ex.submit(tracecheck.validate, ctx, "SphereTrace.tla", [{"id": g["id"], "c": g["c"], "obs": g["obs"]} for g in grecs.values()],
                       what="judge separation calls inside sessions (SphereTrace)")
        rej_w, rej_g = f1.result(), f2.result()
    emitted = {}

    def emit(sig, what_, n, k, cl):
        if emitted.get(sig, 0) < cap:
            emitted[sig] = emitted.get(sig, 0) + 1
            ctx.violation(sig, what_, {"kind": "world", "session": sessions[n], "step": k, "clause": cl, "sig": sig})

    def story(n, k):
        s = sessions[n]
        txt = []
        for st in s["steps"][:k + 1]:
            if st["op"] == "call":
                c = st["c"]
                txt.append("%s(%s; units=%s; %s)" % (c["e"], ", ".join(repr(float.fromhex(x)) for x in c["args"]), c["u"], c["f"]))
            else:
                txt.append("caller overwrites the %s of step %d in place" % ("result" if st["op"] == "scribble" else "argument arrays", st["h"]))
        return " ; ".join(txt)
    for rid, failing in sorted(rej_w.items()):
        n = rid - 1
        for cl, k1 in failing:
            if cl in MACHINERY_CLAUSES:
                raise MachineryError("SphereWorldTrace rejected the record itself: %s" % sessions[n])
            k = k1 - 1
            s = sessions[n]
            writers = sorted({st["c"]["e"] for st in s["steps"][:k] if st["op"] == "call"})
            sig = "world|%s|%s->%s" % (cl, "+".join(writers) or "-", s["steps"][k]["c"]["e"])
            raw = recs[n]["raw"]
            emit(sig, "clause %s of SphereWorldTrace.tla at step %d of the session [%s]: returned %s, the same call in a fresh "
                 "process returns %s" % (cl, k1, story(n, k), None if raw is None else (raw[k]["err"], raw[k]["out"]),
                                         recs[n]["fresh"].get(__import__("json").dumps(s["steps"][k]["c"], sort_keys=True))), n, k, cl)
    for rid, failing in sorted(rej_g.items()):
        n, k = divmod(rid - W_ID, 8)
        g = grecs[rid]
        for cl, _ in failing:
            if cl in MACHINERY_CLAUSES:
                raise MachineryError("SphereTrace rejected the record itself (%s): %s" % (cl, g["c"]))
            c = sessions[n]["steps"][k]["c"]
            sig = "%s|%s|session" % (c["e"], cl)
            emit(sig, "clause %s of SphereTrace.tla at step %d of the session [%s]: returned %r for a true separation of %d%+d*%s deg"
                 % (cl, k + 1, story(n, k), g["ret"], g["obs"] and wp["seps"][c["p"][0] - 1][c["p"][1] - 1][0],
                    wp["seps"][c["p"][0] - 1][c["p"][1] - 1][1], EPS_NAMES[sessions[n]["eps"]]), n, k, cl)
    for n, s in enumerate(sessions):
        ctx.count({"world": s["tag"], "eps": s["eps"]}, n=sum(1 for st in s["steps"] if st["op"] == "call"))
    scrib = sum(st.get("n", 0) for r in recs if r["raw"] for st in r["raw"] if st["op"] == "scribble")
    if not scrib or not grecs:
        raise MachineryError("world sessions: nothing scribbled / no separation call judged (%d, %d)" % (scrib, len(grecs)))
    return {"sessions": len(sessions), "session_calls": sum(len(r["steps"]) for r in recs), "fresh_reference_calls": len(recs[0]["fresh"]) if recs else 0,
            "separation_calls_in_sessions": len(grecs), "arrays_scribbled": scrib, "rejected_sessions": len(rej_w), "rejected_session_separations": len(rej_g)}


def world_model(ctx):
    """SphereWorld.tla: the faithful mechanisms satisfy WorldInv on every session up to MaxLen steps, every deviating one
    violates it; export the points and the sessions"""
    from concurrent.futures import ThreadPoolExecutor
    allf = {"scalar", "npscalar", "arr1"}
    base = dict(Mechs={"none", "copy"}, MaxLen=3, MCForms={"scalar"} if ctx.quick else {"scalar", "arr1"}, MemoForms=allf, Thorough=not ctx.quick, DoExport=False)
    devs = (("alias", "AliasOK"), ("coarse_digits", "CoarseDigitsOK"), ("coarse_units", "CoarseUnitsOK"))

    def dev(md):
        return ctx.tlc("SphereWorld.tla", what="self-test: mechanism %s violates WorldInv" % md[0],
                       cfg_text=cfg(constants=dict(base, Mechs={md[0]}, MCForms={"scalar"}), invariants=[md[1]]),
                       workers=1, allow_violation=True, coverage=False)

    def main():
        return ctx.tlc("SphereWorld.tla", what="world machine: faithful mechanisms, all sessions <= 3 steps",
                       cfg_text=cfg(constants=base, invariants=["FaithfulOK"]), workers=8, require=["DoCall", "DoScribble", "DoScribbleArgs"])

    def export():
        return ctx.tlc("SphereWorld.tla", what="export world points and sessions",
                       cfg_text=cfg(constants=dict(base, Mechs={"none"}, MaxLen=0, DoExport=True), constraints=["Export"]),
                       workers=1, coverage=False)
    with ThreadPoolExecutor(5) as ex:
        fm, fe = ex.submit(main), ex.submit(export)
        fd = [ex.submit(dev, md) for md in devs]
        fm.result()
        for md, f in zip(devs, fd):
            if md[1] not in f.result().violated:
                raise MachineryError("self-test failed: mechanism %s does not violate %s" % md)
        exp = fe.result().records
    if not exp.get("WPTS") or not exp.get("WSESS"):
        raise MachineryError("world sessions not exported")
    wp = exp["WPTS"][0]
    sessions = [world_session(s, wp) for s in exp["WSESS"][0]["sessions"]]
    if len(sessions) < 500:
        raise MachineryError("too few world sessions exported (%d)" % len(sessions))
    return wp, sessions


# ---------------------------------------------------------------------------------
def sep_group(pr):
    """which code path the true separation selects: identical/coincident, chord formula, or the
    cross-product branch (chord^2 >= 3.99  <=>  cos(sep) <= -0.995)"""
    if pr["kind"] == "gc":
        a, b = pr["sep"]
        if a == 0 and b == 0:
            return "zero"
        return "near180" if math.cos(math.radians(a + b * float(EPS[pr["eps"]]))) <= -0.995 else "small"
    if pr["dot"] == pr["den"]:
        return "zero"
    return "near180" if 1000 * pr["dot"] <= -995 * pr["den"] else "small"


def build_pairs(exp, quick):
    """exported rows -> concrete pair list (great-circle cases first)"""
    gpts, spts = exp["GCPTS"][0]["pts"], exp["RSPTS"][0]["pts"]
    pairs = []
    n = 0
    for row in exp["GCROW"]:
        p = gpts[row["i"] - 1]
        for j, sep in zip(row["js"], row["seps"]):
            q = gpts[j - 1]
            n += 1
            hasb = any(t[1] for t in (p["lon"], p["lat"], q["lon"], q["lat"]))
            # quick: two of the four eps per abstract pair, alternating; thorough: all four
            es = (0,) if not hasb else ((0, 2) if n % 2 else (1, 3)) if quick else range(4)
            for e in es:
                pairs.append({"kind": "gc", "c": {"kind": "gc", "p": p, "q": q}, "eps": e, "sep": sep})
    ngc = len(pairs)
    P = [sl.rs_point_deg(v) for v in spts]
    for row in exp["RSROW"]:
        i = row["i"]
        for k, dot in enumerate(row["dots"]):
            j = i + k
            u, v = spts[i - 1], spts[j - 1]
            pairs.append({"kind": "rs", "c": {"kind": "rs", "u": u, "v": v}, "dot": dot, "den": u[3] * v[3],
                          "P": P[i - 1], "Q": P[j - 1]})
    for n, pr in enumerate(pairs, 1):
        pr["id"] = n
    return pairs, ngc


def add_theta(pr):
    if pr["kind"] == "rs":
        pr["theta"] = sl.exact_angle_deg(pr["dot"], pr["den"])
    return pr


def describe(pr, var, mem):
    var = vnorm(var)
    return ("%s(units=%s,%s; +360*(%d,%d); %s%s; %s) returned %s for a true separation of %s%s" % (
        var[0], var[1], var[2], var[3], var[4], "swapped" if var[5] else "p,q", "; zeros as -0.0" if var[6] else "",
        "/".join(mem["shapes"]),
        "an exception" if mem["ret"] is None else repr(float.fromhex(mem["ret"])) + (" rad" if var[2] == "rad" else " deg"),
        ("%d%+d*%s deg" % (pr["sep"][0], pr["sep"][1], EPS_NAMES[pr["eps"]])) if pr["kind"] == "gc"
        else ("acos(%d/%d) = %.15g deg" % (pr["dot"], pr["den"], float(pr["theta"]))),
        "" if mem["dev"] is None else " (off by %.3g deg from the true angle of the double inputs)" % mem["dev"]))


MACHINERY_CLAUSES = ("malformed_case", "bad_turn_class")


def validate_all(ctx, jobs):
    """the trace validations of one run side by side (each is its own TLC process): [(records, what)] -> [rejects]"""
    from concurrent.futures import ThreadPoolExecutor
    with ThreadPoolExecutor(len(jobs)) as ex:
        futs = [ex.submit(tracecheck.validate, ctx, "SphereTrace.tla",
                          [{"id": r["id"], "c": r["c"], "obs": r["obs"]} for r in recs], what=what) for recs, what in jobs]
        return [f.result() for f in futs]


def judge(ctx, pid, recs, blocks, rejects, groups_present, cap=6):
    """TLC judges the records; rejected observations become violations with structural signatures:
    <function>|<clause>|<shapes that fail: anyshape or a list>|<separation classes that fail: anysep or a list>
    (+ |negzero when only the calls with -0.0 coordinates fail); the many-turn evaluations have the coarser
    <function>|<clause>|manyturns-<input unit>"""
    byid = {r["id"]: r for r in recs}
    fails = []                                    # (fn, turn label, clause, sepgroup, shape, nz, rec id, k, member index)
    for rid, failing in rejects.items():
        r = byid[rid]
        pr, variants = pid[r["pid"]], blocks[r["b"]][2]
        for cl, k in failing:
            if cl in MACHINERY_CLAUSES:
                raise MachineryError("SphereTrace rejected the record itself (%s): %s" % (cl, r["c"]))
            for mi, mem in enumerate(r["members"][k]):
                var = variants[mem["vi"]]
                tl = "manyturns-" + var[1] if is_turn(var) else ""
                for shape in mem["shapes"]:     # the class of an exception is that of the whole call
                    fails.append((var[0], tl, cl, mem["incall"] or sep_group(pr), shape, var[6], rid, k, mi))
    shapes_of, seps_of, nz_of = {}, {}, {}
    for fn, tl, cl, sg, shape, nz, rid, k, mi in fails:
        shapes_of.setdefault((fn, tl, cl, sg), set()).add(shape)
    label = {key: ("anyshape" if v == set(SHAPES) else "+".join(sorted(v))) for key, v in shapes_of.items()}
    for (fn, tl, cl, sg), lab in label.items():
        seps_of.setdefault((fn, tl, cl, lab), set()).add(sg)
    glabel = {key: ("anysep" if v == groups_present else "+".join(sorted(v))) for key, v in seps_of.items()}

    def signature(fn, tl, cl, sg):
        if tl:
            return "%s|%s|%s" % (fn, cl, tl)
        lab = label[(fn, tl, cl, sg)]
        return "%s|%s|%s|%s" % (fn, cl, lab, glabel[(fn, tl, cl, lab)])
    for fn, tl, cl, sg, shape, nz, rid, k, mi in fails:
        nz_of.setdefault(signature(fn, tl, cl, sg), set()).add(nz)
    emitted, done = {}, set()
    for fn, tl, cl, sg, shape, nz, rid, k, mi in sorted(fails):
        sig = signature(fn, tl, cl, sg)
        if nz_of[sig] == {1}:
            sig += "|negzero"
        if emitted.get(sig, 0) >= cap or (sig, rid, k) in done:
            continue
        emitted[sig] = emitted.get(sig, 0) + 1
        done.add((sig, rid, k))
        r = byid[rid]
        pr = pid[r["pid"]]
        mem = r["members"][k][mi]
        bpairs, perm_long, variants = blocks[r["b"]]
        var = variants[mem["vi"]]
        idxs = perm_long if mem["idxs"] is None else mem["idxs"]
        case = {"kind": pr["kind"], "c": pr["c"], "variant": list(var), "shape": mem["shape"], "index": mem["pos"],
                "call": [[float(x).hex() for x in pair_args(bpairs[t], var)] for t in idxs],
                "clause": cl, "sig": sig, "returned": mem["ret"]}
        if pr["kind"] == "gc":
            case.update(eps=pr["eps"], sep=pr["sep"])
        else:
            case.update(dot=pr["dot"], den=pr["den"], P=list(pr["P"]), Q=list(pr["Q"]))
        ctx.violation(sig, "clause %s of SphereTrace.tla: %s" % (cl, describe(pr, var, mem)), case)
    return rejects, len(fails)


def judge_scale(ctx, recs, cases, tiles_hex, rejects, cap=4):
    """the records of the large calls; signatures <function>|<clause>|<bigarray / one_vs_bigarray, +tile when the
    call on the tile alone fails too>|<separation classes>"""
    byid = {r["id"]: r for r in recs}
    fails = []
    for rid, failing in rejects.items():
        r = byid[rid]
        case = cases[r["sno"]]
        shp = "bigarray" if case["shape"] == 1 else "one_vs_bigarray"
        pr = {"kind": "gc", "eps": r["eps"], "sep": r["sep"]}
        for cl, k in failing:
            if cl in MACHINERY_CLAUSES:
                raise MachineryError("SphereTrace rejected the record itself (%s): %s" % (cl, r["c"]))
            if cl == "scale_complete":
                fails.append((case["fn"], cl, "any", shp, rid, 0, 0))
                continue
            for mi, mem in enumerate(r["members"][k]):
                fails.append((case["fn"], cl, sep_group(pr), shp if mem["src"] == "big" else "tile", rid, k, mi))
    src_of, seps_of = {}, {}
    for fn, cl, sg, src, rid, k, mi in fails:
        src_of.setdefault((fn, cl, sg), set()).add(src)
    label = {key: "+".join(sorted(v)) for key, v in src_of.items()}
    for (fn, cl, sg), lab in label.items():
        seps_of.setdefault((fn, cl, lab), set()).add(sg)
    emitted, done = {}, set()
    for fn, cl, sg, src, rid, k, mi in sorted(fails):
        lab = label[(fn, cl, sg)]
        sig = "%s|%s|%s|%s" % (fn, cl, lab, "+".join(sorted(seps_of[(fn, cl, lab)])))
        if emitted.get(sig, 0) >= cap or (sig, rid) in done or (src == "tile" and lab != "tile"):
            continue
        emitted[sig] = emitted.get(sig, 0) + 1
        done.add((sig, rid))
        r = byid[rid]
        case = cases[r["sno"]]
        mem = r["members"][k][mi] if k else {"src": "big", "ret": None, "cnt": 0, "index": 0, "dev": None}
        rc = {"kind": "scale", "c": r["c"], "variant": list(scale_var(case)), "n": case["n"], "rot": case["rot"],
              "shape": case["shape"], "tile": tiles_hex[r["sno"]], "t": r["t"], "eps": r["eps"], "sep": r["sep"],
              "clause": cl, "sig": sig, "returned": mem["ret"], "index": mem["index"], "src": mem["src"]}
        what_ = ("clause %s of SphereTrace.tla: %s(units=%s,%s%s) on %s of %d pairs (a tile of %d lattice pairs repeated from "
                 "offset %d) returned %s at element %d (%d elements) for a true separation of %d%+d*%s deg%s" % (
                     cl, case["fn"], case["uin"], case["uout"], "; swapped" if case["swap"] else "",
                     "four arrays" if case["shape"] == 1 else "one point against arrays",
                     case["n"] if mem["src"] == "big" else r["c"]["T"], r["c"]["T"], case["rot"],
                     "an exception / a wrong size" if mem["ret"] is None else repr(float.fromhex(mem["ret"])),
                     mem["index"], mem["cnt"], r["sep"][0], r["sep"][1], EPS_NAMES[r["eps"]],
                     "" if mem["dev"] is None else " (off by %.3g deg)" % mem["dev"]))
        ctx.violation(sig, what_, rc)
    return rejects, len(fails)


def run(ctx):
    sl.self_validate()
    B = BOUNDS[ctx.tier]
    consts = dict(B, FixedAxis=True, FixedIndex=True, DoExport=False)
    # 0. class W, alongside the rest: the world machine (SphereWorld.tla), its sessions run in fresh processes
    from concurrent.futures import ThreadPoolExecutor
    wpool = ThreadPoolExecutor(1)

    def world_bg():
        wp_, ss_ = world_model(ctx)
        return wp_, ss_, world_eval(ctx, ss_)
    wfut = wpool.submit(world_bg) if WORLD else None
    # 1. the theorems the property relies on, on both bounded lattices (incl. the scale laws and the many-turn
    #    theorems); the branch and block mechanisms refine their intent; the designs cover (ASSUMEs)
    ctx.tlc("SphereMC.tla", what="lattice theorems, scale laws, turn theorems, mechanisms (exhaustive)",
            cfg_text=cfg(constants=consts, invariants=["GCTheorems", "RSTheorems", "BranchRefines", "ScaleLaw",
                                                       "ScaleMechRefines"]),
            workers=16, require=["PickGC1", "PickGC2", "PickRS1", "PickRS2", "PickMask", "RunBranch"], timeout=3000)
    # 1b. the pinned mask-on-the-wrong-axis mechanism must violate BranchRefines, the block-relative write-back
    #     must violate ScaleMechRefines (non-vacuity)
    small = dict(consts, GCA={0, 90, 180}, BMax=1, MerLons={0}, PoleLons={0}, MaxD=1, NMaskMax=3, FixedAxis=False,
                 FixedIndex=False)
    r1b = ctx.tlc("SphereMC.tla", what="self-test: deviating branch / block mechanisms violate their refinement",
                  cfg_text=cfg(constants=small, invariants=["ScaleMechRefines", "BranchRefines"]), workers=1,   # TLC reports the first violated invariant of a state
                  allow_violation=True, coverage=False, continue_=True)
    for inv in ("BranchRefines", "ScaleMechRefines"):
        if inv not in r1b.violated:
            raise MachineryError("self-test failed: %s not violated by the deviating mechanism" % inv)
    # 2. export the rows of exact separations, the tiles, the large cases and the turn rows (spec -> code)
    r2 = ctx.tlc("SphereMC.tla", what="export lattice rows, tiles, scale cases, turn rows",
                 cfg_text=cfg(constants=dict(consts, DoExport=True), next_="NextExport", constraints=["Export"]),
                 workers=1, coverage=False, timeout=3000)
    exp = r2.records
    for tag in ("GCPTS", "RSPTS", "GCROW", "RSROW", "TILE", "SCALE", "TURNROWS"):
        if not exp.get(tag):
            raise MachineryError("nothing exported for %s" % tag)
    pairs, ngc = build_pairs(exp, ctx.quick)
    if ngc < 100 or len(pairs) - ngc < 100:
        raise MachineryError("too few pairs exported (%d gc, %d rs)" % (ngc, len(pairs) - ngc))
    # the world pipeline ran alongside the TLC runs above; it must be over before this process forks its worker pool
    wres = wfut.result() if WORLD else None
    wpool.shutdown()
    pairs = pmap(add_theta, pairs)
    pid = {p["id"]: p for p in pairs}
    gpts = exp["GCPTS"][0]["pts"]
    tiles = {t["i"]: t for t in exp["TILE"]}
    scases = exp["SCALE"][0]["cases"]
    v_turn = [(r["fn"], r["uin"], r["uout"], r["k1"], r["k2"], r["swap"], r["nz"]) for r in exp["TURNROWS"][0]["rows"]]
    if len(tiles) != 3 or len(scases) < 12 or len(v_turn) < 20:
        raise MachineryError("scale / turn design not exported as expected (%d tiles, %d cases, %d rows)"
                             % (len(tiles), len(scases), len(v_turn)))
    v_turn = [v for v in v_turn if is_turn(v)]      # rows with |k| <= 1 are what the ordinary variants already do
    ctx.log("%d great-circle cases (abstract pair x eps), %d rational-sphere pairs, %d large cases, %d many-turn rows"
            % (ngc, len(pairs) - ngc, len(scases), len(v_turn)))
    # 3. evaluate: every variant on the great-circle lattice; on the sphere the base set + three wrapped (quick) / all;
    #    the many-turn rows spread over blocks of the great-circle cases; the large cases
    v_gc = V_BASE + V_MORE
    v_rs = V_BASE + (V_MORE if not ctx.quick else [V_MORE[0], V_MORE[3], V_MORE[7]])
    rng = random.Random(ctx.seed)
    cats = {"scale": [], "gc": [], "rs": [], "turn": []}
    stile = [scale_tile(c, tiles, gpts) for c in scases]
    if max(len(t) for t in stile) >= 4096:
        raise MachineryError("tile too long for the record numbering")
    for sno in sorted(range(len(scases)), key=lambda k: -scases[k]["n"]):
        cats["scale"].append(("scale", sno, scases[sno], stile[sno]))
    nblock = 0
    for tag, sub in (("gc", pairs[:ngc]), ("rs", pairs[ngc:]), ("turn", pairs[:ngc])):
        order = list(range(len(sub)))
        rng.shuffle(order)                # mix the separation classes inside the arrays (seeded)
        nb = max(1, round(len(sub) / BLOCK), min(64, len(sub) // 48))     # >= 64 blocks keeps the pool busy
        R = TURN_ROWS_PER_BLOCK[ctx.tier]
        if tag == "turn" and nb * R < len(v_turn):
            raise MachineryError("too few blocks (%d x %d) for the %d many-turn rows" % (nb, R, len(v_turn)))
        toff = rng.randrange(len(v_turn))
        for b in range(nb):
            vs = {"gc": v_gc, "rs": v_rs}.get(tag) or [v_turn[(toff + b * R + t) % len(v_turn)] for t in range(R)]
            cats[tag].append(("block", nblock, ctx.seed * 7919 + nblock, [sub[t] for t in order[b::nb]], vs,
                              1 if tag == "turn" else 0, tag))
            nblock += 1
    # the four kinds of work evenly interleaved (the large calls, which need memory, spread over the run), then
    # evaluated and judged batch by batch: only the rejected records are kept
    work = [w for _, _, w in sorted(((j + 0.5) / len(ws), ci, w) for ci, ws in enumerate(cats.values())
                                    for j, w in enumerate(ws))]
    nbatch = max(1, -(-len(work) // BATCH_ITEMS))
    bsize = -(-len(work) // nbatch)
    names = {"gc": "great-circle lattice evaluations", "rs": "rational-sphere evaluations",
             "turn": "many-turn evaluations", "scale": "large array calls per tile position"}
    kept = {c: [] for c in names}                 # rejected records, with the evaluations behind them
    rejects = {c: {} for c in names}
    accepted = {c: None for c in names}           # one accepted record each for the binding self-test
    nrec = {c: 0 for c in names}
    blocks, tiles_hex, seen_rows, classes = {}, {}, set(), set()
    shape_dep = bitdiff = 0
    wanted = {"gc": lambda r: any(o["on"] for o in r["obs"]), "rs": lambda r: any(o["on"] for o in r["obs"]), "turn": lambda r: any(o["sh"] and o["on"] for o in r["obs"]),
              "scale": lambda r: len(r["obs"]) == 1}
    for bi in range(nbatch):
        batch = work[bi * bsize:(bi + 1) * bsize]
        res = pmap(eval_work, batch, chunk=1)
        by = {c: [] for c in names}
        for w, (out, aux) in zip(batch, res):
            if w[0] == "scale":
                by["scale"].extend(out)
                tiles_hex[w[1]] = aux
            else:
                blocks[w[1]] = (w[3], aux, w[4])
                by[w[6]].extend(out)
        del res
        for c in names:
            by[c].sort(key=lambda r: r["id"])
        jobs = [c for c in names if by[c]]
        rj = validate_all(ctx, [(by[c], "judge %s (SphereTrace)%s" % (names[c], " [batch %d/%d]" % (bi + 1, nbatch)
                                                                      if nbatch > 1 else "")) for c in jobs])
        for c, rej in zip(jobs, rj):
            rejects[c].update(rej)
            nrec[c] += len(by[c])
            for r in by[c]:
                if c == "scale":
                    ctx.count({"c": r["c"], "eps": r["eps"]}, n=sum(o["cnt"] for o in r["obs"]) + 1)
                    bitdiff += 1 if r["bitdiff"] else 0
                elif c == "turn":
                    rows = {tuple(blocks[r["b"]][2][m["vi"]]) for ms in r["members"].values() for m in ms}
                    seen_rows |= rows
                    classes |= {o["tc"] for o in r["obs"]}
                    ctx.count({"c": r["c"], "eps": pid[r["pid"]].get("eps"), "turns": sorted(v[3:5] for v in rows)}, n=r["evals"])
                else:
                    ctx.count({"c": r["c"], "eps": pid[r["pid"]].get("eps")}, n=r["evals"])
                    shape_dep += r["shape_dependent"]
                if r["id"] in rej:
                    kept[c].append(r)
                elif accepted[c] is None and wanted[c](r):
                    accepted[c] = r
            for r in by[c][:: max(1, len(by[c]) // 2)][:2 if c in ("gc", "rs") else 1]:
                if bi == 0:
                    ctx.sample({"case": r["c"], "eps": r.get("eps", pid.get(r.get("pid"), {}).get("eps")), "observations": r["obs"]})
    if len(seen_rows) < len(v_turn):
        raise MachineryError("%d of the %d many-turn rows were never evaluated" % (len(v_turn) - len(seen_rows), len(v_turn)))
    if not {"exact", "equator", "pole", "samelon"} <= classes:
        raise MachineryError("many-turn classes evaluated: %s" % sorted(classes))
    # 4. what TLC rejected (code -> spec) becomes violations
    present = {"gc": {sep_group(p) for p in pairs[:ngc]}, "rs": {sep_group(p) for p in pairs[ngc:]}}
    rej1, nf1 = judge(ctx, pid, kept["gc"], blocks, rejects["gc"], present["gc"])
    rej2, nf2 = judge(ctx, pid, kept["rs"], blocks, rejects["rs"], present["rs"])
    rej3, nf3 = judge(ctx, pid, kept["turn"], blocks, rejects["turn"], present["gc"])
    rej4, nf4 = judge_scale(ctx, kept["scale"], scases, tiles_hex, rejects["scale"])

    # 4b. sessions over the entry points in one process (class W)
    wstats = {}
    if WORLD:
        wp, wsessions, wrecs_ = wres
        wstats = world_judge(ctx, wp, wsessions, recs=wrecs_)
    if WORLD:
        good_s = [{"op": "call", "err": "none", "same": True, "kept": True, "argsok": True}, {"op": "scribble", "h": 1},
                  {"op": "call", "err": "none", "same": True, "kept": True, "argsok": True}]
        wprobe = [{"id": 1, "steps": good_s}, {"id": 2, "steps": [good_s[0], good_s[1], dict(good_s[2], same=False)]},
                  {"id": 3, "steps": [good_s[0], dict(good_s[2], kept=False)]}, {"id": 4, "steps": [dict(good_s[0], kept=False), good_s[1]]}]
        saved = ctx.traces
        wrej = tracecheck.validate(ctx, "SphereWorldTrace.tla", wprobe, what="self-test: corrupted sessions rejected", workers=1)
        ctx.traces = saved
        if (1 in wrej or 4 in wrej or [c for c, _ in wrej.get(2, [])] != ["world_independent"]
                or [c for c, _ in wrej.get(3, [])] != ["results_are_callers"]):
            raise MachineryError("binding self-test of SphereWorldTrace failed: %s" % wrej)
    # 5. binding self-test: a corrupted observation must be rejected, its untouched twin accepted
    def first_good(c):
        r = accepted[c]
        if r is not None:
            o = [o for o in r["obs"] if o["on"] and (c != "turn" or o["sh"])][0]
            return {"c": r["c"], "o": o, "real": True, "obs": r["obs"]}
        r = kept[c][0]
        o = dict(r["obs"][0], err="none", fin=True, rng=True, on=True, zero=False)
        return {"c": r["c"], "o": o, "real": False, "obs": [o]}     # nothing accepted on this tree: synthetic twin
    probe, good = [], [first_good(c) for c in ("gc", "rs", "turn", "scale")]
    for n, g in enumerate(good):
        bad = dict(g["o"])
        if "a" in bad and bad.get("dd") is None:
            bad["a"] += 1
        else:
            bad["dn"], bad["dd"] = bad["dn"] + 1, max(bad["dd"], 1)
        probe.append({"id": 2 * n + 1, "c": g["c"], "obs": [bad]})
        probe.append({"id": 2 * n + 2, "c": g["c"], "obs": g["obs"] if n == 3 else [g["o"]]})
    # the claimed many-turn class is checked against the case; the element counts of a large call must add up
    tg, sg = good[2], good[3]
    on_eq = list(tg["c"]["p"]["lat"]) == [0, 0] and list(tg["c"]["q"]["lat"]) == [0, 0]
    probe.append({"id": 9, "c": tg["c"], "obs": [dict(tg["o"], tc="pole" if on_eq else "equator", sh=False)]})
    probe.append({"id": 10, "c": sg["c"], "obs": [dict(o, cnt=o["cnt"] + 1) for o in sg["obs"]]})
    saved = ctx.traces
    rej = tracecheck.validate(ctx, "SphereTrace.tla", probe, what="self-test: corrupted records rejected", workers=1)
    ctx.traces = saved
    clauses = {i: [c for c, _ in v] for i, v in rej.items()}
    if (not all(i in rej for i in (1, 3, 5, 7)) or any(g["real"] and 2 * n + 2 in rej for n, g in enumerate(good))
            or "bad_turn_class" not in clauses.get(9, []) or "scale_complete" not in clauses.get(10, [])):
        raise MachineryError("binding self-test failed: %s" % rej)
    ctx.rule = ("every unordered pair (incl. p=q) of the %d great-circle-lattice points (positions %s deg x eps multiples "
                "-%d..%d on the equator and the meridian circles %s, poles also at longitudes %s) that lie on a common "
                "lattice circle, x eps in {1e-12,1e-9,1e-6,1e-3,2^-44} deg%s; every unordered pair of the %d rational-sphere "
                "points with denominator <= %d (all exported from SphereMC.tla); each evaluated by sphdist (4 unit combinations), "
                "gcirc, both argument orders, +-360 on the longitudes, zeros as -0.0, as scalar / length-1 / length-3 / "
                "length-~%d arrays; many turns: the %d rows (function/units x k1,k2 in +-%s x swap x -0.0) of the TLC-checked "
                "design, %d per block of great-circle cases, judged on the pairs whose separation is an exactly known function "
                "of the displacement of the double inputs; scale: %d large calls (lengths %s x 3 rotations of the class-cyclic "
                "tile x four arrays / one point against arrays x function/units%s), every element judged through its tile "
                "position; a case is distinct by (abstract pair, eps[, turn counts / large-call position]) and non-trivial always" %
                (len(gpts), sorted(B["GCA"]), B["BMax"], B["BMax"], sorted(B["MerLons"]),
                 sorted(B["PoleLons"]), " (quick: two of the five per pair, rotating)" if ctx.quick else "",
                 len(exp["RSPTS"][0]["pts"]), B["MaxD"], BLOCK, len(v_turn), sorted(B["TurnMags"]),
                 TURN_ROWS_PER_BLOCK[ctx.tier], len(scases), sorted(B["ScaleNs"]), " by a covering design" if ctx.quick else ""))
    ctx.exhaustive = True
    ctx.note(bounds={k: sorted(v) if isinstance(v, set) else v for k, v in B.items()}, gc_cases=ngc,
             rs_pairs=len(pairs) - ngc, variants_gc=len(v_gc), variants_rs=len(v_rs), many_turn_rows=len(v_turn),
             many_turn_records=nrec["turn"], large_calls=len(scases), large_call_records=nrec["scale"],
             large_call_elements=sum(c["n"] for c in scases),
             rejected_records=len(rej1) + len(rej2) + len(rej3) + len(rej4),
             world=wstats,
             failing_evaluations=nf1 + nf2 + nf3 + nf4, informational_shape_dependent_results=shape_dep,
             informational_large_call_positions_with_bit_differences=bitdiff,
             tolerances_deg={"sphdist": "1e-11", "gcirc": "2e-6", "input_rounding_allowance": "2e-13"})
    ctx.trusted_base += ["fractions.Fraction / decimal (60 digits) arithmetic of vh.spherelat (self-validated per run: pi, "
                         "sin/cos series, exact_angle_deg anchors)",
                         "float(Fraction) correctly rounded; longdouble atan2 for the rational-sphere inputs",
                         "many turns: the exact angle of a double input (Fraction(x), or Fraction(x)*180/pi with a 70-digit pi) "
                         "and the circular difference of two such angles on the equator"]
    ctx.assumptions = ["lattice inputs are rounded once to doubles; the projection accepts 2e-13 deg beyond the stated "
                       "tolerance for that rounding (at most one turn added); with more turns the tolerance applies to the "
                       "exact angle of the actual double inputs, and only pairs are judged whose separation is an exactly "
                       "known function of the displaced longitudes (no displacement / both on the equator / a pole / the "
                       "same longitude double) - SphereTrace re-checks the class, Sphere.tla 3b gives the theorems",
                       "symmetric / unchanged by +360 / same for scalar and array are read at the function's stated accuracy "
                       "(each argument order, wrap and shape must itself be accepted; the lattice theorems GThmSymmetric, "
                       "GThmWrap make the expected value independent of them); only 'exactly zero for identical inputs' is "
                       "exact; bit-level shape dependence is reported as a note, not judged",
                       "a large call is decided through the law 'elementwise = commutes with repetition of a tile' "
                       "(GThmCycle / GThmBroadcast / GThmConcat, checked by TLC at small lengths): every distinct value "
                       "at every tile position is judged by the exact lattice value of that position, and the call on the "
                       "tile alone likewise",
                       "accuracy at generic doubles off both lattices is not decided (no transcendental oracle in TLA+)"]
    if WORLD:
        ctx.rule += ("; world: %d sessions exported from SphereWorld.tla (ordered pairs of eq2xyz / xyz2eq / sphdist / gcirc x forms "
                     "scalar / numpy scalar / 1-element array x same point / twin point / same numbers other unit x "
                     "scribble result / scribble arguments / none / reader-first), each in one fresh process, every call compared "
                     "with the same call alone in a fresh process" % len(wsessions))
        ctx.trusted_base.append("world sessions: os.fork of a helper process that imported esutil and called nothing = a fresh world; "
                                "byte comparison of (type, dtype, shape, data) of results")
        ctx.assumptions.append("the entry points are deterministic functions of their arguments in a fresh process (the session verdict "
                               "'world_independent' is a relation between outputs of the same implementation: in-session result = "
                               "fresh-process result, bit for bit); absence of a rejection proves nothing about caches keyed on inputs "
                               "outside the exported collisions")


def replay_world(ctx, case):
    """re-execute the whole session in one fresh process (and its calls alone in fresh processes), judge again"""
    r = ctx.tlc("SphereWorld.tla", what="export world points", workers=1, coverage=False,
                cfg_text=cfg(constants=dict(Mechs={"none"}, MaxLen=0, MCForms={"scalar"}, MemoForms={"scalar", "npscalar", "arr1"},
                                            Thorough=False, DoExport=True), constraints=["Export"]))
    wp = r.records["WPTS"][0]
    before = len(ctx.violations)
    try:
        world_judge(ctx, wp, [case["session"]])
    except MachineryError as e:
        if "nothing scribbled" not in str(e):
            raise
    print("replay of the session: %d violation(s)" % (len(ctx.violations) - before))


def replay(ctx, case):
    sl.self_validate()
    if case["kind"] == "world":
        return replay_world(ctx, case)
    var = vnorm(case["variant"])
    if case["kind"] == "scale":
        return replay_scale(ctx, case, var)
    C = np.array([[float.fromhex(x) for x in row] for row in case["call"]], dtype="f8")
    A = tuple(float(x) for x in C[0]) if case["shape"] == "scalar" else C
    err, v = call(var, A, mixed=(case["shape"] == "one_vs_n3"), twod=(case["shape"] == "n2x3"))[case["index"]]
    pr = {"kind": case["kind"], "c": case["c"], "id": 1}
    if case["kind"] == "gc":
        pr.update(eps=case["eps"], sep=case["sep"])
    else:
        pr.update(dot=case["dot"], den=case["den"], P=tuple(case["P"]), Q=tuple(case["Q"]))
        add_theta(pr)
    tinfo = turn_info(pr, var, tuple(float(x) for x in C[case["index"]]))
    if tinfo is None:
        raise MachineryError("replay: the recorded evaluation is not decidable")
    o, dev = project(pr, var, err, v, tinfo)
    o["k"] = 1
    print("replay observed: err=%s value=%r projection=%s deviation=%s" % (err, v, o, dev))
    rej = tracecheck.validate(ctx, "SphereTrace.tla", [{"id": 1, "c": case["c"], "obs": [o]}], what="replay", workers=1)
    for cl, k in rej.get(1, []):
        sig = case["sig"] if cl == case.get("clause") else "%s|%s|%s|replay" % (var[0], cl, case["shape"])
        ctx.violation(sig, "clause %s of SphereTrace.tla on replay: returned %r (%s)" % (cl, v, err), case)


def replay_scale(ctx, case, var):
    """re-run the large call and the call on the tile, judge the recorded tile position again"""
    Ct = np.array([[float.fromhex(x) for x in row] for row in case["tile"]], dtype="f8")
    t = case["t"]
    outs = scale_eval(var, case["n"], case["rot"], case["shape"], Ct)[t]
    pr = {"kind": "gc", "c": dict(case["c"], kind="gc"), "eps": case["eps"], "sep": case["sep"]}
    rec = scale_record(1, {"n": case["n"], "T": len(Ct), "rot": case["rot"]}, t, pr, var, outs)
    print("replay observed at tile position %d: %s" % (t, [(m["src"], m["ret"], m["cnt"], m["index"], m["dev"])
                                                        for ms in rec["members"].values() for m in ms]))
    rej = tracecheck.validate(ctx, "SphereTrace.tla", [{"id": 1, "c": rec["c"], "obs": rec["obs"]}], what="replay", workers=1)
    for cl in sorted({cl for cl, k in rej.get(1, [])}):
        sig = case["sig"] if cl == case.get("clause") else "%s|%s|bigarray|replay" % (var[0], cl)
        ctx.violation(sig, "clause %s of SphereTrace.tla on replay of a large call" % cl, case)
