"""C09 - celestial coordinate conversions are invertible isometries with correct poles.

spec -> code : FramesMC.tla enumerates every composable path of conversions (length <= MaxLen) of the
               groupoid eq/gal/ec/sdss/xyz and derives the path equations the property asserts (a loop is
               the identity, a chain equals the direct conversion), checks the lattice / shift / cube /
               anchor theorems of Frames.tla, and exports the equations, the input points of every frame
               (great-circle lattice x eps, lon 0 and 360, poles, documented poles / nodes / SDSS centre
               and their eps-neighbourhoods, rational sphere), the rows of exact separations, the shift
               cases, the quarter-turn Euler triples and the anchor facts.  Every exported case is
               concretised and executed against esutil.coords (array, scalar and length-1 calls).
code -> spec : what came back is projected (on-sky separations with the validated longdouble chord
               kernel of vh.spherelat, in units of 1e-9 degree rounded up; lattice separations with exact
               Fraction / 60 digit decimal arithmetic; exact integers on the dyadic shift lattice) and
               judged by FramesTrace.tla under TLC, which recomputes canonical forms, tolerances, SepGC /
               CosSep, the shift arithmetic and the cube rotations from the case.
world        : FramesMC.tla also enumerates SESSIONS (sequences of calls in one process: rotate at twin Euler angles that
               agree to six digits, with / without undoing, every conversion x epoch, randcap(dorot=True) as another entry
               point, the caller re-using its input buffers and scribbling over the results).  Each session is run in ONE
               fresh process (a child forked from a zygote in which no conversion was ever called), and every call is
               compared with the same call (same arguments) in another fresh process; FramesTrace.tla judges (clause
               world_independent: 1e-9 degree on the sky; rotate_inverse within the session).  --replay re-executes the
               whole session in a fresh process.
Python never decides a verdict; it maps abstract <-> concrete and records.
"""
import math
import random
from decimal import Decimal, localcontext
from fractions import Fraction

import numpy as np

from .. import spherelat as sl
from .. import tracecheck
from ..core import MachineryError, jsonable
from ..par import pmap
from ..tlc import cfg

NEEDS_EXT = True      # coords.py is pure python, but `import esutil` needs the compiled sub-packages (build is cached)
L = np.longdouble
CAP = 2 ** 30

BOUNDS = {
    "quick": dict(MaxLen=3, GCA={0, 1, 89, 90, 95, 180, 270, 275, 359}, BMax=1, MerLons={0, 95}, PoleLons={0, 217},
                  EpsSet={0, 1, 2, 3}, MaxD=7, LonStep8=4, ShiftSet8={0, 1, 8, 360, 1440, 2879, 2880, 2881, 3240, 5760},
                  ScaleSizes={2 ** 18 - 1, 2 ** 18, 2 ** 18 + 1, 2 ** 19 + 3}, WorldLen=2, WorldScr={True}),
    "thorough": dict(MaxLen=4, GCA={0, 1, 30, 45, 89, 90, 91, 95, 135, 180, 185, 270, 275, 359},
                     BMax=2, MerLons={0, 90, 95}, PoleLons={0, 217}, EpsSet={0, 1, 2, 3}, MaxD=11, LonStep8=1,
                     ShiftSet8={0, 1, 7, 8, 360, 720, 1440, 1441, 2160, 2879, 2880, 2881, 3240, 4320, 5759, 5760, 5761, 8640},
                     ScaleSizes={2 ** 18 - 1, 2 ** 18, 2 ** 18 + 1, 3 * 2 ** 18, 2 ** 19 + 3, 2 ** 20, 2 ** 20 + 1},
                     WorldLen=2, WorldScr={True, False}),
}
MODEL_ACTIONS = ["WorldStep", "Start", "Step", "PickFrame", "PickOpt", "PickScale", "PickGC1", "PickRS1", "PickShift", "PickCube", "PickAnchor"]
MODEL_INVARIANTS = ["WorldFresh", "WorldTheorems", "PathTheorems", "PointTheorems", "OptTheorems", "ScaleTheorems", "IsoTheorems", "ShiftTheorems", "ShiftRefines", "CubeTheorems",
                    "AnchorTheorems"]
ALLOW = Fraction(2, 10 ** 13)     # rounding of exact lattice / decimal inputs to doubles (<= 2.9e-14 degree per coordinate)
EULER = ("eq2gal", "gal2eq", "eq2ec", "ec2eq", "ec2gal", "gal2ec")
FAMILY = {"eq2sdss": "sdss", "sdss2eq": "sdss", "eq2xyz": "xyz", "xyz2eq": "xyz", "rotate": "rotate"}
CHUNK = 64                        # points per array call of a path equation
SHAPES = ("array", "scalar", "n1")


# ---------------------------------------------------------------------------------
# abstract -> concrete
_LDPI = None


def ld_pi():
    global _LDPI
    if _LDPI is None:
        hi = float(sl.PI_D)
        _LDPI = L(hi) + L(float(sl.PI_D - Decimal(hi)))
    return _LDPI


class St(tuple):
    """a state: the coordinate arrays of n points + what they are: 'deg' (lon, lat), 'rad' (lon, lat), 'xyz'"""

    def __new__(cls, arrs, kind):
        o = super().__new__(cls, arrs)
        o.kind = kind
        return o


KIND = {"eq": "deg", "gal": "deg", "ec": "deg", "sdss": "deg", "eqr": "rad", "xyz": "xyz", "xyzs": "xyz"}


def dval(x):
    """decimal angle <<hi, lo>> = hi*1e-6 + lo*1e-12 degrees, exactly"""
    return Fraction(int(x[0]), 10 ** 6) + Fraction(int(x[1]), 10 ** 12)


def unit_ld(lon, lat, rad=False):
    """unit vectors (longdouble) of coordinates in degrees (or radians)"""
    d2r = L(1) if rad else ld_pi() / L(180)
    lo = np.asarray(lon).astype(L) * d2r
    la = np.asarray(lat).astype(L) * d2r
    cl = np.cos(la)
    return cl * np.cos(lo), cl * np.sin(lo), np.sin(la)


def sph_state(frame, lon, lat):
    """exact Fractions of degrees -> the float64 coordinates of one point in that frame"""
    if frame == "sdss" and lon > 180:
        lon -= 360
    if KIND[frame] == "xyz":
        x, y, z = unit_ld([float(lon)], [float(lat)])
        return (float(x[0]), float(y[0]), float(z[0]))
    if KIND[frame] == "rad":
        return (sl.rad_float(lon), sl.rad_float(lat))
    return (float(lon), float(lat))


def rs_state(frame, v):
    a, b, c, d = (int(t) for t in v)
    if KIND[frame] == "xyz":
        return (a / d, b / d, c / d)
    ra, dec = sl.rs_point_deg(v)
    if frame == "sdss" and ra > 180.0:
        ra -= 360.0
    if KIND[frame] == "rad":
        d2r = ld_pi() / L(180)
        return (float(L(ra) * d2r), float(L(dec) * d2r))
    return (ra, dec)


def concretise(frame, pts):
    """input points of a path equation (PtD / PtR records) -> state"""
    rows = [rs_state(frame, p["v"]) if p["k"] == "r" else sph_state(frame, dval(p["lon"]), dval(p["lat"])) for p in pts]
    return St((np.array(col, dtype="f8") for col in zip(*rows)), KIND[frame])


def gc_state(frame, gpts, eps):
    rows = [sph_state(frame, sl.eangle(p["lon"], eps), sl.eangle(p["lat"], eps)) for p in gpts]
    return St((np.array(col, dtype="f8") for col in zip(*rows)), KIND[frame])


# ---------------------------------------------------------------------------------
# calling esutil
class _Shape(Exception):
    pass


DT = {"f4": "f4", "ld": np.longdouble}
PER_ELEMENT = ("scalar", "n1", "npscalar")


def SI(name, units="deg", stomp=False):
    """selector info of a conversion called with its default options"""
    return {"name": name, "units": units, "stomp": stomp, "hasdtype": name not in ("xyz2eq", "rotate")}


def _invoke(si, args, b1950, ang, dt):
    import esutil.coords as co
    name = si["name"]
    kw = {"dtype": DT[dt]} if (dt != "f8" and si["hasdtype"]) else {}
    if name in EULER:
        return getattr(co, name)(args[0], args[1], b1950=b1950, **kw)
    if name == "eq2sdss":
        lam, eta = co.eq2sdss(args[0], args[1], **kw)
        return eta, lam                              # state order: (longitude-like eta, latitude-like lambda)
    if name == "sdss2eq":
        return co.sdss2eq(args[1], args[0], **kw)
    if name in ("eq2xyz", "xyz2eq"):
        if si["units"] != "deg":
            kw["units"] = si["units"]
        if si["stomp"]:
            kw["stomp"] = True
        return co.eq2xyz(args[0], args[1], **kw) if name == "eq2xyz" else co.xyz2eq(args[0], args[1], args[2], **kw)
    if name == "rotate":
        return co.rotate(ang[0], ang[1], ang[2], args[0], args[1])
    raise MachineryError("unknown conversion " + name)


def present(arrs, rep):
    """the value arrays in the requested whole-array representation -> (call arguments, snapshot function)"""
    if rep == "list":
        args = tuple([float(v) for v in a] for a in arrs)
        return args, lambda: [list(a) for a in args]
    if rep == "strided":
        bases = []
        for a in arrs:
            big = np.full(2 * len(a) + 1, 7.25, dtype=a.dtype)
            big[1::2] = a
            bases.append(big)
        return tuple(bg[1::2] for bg in bases), lambda: [bg.tobytes() for bg in bases]
    conv = {"f4": "f4", "int": "i8", "swapped": ">f8"}.get(rep)
    args = tuple(np.array(a, copy=True) if conv is None else np.array(a).astype(conv) for a in arrs)
    return args, lambda: [a.tobytes() for a in args]


def apply(si, st, rep, b1950=False, ang=None, dt="f8"):
    """one conversion on the n points of state st -> (errs per point, output state).  Results keep the type the
    code returned them in (float32 / longdouble), so that a chain hands them on as a caller would."""
    if isinstance(si, str):
        si = SI(si)
    name = si["name"]
    n = len(st[0])
    nout = 3 if name == "eq2xyz" else 2
    vals = [[np.nan] * n for _ in range(nout)]
    errs = ["none"] * n

    def one(args, idxs):
        try:
            with np.errstate(all="ignore"):
                res = _invoke(si, args, b1950, ang, dt)
            res = [np.asarray(r).ravel() for r in res]
            if len(res) != nout or any(r.size != len(idxs) or r.dtype.kind != "f" for r in res):
                raise _Shape()
            for k in range(nout):
                for j, i in enumerate(idxs):
                    vals[k][i] = res[k][j]
        except Exception as e:  # noqa
            return "ShapeError" if isinstance(e, _Shape) else type(e).__name__
        return "none"

    if rep in PER_ELEMENT:
        for i in range(n):
            if rep == "scalar":
                args = tuple(float(a[i]) for a in st)
            elif rep == "npscalar":
                args = tuple(a[i] for a in st)
            else:
                args = tuple(np.array(a[i:i + 1], copy=True) for a in st)
            errs[i] = one(args, [i])
    else:
        args, snap = present(st, rep)
        before = snap()
        e = one(args, range(n))
        if e == "none" and snap() != before:
            e = "ArgumentModified"
        if e != "none":
            # localise: a rejection of the whole array is attributed to the elements that are rejected alone
            vals = [[np.nan] * n for _ in range(nout)]
            single = [one(present(tuple(a[i:i + 1] for a in st), rep)[0], [i]) for i in range(n)]
            errs = single if any(s != "none" for s in single) else [e] * n
    kind = "xyz" if name == "eq2xyz" else ("rad" if (name == "xyz2eq" and si["units"] == "rad") else "deg")
    return errs, St((np.array(v) for v in vals), kind)


def vec_ld(st):
    if st.kind == "xyz":
        return tuple(np.asarray(a).astype(L) for a in st)
    return unit_ld(st[0], st[1], rad=(st.kind == "rad"))


def sep_states(a, b):
    """on-sky separation (longdouble degrees) of two states"""
    with np.errstate(all="ignore"):
        return sl.sep_xyz_ld(*(vec_ld(a) + vec_ld(b)))


def d9_of(sep, allow=0.0):
    """separations in units of 1e-9 degree, rounded up, capped; nan -> CAP"""
    with np.errstate(all="ignore"):
        v = np.ceil((np.asarray(sep, dtype=L) - L(allow)) * L(10 ** 9))
    out = []
    for t in np.atleast_1d(v):
        out.append(CAP if not np.isfinite(t) or t > CAP else max(0, int(t)))
    return out


class Track:
    """what the trace specification wants to know about every output along a path"""

    def __init__(self, n):
        self.err = ["none"] * n
        self.fin = np.ones(n, bool)
        self.latx = np.zeros(n, dtype=L)     # largest excess of a latitude over +-90 degrees
        self.emin = np.full(n, np.inf)
        self.emax = np.full(n, -np.inf)
        self.ul = np.zeros(n, dtype=L)
        self.polar = np.zeros(n, bool)
        self.nonfin = [""] * n          # the conversion that first returned a non-finite value

    def inputs(self, st):
        self._polar(st)

    def _polar(self, st):
        with np.errstate(all="ignore"):
            if st.kind == "xyz":
                self.polar |= np.abs(st[2]) >= 0.99999998
            elif st.kind == "rad":
                self.polar |= np.abs(st[1]) >= 1.57062
            else:
                self.polar |= np.abs(st[1]) >= 89.99

    def step(self, name, errs, st):
        for i, e in enumerate(errs):
            if e != "none" and self.err[i] == "none":
                self.err[i] = name + ":" + e
        with np.errstate(all="ignore"):
            f = np.ones(len(st[0]), bool)
            for a in st:
                f &= np.isfinite(a)
            comp = ("x", "y", "z") if st.kind == "xyz" else ("lon", "lat")
            for i in np.nonzero(self.fin & ~f)[0]:
                self.nonfin[i] = name + ":" + "+".join(c for c, a in zip(comp, st) if not np.isfinite(a[i]))
            self.fin &= f
            self._polar(st)
            if st.kind == "xyz":
                x, y, z = (a.astype(L) for a in st)
                ulp = L(max(float(np.finfo(st[0].dtype).eps), 2.0 ** -52))      # of the type asked for, at least float64's
                dev = np.abs(np.sqrt(x * x + y * y + z * z) - L(1)) / ulp
                self.ul = np.where(f, np.maximum(self.ul, dev), self.ul)
            else:
                la = np.abs(st[1].astype(L))
                ex = (la - ld_pi() / L(2)) * (L(180) / ld_pi()) if st.kind == "rad" else la - L(90)
                self.latx = np.where(f, np.maximum(self.latx, ex), self.latx)
                if name == "eq2sdss":
                    lo = st[0].astype("f8")
                    self.emin = np.where(f, np.minimum(self.emin, lo), self.emin)
                    self.emax = np.where(f, np.maximum(self.emax, lo), self.emax)

    def fields(self, i):
        has = math.isfinite(self.emin[i])
        ul = float(np.ceil(self.ul[i]))
        # (an excess below one float64 ulp of 90 degrees can only be longdouble rounding: results are demanded at float64 resolution)
        return {"err": self.err[i], "fin": bool(self.fin[i]), "lx": d9_of(self.latx[i], 1e-14)[0],
                "el": int(math.floor(self.emin[i])) if has else 0, "eh": int(math.ceil(self.emax[i])) if has else 0,
                "ul": int(min(ul, 2 ** 20)) if math.isfinite(ul) else 2 ** 20}


def first_rep(rep):
    """representation handed to the conversions after the first one of a chain"""
    return rep if rep in PER_ELEMENT else "array"


def round_to_rep(st, rep):
    """the points as they are exactly representable in the requested input representation"""
    if rep == "f4":
        return St((a.astype("f4").astype("f8") for a in st), st.kind)
    return st


# ---------------------------------------------------------------------------------
# job -> record judged by FramesTrace.tla (+ python-side meta for messages / signatures)
def eval_eqn(job):
    e, sels, pts, rep, b, dt = job["eqn"], job["sels"], job["pts"], job["rep"], job["b1950"], job["dt"]
    st0 = round_to_rep(concretise(e["frame"], pts), rep)
    tr = Track(len(pts))
    tr.inputs(st0)
    ends = []
    for side in (e["path"], e["rhs"]):
        st = st0
        for n, s in enumerate(side):
            si = sels[str(s)]
            errs, st = apply(si, st, rep if n == 0 else first_rep(rep), b1950=b, dt=dt)
            tr.step(si["name"], errs, st)
        ends.append(st)
    d9 = d9_of(sep_states(ends[0], ends[1]))
    obs, meta = [], {}
    for i, p in enumerate(pts):
        o = {"k": i + 1, "p": p}
        o.update(tr.fields(i))
        o["d9"] = d9[i] if o["fin"] and o["err"] == "none" else CAP
        o["err"] = "none" if o["err"] == "none" else o["err"].split(":")[1]
        obs.append(o)
        meta[i + 1] = {"polar": bool(tr.polar[i]), "errat": tr.err[i], "nonfin": tr.nonfin[i], "in": [float(a[i]).hex() for a in st0],
                       "lhs": [float(a[i]) for a in ends[0]], "rhs": [float(a[i]) for a in ends[1]]}
    c = {"kind": "eqn", "path": e["path"], "rhs": e["rhs"], "tol9": job["tol9"], "frame": e["frame"], "b1950": b, "dt": dt, "rep": rep}
    return {"c": c, "obs": obs, "meta": meta}


def _ang(job):
    return None if not job.get("ang") else tuple(float.fromhex(h) for h in job["ang"])


def eval_iso(job):
    eps = sl.EPS[job["e"]]
    pts = [job["p"]] + job["qs"]
    st0 = gc_state(job["src"], pts, eps)
    tr = Track(len(pts))
    tr.inputs(st0)
    errs, st = apply(job["si"], st0, "array", b1950=job["b1950"], ang=_ang(job))
    tr.step(job["name"], errs, st)
    first = St((np.repeat(a[:1], len(pts) - 1) for a in st), st.kind)
    rest = St((a[1:] for a in st), st.kind)
    seps = sep_states(first, rest) if len(pts) > 1 else []
    tol = Fraction(job["tol9"], 10 ** 9) + ALLOW
    obs, meta = [], {}
    for i, q in enumerate(job["qs"]):
        ok = tr.err[0] == "none" and tr.err[i + 1] == "none"
        fin = bool(tr.fin[0] and tr.fin[i + 1])
        o = {"k": i + 1, "q": q, "err": "none" if ok else (tr.err[0] if tr.err[0] != "none" else tr.err[i + 1]).split(":")[1],
             "fin": fin, "on": False, "a": 0, "blo": 0, "bhi": 0}
        got = None
        if ok and fin:
            got = sl.ld_fraction(seps[i])
            o["on"], o["a"], o["blo"], o["bhi"] = sl.project_gc(got, eps, tol)
        obs.append(o)
        meta[i + 1] = {"polar": bool(tr.polar[0] or tr.polar[i + 1]), "sep_out": None if got is None else float(got), "err": o["err"]}
    c = {"kind": "iso", "sel": job["sel"], "tol9": job["tol9"], "p": job["p"], "b1950": job["b1950"], "e": job["e"]}
    return {"c": c, "obs": obs, "meta": meta}


def eval_isor(job):
    pts = [job["u"]] + job["vs"]
    rows = [rs_state(job["src"], v) for v in pts]
    st0 = St((np.array(col, dtype="f8") for col in zip(*rows)), KIND[job["src"]])
    tr = Track(len(pts))
    tr.inputs(st0)
    errs, st = apply(job["si"], st0, "array", b1950=job["b1950"], ang=_ang(job))
    tr.step(job["name"], errs, st)
    first = St((np.repeat(a[:1], len(pts) - 1) for a in st), st.kind)
    rest = St((a[1:] for a in st), st.kind)
    seps = sep_states(first, rest)
    tol = Fraction(job["tol9"], 10 ** 9) + ALLOW
    thetas = job.get("_thetas")
    obs, meta = [], {}
    with localcontext() as cx:
        cx.prec = sl.PREC
        dtol = Decimal(tol.numerator) / Decimal(tol.denominator)
        for i, v in enumerate(job["vs"]):
            ok = tr.err[0] == "none" and tr.err[i + 1] == "none"
            fin = bool(tr.fin[0] and tr.fin[i + 1])
            o = {"k": i + 1, "v": v, "err": "none" if ok else (tr.err[0] if tr.err[0] != "none" else tr.err[i + 1]).split(":")[1],
                 "fin": fin, "on": False, "dn": 0, "dd": 1}
            dev = None
            if ok and fin:
                den = int(job["u"][3]) * int(v[3])
                th = thetas[i] if thetas else sl.exact_angle_deg(job["dots"][i], den)
                g = sl.ld_fraction(seps[i])
                d = abs(Decimal(g.numerator) / Decimal(g.denominator) - th)
                dev = float(d)
                if d <= dtol:
                    o["on"], o["dn"], o["dd"] = True, int(job["dots"][i]), den
            obs.append(o)
            meta[i + 1] = {"polar": bool(tr.polar[0] or tr.polar[i + 1]), "dev": dev, "err": o["err"]}
    c = {"kind": "isor", "sel": job["sel"], "tol9": job["tol9"], "u": job["u"], "b1950": job["b1950"]}
    return {"c": c, "obs": obs, "meta": meta}


def eval_anchor(job):
    a, dt = job["a"], job["dt"]
    st0 = St((np.array([float(dval(a["in"][f]))]) for f in ("lon", "lat")), "deg")
    want = St((np.array([float(dval(a["out"][f]))]) for f in ("lon", "lat")), "deg")
    obs, meta = [], {}
    for k, shape in enumerate(job["reps"], 1):
        tr = Track(1)
        errs, st = apply(job["name"], st0, shape, dt=dt)
        tr.step(job["name"], errs, st)
        f = tr.fields(0)
        d9 = d9_of(sep_states(st, want), float(ALLOW))[0]
        obs.append({"k": k, "err": "none" if f["err"] == "none" else f["err"].split(":")[1], "fin": f["fin"], "lx": f["lx"],
                    "d9": d9 if f["fin"] and f["err"] == "none" else CAP})
        meta[k] = {"shape": shape, "got": [float(t[0]) for t in st], "polar": True, "err": f["err"]}
    return {"c": {"kind": "anchor", "sel": job["sel"], "a": a, "tol9": job["tol9"], "dt": dt}, "obs": obs, "meta": meta}


def _snap(vec, d):
    """longdouble unit vector -> the rational-sphere point (n1, n2, n3, d) it is, or None"""
    n = [int(np.rint(t * L(d))) if np.isfinite(t) else 0 for t in vec]
    if n[0] * n[0] + n[1] * n[1] + n[2] * n[2] != d * d:
        return None
    return n + [d]


def eval_cube(job):
    pts = job["pts"]
    ang = tuple(90.0 * q + 360.0 * w for q, w in zip(job["q"], job["wind"]))
    rows = [rs_state("eq", v) for v in pts]
    st0 = St((np.array(col, dtype="f8") for col in zip(*rows)), "deg")
    tolv = job["tol9"] * 1e-9 + float(ALLOW)
    obs, meta = [], {}
    for k, shape in enumerate(job["reps"], 1):
        tr = Track(len(pts))
        errs, st = apply("rotate", st0, shape, ang=ang)
        tr.step("rotate", errs, st)
        x, y, z = unit_ld(st[0], st[1])
        imgs = []
        for i, v in enumerate(pts):
            d = int(v[3])
            cand = _snap((x[i], y[i], z[i]), d) if tr.fin[i] else None
            if cand is not None:
                s = sl.sep_xyz_ld(x[i], y[i], z[i], L(cand[0]), L(cand[1]), L(cand[2]))
                if not float(s) <= tolv:
                    cand = None
            imgs.append(cand or [0, 0, 0, 0])
        bad = [e for e in tr.err if e != "none"]
        obs.append({"k": k, "err": bad[0].split(":")[1] if bad else "none", "fin": bool(tr.fin.all()), "imgs": imgs})
        meta[k] = {"shape": shape, "angles": list(ang), "polar": False,
                   "off": [i for i, im in enumerate(imgs) if im == [0, 0, 0, 0]][:5]}
    return {"c": {"kind": "cube", "q": job["q"], "pts": pts}, "obs": obs, "meta": meta}


def eval_rot(job):
    ang = _ang(job)
    pts, shape = job["pts"], job["shape"]
    st0 = round_to_rep(concretise("eq", pts), shape)
    tr = Track(len(pts))
    tr.inputs(st0)
    errs, st1 = apply("rotate", st0, shape, ang=ang)
    tr.step("rotate", errs, st1)
    ds = []
    for cand in job["cands"]:
        back = tuple(sg * ang[ix - 1] for ix, sg in cand)
        errs, st2 = apply("rotate", st1, first_rep(shape), ang=back)
        tr.step("rotate", errs, st2)
        ds.append(d9_of(sep_states(st2, st0)))
    obs, meta = [], {}
    for i in range(len(pts)):
        f = tr.fields(i)
        good = f["fin"] and f["err"] == "none"
        obs.append({"k": i + 1, "err": "none" if f["err"] == "none" else f["err"].split(":")[1], "fin": f["fin"], "lx": f["lx"],
                    "ds": [d[i] if good else CAP for d in ds]})
        meta[i + 1] = {"polar": bool(tr.polar[i]), "p": pts[i], "in": [float(a[i]) for a in st0], "rot": [float(a[i]) for a in st1],
                       "nonfin": tr.nonfin[i], "errat": tr.err[i]}
    return {"c": {"kind": "rot", "cands": job["cands"], "tol9": job["tol9"], "ang": job["ang"], "rep": shape}, "obs": obs, "meta": meta}


def _shift_call(fn, x, mode, s):
    import esutil.coords as co
    f = getattr(co, fn)
    if mode == "shift":
        return f(x, shift=s)
    if mode == "shift_nowrap":
        return f(x, shift=s, wrap=False)
    if mode == "wrap":
        return f(x)
    return f(x, wrap=False)


SHIFT_REPS = ("array", "scalar", "n1", "npscalar", "list", "f4", "int", "swapped", "strided")


def _shift_arg(shape, vals):
    """the longitudes in one input representation, or None when they are not exactly representable in it"""
    if shape == "scalar":
        return vals[0], None
    if shape == "npscalar":
        return np.float64(vals[0]), None
    if shape == "n1":
        x = np.array(vals[:1])
        return x, x
    if shape == "list":
        return list(vals), None
    if shape == "f4":
        x = np.array(vals, dtype="f4")
        return (x, x) if [float(t) for t in x] == list(vals) else (None, None)
    if shape == "int":
        return (np.array(vals, dtype="i8"),) * 2 if all(float(t).is_integer() for t in vals) else (None, None)
    if shape == "swapped":
        x = np.array(vals, dtype=">f8")
        return x, x
    if shape == "strided":
        big = np.full(2 * len(vals) + 1, 7.25)
        big[1::2] = vals
        return big[1::2], big
    x = np.array(vals)
    return x, x


def _shift_eval(fn, shape, lonf, others, mode, s):
    """-> (err, value) or None when the representation cannot hold the values"""
    try:
        vals = [lonf] + others
        x, base = _shift_arg(shape, vals)
        if x is None:
            return None
        keep = None if base is None else base.tobytes()
        with np.errstate(all="ignore"):
            r = np.asarray(_shift_call(fn, x, mode, s), dtype="f8").ravel()
        if keep is not None and base.tobytes() != keep:
            return "ArgumentModified", None
        if r.size != (1 if shape in ("scalar", "npscalar", "n1") else len(vals)):
            return "ShapeError", None
        return "none", float(r[0])
    except Exception as e:  # noqa
        return type(e).__name__, None


def eval_shift(job):
    u, F, lon = job["u"], job["F"], job["lon"]
    lonf = lon / u
    others = [((lon + F // 2) % F) / u, 0.0, ((lon + F // 3) % F) / u]
    calls = [("shift", s) for s in job["ss"]] + [("shift_nowrap", s) for s in job["ss"]] + [("wrap", 0), ("none", 0)]
    obs, meta = [], {}
    for mode, s in calls:
        classes = {}
        for fn, shapes in (("shiftlon", SHIFT_REPS), ("shiftra", SHAPES)):
            for shape in shapes:
                res = _shift_eval(fn, shape, lonf, others, mode, s / u)
                if res is not None:
                    classes.setdefault((res[0], None if res[1] is None else res[1].hex()), []).append((fn, shape))
        for (err, hx), members in sorted(classes.items(), key=lambda kv: (kv[0][0], kv[0][1] or "")):
            o = {"k": len(obs) + 1, "mode": mode, "s": s, "err": err, "isint": False, "v": 0}
            if hx is not None:
                v = float.fromhex(hx) * u
                if math.isfinite(v) and v == math.floor(v) and abs(v) < 2 ** 31:
                    o["isint"], o["v"] = True, int(v)
            obs.append(o)
            meta[o["k"]] = {"members": members, "ret": hx, "mode": mode, "s": s}
    return {"c": {"kind": "shift", "F": F, "lon": lon}, "obs": obs, "meta": meta}


def eval_shiftr(job):
    obs, meta = [], {}
    for i, (lh, sh, mode) in enumerate(job["cases"]):
        lonf, s = float.fromhex(lh), float.fromhex(sh)
        classes = {}
        for fn, shapes in (("shiftlon", ("array", "scalar", "n1", "npscalar", "list", "swapped", "strided")), ("shiftra", SHAPES)):
            for shape in shapes:
                err, r = _shift_eval(fn, shape, lonf, [0.0, 359.5], mode, s)
                classes.setdefault((err, None if r is None else r.hex()), []).append((fn, shape))
        for (err, hx), members in sorted(classes.items(), key=lambda kv: (kv[0][0], kv[0][1] or "")):
            o = {"k": len(obs) + 1, "mode": mode, "err": err, "fin": False, "on": False, "ge0": False, "lt360": False,
                 "gem180": False, "le180": False}
            if hx is not None:
                r = float.fromhex(hx)
                o["fin"] = math.isfinite(r)
                if o["fin"]:
                    want = Fraction(lonf) - (Fraction(s) if mode in ("shift", "shift_nowrap") else 0)
                    dev = Fraction(r) - want
                    kk = round(dev / 360)
                    tol = 4 * Fraction(1, 2 ** 52) * max(abs(Fraction(lonf)), abs(Fraction(s)), 360)
                    o["on"] = abs(dev - 360 * kk) <= tol
                    o["ge0"], o["lt360"], o["gem180"], o["le180"] = r >= 0.0, r < 360.0, r >= -180.0, r <= 180.0
            obs.append(o)
            meta[o["k"]] = {"members": members, "ret": hx, "mode": mode, "s": s, "lon": lonf, "case": i}
    return {"c": {"kind": "shiftr"}, "obs": obs, "meta": meta}


def eval_xyz(job):
    u, units, dt = job["u"], job["units"], job["dt"]
    d = int(u[3])
    si = SI("eq2xyz", units=units)
    st0 = St((np.array([t]) for t in rs_state("eqr" if units == "rad" else "eq", u)), "rad" if units == "rad" else "deg")
    tolv = job["tol9"] * 1e-9 + float(ALLOW)
    obs, meta = [], {}
    for k, shape in enumerate(job["reps"], 1):
        tr = Track(1)
        errs, st = apply(si, st0, shape, dt=dt)
        tr.step("eq2xyz", errs, st)
        f = tr.fields(0)
        img = None
        if f["fin"] and f["err"] == "none":
            vec = tuple(L(a[0]) for a in st)
            img = _snap(vec, d)
            if img is not None and not float(sl.sep_xyz_ld(vec[0], vec[1], vec[2], L(img[0]), L(img[1]), L(img[2]))) <= tolv:
                img = None
        obs.append({"k": k, "err": "none" if f["err"] == "none" else f["err"].split(":")[1], "fin": f["fin"],
                    "img": img or [0, 0, 0, 0], "ul": f["ul"]})
        meta[k] = {"shape": shape, "got": [float(a[0]) for a in st], "polar": abs(int(u[2])) == d, "err": f["err"]}
    return {"c": {"kind": "xyz", "u": u, "units": units, "dt": dt, "tol9": job["tol9"]}, "obs": obs, "meta": meta}


def _bits_differ(a, b):
    """elements that are not bit-identical (same dtype assumed, else compared by value)"""
    if a.dtype == b.dtype and a.dtype.itemsize in (4, 8):
        u = "u%d" % a.dtype.itemsize
        return a.view(u) != b.view(u)
    return ~((a == b) | (np.isnan(a) & np.isnan(b)))


def eval_scale(job):
    """one array call on n points (the m-point list tiled) against the tiled result of the small call"""
    n, sel = job["n"], job["sel"]
    obs, meta = [], {}
    o = {"k": 1, "err": "none", "len": 0, "fin": False, "lx": 0, "el": 0, "eh": 0, "ul": 0, "d9": 0, "nbit": 0, "rng": True}
    if sel == 0:                                   # shiftlon / shiftra on the dyadic lattice
        u, mode, sv = job["u"], job["mode"], job["s"] / job["u"]
        small = np.array(job["lons"], dtype="f8") / u
        big = np.resize(small, n)
        keep = big.tobytes()
        try:
            with np.errstate(all="ignore"):
                rs = np.asarray(_shift_call(job["fn"], small, mode, sv), dtype="f8").ravel()
                rb = np.asarray(_shift_call(job["fn"], big, mode, sv), dtype="f8").ravel()
            if big.tobytes() != keep:
                raise _Shape()
            o["len"], o["fin"] = int(rb.size), bool(np.isfinite(rb).all())
            if rb.size == n and rs.size == small.size:
                bad = _bits_differ(rb, np.resize(rs, n))
                o["nbit"] = int(bad.sum())
                o["rng"] = bool(((rb >= 0.0) & (rb < 360.0)).all()) if mode.startswith("shift") else \
                    bool(((rb >= -180.0) & (rb <= 180.0)).all()) if mode == "wrap" else True
                meta[1] = {"first": int(np.argmax(bad)) if o["nbit"] else None, "mode": mode, "s": job["s"], "members": [[job["fn"], "array"]],
                           "outside": [float(t) for t in rb[~((rb >= -180.0) & (rb < 360.0))][:3]]}
        except Exception as e:  # noqa
            o["err"] = "ArgumentModified" if isinstance(e, _Shape) else type(e).__name__
        meta.setdefault(1, {"mode": mode, "s": job["s"], "members": [[job["fn"], "array"]]})
        return {"c": {"kind": "scale", "sel": 0, "n": n, "m": len(job["lons"]), "mode": mode}, "obs": [o], "meta": meta}
    si = job["si"]
    st0 = concretise(job["frame"], job["pts"])
    m = len(job["pts"])
    big = St((np.resize(a, n) for a in st0), st0.kind)
    ang = _ang(job)
    try:
        keep = [a.tobytes() for a in big]
        with np.errstate(all="ignore"):
            rs = [np.asarray(r).ravel() for r in _invoke(si, tuple(np.array(a) for a in st0), job["b1950"], ang, "f8")]
            rb = [np.asarray(r).ravel() for r in _invoke(si, tuple(big), job["b1950"], ang, "f8")]
        if [a.tobytes() for a in big] != keep:
            raise _Shape()
        kind = "xyz" if si["name"] == "eq2xyz" else ("rad" if (si["name"] == "xyz2eq" and si["units"] == "rad") else "deg")
        o["len"] = int(min(r.size for r in rb))
        if all(r.size == n for r in rb) and all(r.size == m for r in rs):
            out = St(rb, kind)
            tr = Track(n)
            tr.step(si["name"], ["none"] * n, out)
            o["fin"] = bool(tr.fin.all())
            o["lx"] = d9_of(tr.latx.max(), 1e-14)[0]
            if si["name"] == "eq2sdss" and o["fin"]:
                o["el"], o["eh"] = int(math.floor(tr.emin.min())), int(math.ceil(tr.emax.max()))
            ul = float(np.ceil(tr.ul.max()))
            o["ul"] = int(min(ul, 2 ** 20)) if math.isfinite(ul) else 2 ** 20
            exp = [np.resize(r, n) for r in rs]
            bad = np.zeros(n, bool)
            for a, b in zip(rb, exp):
                bad |= _bits_differ(a, b)
            o["nbit"] = int(bad.sum())
            idx = np.nonzero(bad)[0][:20000]
            if idx.size and o["fin"]:
                d = d9_of(sep_states(St((a[idx] for a in rb), kind), St((b[idx] for b in exp), kind)))
                o["d9"] = max(d)
                worst = int(idx[int(np.argmax(d))])
                meta[1] = {"worst": worst, "got": [float(a[worst]) for a in rb], "small": [float(b[worst]) for b in exp]}
            if si["name"] == "eq2sdss":
                w = np.nonzero((rb[0] < -180.0) | (rb[0] > 180.0))[0]
                if w.size:
                    meta.setdefault(1, {})["eta_outside"] = [(int(i), float(rb[0][i])) for i in w[:3]]
    except Exception as e:  # noqa
        o["err"] = "ArgumentModified" if isinstance(e, _Shape) else type(e).__name__
    meta.setdefault(1, {})
    return {"c": {"kind": "scale", "sel": sel, "n": n, "m": m, "mode": "none"}, "obs": [o], "meta": meta}

# ---------------------------------------------------------------------------------
# world: sessions of calls in ONE fresh process, every call compared with the same call in another fresh process.
# A zygote (a python started with the same sys.path, esutil.coords imported, no conversion ever called in it) forks one
# child per program; the child runs the program's calls in order and sends back what each returned.
_ZYG = {}
_ZYG_CODE = ("import sys, json; sys.path[:] = json.loads(sys.argv[1])\n"
             "from vh.adapters import c09\n"
             "c09._zygote_main()\n")


def _zygote_main():
    import os
    import pickle
    import struct
    import sys
    import esutil.coords  # noqa  (imported, never called here)
    fin, fout = sys.stdin.buffer, sys.stdout.buffer
    while True:
        head = fin.read(8)
        if len(head) < 8:
            return
        prog = pickle.loads(fin.read(struct.unpack("<Q", head)[0]))
        r, w = os.pipe()
        pid = os.fork()
        if pid == 0:
            code = 1
            try:
                os.close(r)
                with os.fdopen(w, "wb") as f:
                    f.write(pickle.dumps(_world_exec(prog)))
                code = 0
            finally:
                os._exit(code)
        os.close(w)
        with os.fdopen(r, "rb") as f:
            data = f.read()
        os.waitpid(pid, 0)
        fout.write(struct.pack("<Q", len(data)) + data)
        fout.flush()


def _zyg_run(prog):
    """run a program (a list of calls) in a fresh process -> per call {"err", "out"}"""
    import json
    import os
    import pickle
    import struct
    import subprocess
    import sys
    z = _ZYG.get(os.getpid())
    if z is None or z.poll() is not None:
        z = subprocess.Popen([sys.executable, "-c", _ZYG_CODE, json.dumps(sys.path)], stdin=subprocess.PIPE, stdout=subprocess.PIPE,
                             stderr=subprocess.DEVNULL)
        _ZYG.clear()
        _ZYG[os.getpid()] = z
    data = pickle.dumps(prog)
    z.stdin.write(struct.pack("<Q", len(data)) + data)
    z.stdin.flush()
    head = z.stdout.read(8)
    if len(head) < 8:
        raise MachineryError("world zygote died")
    body = z.stdout.read(struct.unpack("<Q", head)[0])
    if not body:           # (killed from outside, out of memory: nothing can be said about the code under test)
        raise MachineryError("world: the child process of a session died without an answer")
    return pickle.loads(body)


_FRESH = {}
RANDCAP_N = 16


def _fresh_ref(c, inp):
    """what the call returns in a fresh process of its own (kept per worker: it is a function of the call alone - every
    reference IS computed in a fresh process, only not twice for identical arguments)"""
    import hashlib
    h = hashlib.sha1()
    for a in inp:
        h.update(np.ascontiguousarray(a, dtype="f8").tobytes())
    key = (tuple(sorted(c["si"].items())), c["b1950"], c["ang"], h.digest())
    if key not in _FRESH:
        if len(_FRESH) > 4000:
            _FRESH.clear()
        _FRESH[key] = _zyg_run({"calls": [dict(c, inp=[np.array(a) for a in inp], scr=False)]})[0]
    return _FRESH[key]


def _out_kind(si):
    return "xyz" if si["name"] == "eq2xyz" else ("rad" if (si["name"] == "xyz2eq" and si["units"] == "rad") else "deg")


def _world_exec(prog):
    """(in the child) the calls of a program in order.  The caller re-uses ONE buffer per argument position for all calls
    (refilled in place), checks that a call left its arguments alone, keeps a copy of what came back and then - scr -
    overwrites the arrays it was handed with nan (results are the caller's)."""
    bufs, outs = {}, []
    for c in prog["calls"]:
        src = c["inp"]
        if isinstance(src, int):
            src = outs[src]["out"]
            if src is None:
                outs.append({"err": "NoInput", "out": None})
                continue
        args = []
        for pos, a in enumerate(src):
            b = bufs.setdefault((pos, len(a)), np.empty(len(a), dtype="f8"))
            b[:] = a
            args.append(b)
        keep = [a.tobytes() for a in args]
        si = c["si"]
        nout = 3 if si["name"] == "eq2xyz" else 2
        try:
            with np.errstate(all="ignore"):
                if si["name"] == "randcap":       # the other entry point: a seeded cap, rotated into place by rotate
                    import esutil.coords as co
                    res = list(co.randcap(RANDCAP_N, c["ang"][0], c["ang"][1], 1.0, dorot=True, rng=np.random.RandomState(1)))
                else:
                    res = list(_invoke(si, tuple(args), c["b1950"], c["ang"], "f8"))
            flat = [np.asarray(r).ravel() for r in res]
            if len(flat) != nout or any(r.size != (len(args[0]) if args else RANDCAP_N) or r.dtype.kind != "f" for r in flat):
                raise _Shape()
            out = [np.array(r, dtype="f8", copy=True) for r in flat]
            err = "none" if [a.tobytes() for a in args] == keep else "ArgumentModified"
            if c["scr"]:
                for r in res:
                    if isinstance(r, np.ndarray) and r.flags.writeable:
                        r[...] = np.nan
            outs.append({"err": err, "out": out if err == "none" else None})
        except Exception as e:  # noqa
            outs.append({"err": "ShapeError" if isinstance(e, _Shape) else type(e).__name__, "out": None})
    return outs


def wangle(a):
    """world angle (integer, units of 1e-7 degree) -> the double nearest to it"""
    return float(Fraction(int(a), 10 ** 7))


def eval_world(job):
    steps, sels = job["steps"], job["sels"]
    calls, owner, inputs = [], [], {}
    for i, st in enumerate(steps):
        fn, p = st["c"]["fn"], st["c"]["p"]
        if fn == "rotate":
            si, b, ang, frame = SI("rotate"), False, tuple(wangle(a) for a in p), "eq"
        elif fn == "randcap":
            si, b, ang, frame = SI("randcap"), False, tuple(wangle(a) for a in p), None
        else:
            si, b, ang, frame = sels[str(p[0])], bool(p[1]), None, job["src"][str(p[0])]
        st0 = concretise(frame, job["pts"][frame]) if frame else St([], "deg")
        inputs[i] = st0
        first = len(calls)
        calls.append({"si": si, "b1950": b, "ang": ang, "inp": [np.array(a) for a in st0], "scr": st["scr"]})
        owner.append((i, 0))
        if st["undo"]:
            for nc, cand in enumerate(job["cands"], 1):
                back = tuple(wangle(sg * p[ix - 1]) for ix, sg in cand)
                calls.append({"si": si, "b1950": False, "ang": back, "inp": first, "scr": st["scr"]})
                owner.append((i, nc))
    sess = _zyg_run({"calls": calls})
    obs, meta = [], {}
    per = {i: {"err": "none", "fin": True, "lx": 0, "dw": 0, "ds": [], "worst": None} for i in range(len(steps))}
    for j, (c, (i, sub), r) in enumerate(zip(calls, owner, sess)):
        a = per[i]
        name = c["si"]["name"]
        if r["err"] != "none":
            if a["err"] == "none":
                a["err"] = r["err"]
            continue
        inp = c["inp"] if not isinstance(c["inp"], int) else sess[c["inp"]]["out"]
        fresh = _fresh_ref(c, inp)
        out = St(r["out"], _out_kind(c["si"]))
        tr = Track(len(out[0]))
        tr.step(name, ["none"] * len(out[0]), out)
        a["fin"] = a["fin"] and bool(tr.fin.all())
        a["lx"] = max(a["lx"], d9_of(tr.latx.max(), 1e-14)[0])
        if fresh["err"] != "none":
            dw, wi = CAP, 0
        else:
            d = d9_of(sep_states(out, St(fresh["out"], out.kind)))
            wi = int(np.argmax(d))
            dw = d[wi]
        if dw >= a["dw"]:
            a["dw"] = dw
            a["worst"] = {"call": name + (str(list(c["ang"])) if c["ang"] else "") + (" (undo %d)" % sub if sub else ""), "fresh_err": fresh["err"],
                          "session": [float(t[wi]) for t in out], "fresh": None if fresh["err"] != "none" else [float(t[wi]) for t in fresh["out"]]}
        if sub:
            a["ds"].append(max(d9_of(sep_states(out, inputs[i]))) if tr.fin.all() else CAP)
    for i, st in enumerate(steps):
        a = per[i]
        good = a["err"] == "none" and a["fin"]
        ds = a["ds"] if (st["undo"] and len(a["ds"]) == len(job["cands"])) else ([CAP] * len(job["cands"]) if st["undo"] else [])
        obs.append({"k": i + 1, "err": a["err"], "fin": a["fin"], "lx": a["lx"], "dw": a["dw"] if good else CAP, "ds": ds})
        fn, p = st["c"]["fn"], st["c"]["p"]
        meta[i + 1] = {"name": fn if fn != "conv" else sels[str(p[0])]["name"], "worst": a["worst"], "err": a["err"], "polar": False}
    c = {"kind": "world", "steps": steps, "tol9": job["tol9"], "rottol9": job["rottol9"]}
    return {"c": c, "obs": obs, "meta": meta}


def world_text(job):
    out = []
    for st in job["steps"]:
        fn, p = st["c"]["fn"], st["c"]["p"]
        t = "rotate(%s)" % ", ".join(repr(wangle(a)) for a in p) if fn == "rotate" else \
            "randcap(%d, %r, %r, 1.0, dorot=True, rng=RandomState(1))" % (RANDCAP_N, wangle(p[0]), wangle(p[1])) if fn == "randcap" else \
            "%s(%s)" % (job["sels"][str(p[0])]["name"], "b1950=True" if p[1] else "")
        out.append(t + ("+undo" if st["undo"] else "") + ("+scribble" if st["scr"] else ""))
    return " ; ".join(out)


EVAL = {"world": eval_world, "scale": eval_scale, "eqn": eval_eqn, "iso": eval_iso, "isor": eval_isor, "anchor": eval_anchor, "cube": eval_cube, "rot": eval_rot,
        "shift": eval_shift, "shiftr": eval_shiftr, "xyz": eval_xyz}


def eval_job(job):
    r = EVAL[job["kind"]](job)
    r["nobs"] = len(r["obs"])
    return r


# ---------------------------------------------------------------------------------
# signatures: <entry point / family>|<failing clause>|<structural class of the input>
def _stripped(job):
    """the conversions of a path equation that both sides do not apply first / last in common"""
    lhs, rhs = list(job["eqn"]["path"]), list(job["eqn"]["rhs"])
    while lhs and rhs and lhs[-1] == rhs[-1]:
        lhs.pop(), rhs.pop()
    while lhs and rhs and lhs[0] == rhs[0]:
        lhs.pop(0), rhs.pop(0)
    return [job["sels"][str(s)] for s in lhs + rhs]


def families(job):
    if job["kind"] == "eqn":
        return sorted({FAMILY.get(si["name"], "euler") for si in _stripped(job)})
    if job["kind"] in ("iso", "isor"):
        return [FAMILY.get(job["name"], "euler")]
    return []


def options(job, m):
    """the non-default option values / input representation a case was run with"""
    kind = job["kind"]
    o = set()
    sis = _stripped(job) if kind == "eqn" else [job["si"]] if (kind in ("iso", "isor") or (kind == "scale" and job["sel"])) else []
    if any(si["units"] == "rad" for si in sis) or job.get("units") == "rad":
        o.add("units=rad")
    if any(si["stomp"] for si in sis):
        o.add("stomp")
    if job.get("dt", "f8") != "f8":
        o.add("dt=" + job["dt"])
    r = job.get("rep") or job.get("shape") or m.get("shape")
    if r and r != "array":
        o.add("rep=" + r)
    if kind in ("shift", "shiftr") and m.get("members") and ["shiftlon", "array"] not in [list(t) for t in m["members"]]:
        o.add("rep=" + "+".join(sorted({sh for _, sh in m["members"]})))
    return frozenset(o)


def raw_sig(job, meta, clause, k):
    """(family list, clause group, structural class)"""
    kind = job["kind"]
    m = meta.get(k, {})
    if kind == "eqn":
        if clause == "no_error" and ":" in m.get("errat", ""):       # the conversion that raised, and what
            fn, err = m["errat"].split(":")
            return [fn], clause, err
        if clause == "finite" and m.get("nonfin"):                   # the conversion that returned nan / inf, and in which output
            fn, comp = m["nonfin"].split(":")
            return [FAMILY.get(fn, "euler")], clause, comp
        if clause == "lon_range":                                    # only eq2sdss documents a longitude range
            return ["eq2sdss"], clause, "eta"
        cl = "equation" if clause in ("inverse", "loop", "chain") else clause
        return families(job), cl, "near_pole" if m.get("polar") else "generic"
    if kind in ("iso", "isor"):
        if clause == "no_error":
            o = m.get("err") or "error"
            return [job["name"]], clause, o
        return families(job), clause, "near_pole" if m.get("polar") else "generic"
    if kind == "anchor":
        if clause == "no_error":
            return [job["name"]], clause, m.get("err", "x:error").split(":")[-1]
        return ["euler"], clause, "pole" if (job["a"]["free"] or abs(job["a"]["in"]["lat"][0]) == 90 * 10 ** 6) else "node"
    if kind == "cube":
        return ["rotate"], clause, "right_angles"
    if kind == "rot":
        if clause == "no_error" and ":" in m.get("errat", ""):
            return ["rotate"], clause, m["errat"].split(":")[1]
        if clause == "finite" and m.get("nonfin"):
            return ["rotate"], clause, m["nonfin"].split(":")[1]
        return ["rotate"], clause, "near_pole" if m.get("polar") else "generic"
    if kind in ("shift", "shiftr"):
        s = m.get("s", 0)
        mode = m.get("mode", "?")
        cls = ("negative_shift" if s < 0 else "positive_shift" if s > 0 else "zero_shift") if mode.startswith("shift") else mode
        return ["shiftlon"], clause, cls
    if kind == "xyz":
        if clause == "no_error":
            return ["eq2xyz"], clause, m.get("err", "x:error").split(":")[-1]
        return ["eq2xyz"], clause, "pole" if m.get("polar") else "generic"
    if kind == "world":
        return [m.get("name", "rotate")], clause, (m.get("err") if clause == "no_error" else "session")
    if kind == "scale":                            # class: how many blocks of 2^18 points the array spans
        nblk = (job["n"] + 2 ** 18 - 1) // 2 ** 18
        return [job["fn"] if job["sel"] == 0 else job["si"]["name"]], clause, "large_array:%s" % ("1_block" if nblk == 1 else "several_blocks")
    return [kind], clause, "?"


def describe(job, rec, k, clause):
    m = rec["meta"].get(k, {})
    o = next((t for t in rec["obs"] if t["k"] == k), {})
    kind = job["kind"]
    if kind == "eqn":
        e = job["eqn"]
        def nm(t):
            si = job["sels"][str(t)]
            return si["name"] + ("[%s]" % ",".join(x for x in ("rad" if si["units"] == "rad" else "", "stomp" if si["stomp"] else "") if x)
                                 if si["units"] == "rad" or si["stomp"] else "")
        lhs = " o ".join(nm(t) for t in reversed(e["path"]))
        rhs = nm(e["rhs"][0]) if e["rhs"] else "identity"
        return ("%s = %s (%s, %s, dtype=%s, input as %s) at input %s: left %s, right %s, %s; fin=%s lat_excess=%se-9 eta=[%s,%s] "
                "unit=%s ulp err=%s" % (
                    lhs, rhs, e["kind"], "B1950" if job["b1950"] else "J2000", job["dt"], job["rep"],
                    [float.fromhex(h) for h in m.get("in", [])], m.get("lhs"), m.get("rhs"),
                    "apart by >%.6g deg (allowed %.6g)" % ((o.get("d9", 0) - 1) * 1e-9, job["tol9"] * 1e-9),
                    o.get("fin"), o.get("lx"), o.get("el"), o.get("eh"), o.get("ul"), m.get("errat")))
    if kind in ("iso", "isor"):
        return "%s (%s) does not preserve the separation of %s and %s within %g deg: %s" % (
            job["name"], "B1950" if job["b1950"] else "J2000", job.get("p") or job.get("u"), o.get("q") or o.get("v"),
            job["tol9"] * 1e-9, {kk: vv for kk, vv in o.items() if kk not in ("q", "v")} | m)
    if kind == "anchor":
        return "%s(%s, dtype=%s) returned %s (%s call), documented constants give %s; off by >%.6g deg" % (
            job["name"], [float(dval(job["a"]["in"][f])) for f in ("lon", "lat")], job["dt"], m.get("got"), m.get("shape"),
            [float(dval(job["a"]["out"][f])) for f in ("lon", "lat")], (o.get("d9", 0) - 1) * 1e-9)
    if kind == "cube":
        return "rotate%s (%s call) is not one proper signed coordinate permutation of the rational sphere (fin=%s, err=%s, unmatched points %s)" % (
            tuple(m.get("angles", [])), m.get("shape"), o.get("fin"), o.get("err"), m.get("off"))
    if kind == "rot":
        return "rotate(%s) (input as %s) at %s -> %s: fin=%s lat_excess=%se-9 err=%s; distance from the input after each candidate inverse (1e-9 deg): %s" % (
            [float.fromhex(h) for h in job["ang"]], job["shape"], m.get("in"), m.get("rot"), o.get("fin"), o.get("lx"), o.get("err"), o.get("ds"))
    if kind == "shift":
        return "%s(lon=%r, mode=%s, shift=%r) returned %s (err=%s) via %s" % (
            "/".join(sorted({fn for fn, _ in m["members"]})), job["lon"] / job["u"], m["mode"], m["s"] / job["u"],
            None if m["ret"] is None else float.fromhex(m["ret"]), o.get("err"), m["members"])
    if kind == "shiftr":
        return "shiftlon/shiftra(lon=%r, mode=%s, shift=%r) returned %s (err=%s) via %s: %s" % (
            m["lon"], m["mode"], m["s"], None if m["ret"] is None else float.fromhex(m["ret"]), o.get("err"), m["members"],
            {kk: vv for kk, vv in o.items() if kk not in ("k", "mode", "err")})
    if kind == "world":
        w = m.get("worst") or {}
        return ("session of %d steps in ONE fresh process [%s], each call on the same %d points: step %d (%s): err=%s fin=%s lat_excess=%se-9; "
                "largest distance from what the SAME call returns in a fresh process: >%.6g deg (allowed %.6g) at call %s: session %s, "
                "fresh %s (fresh err=%s); distance from the input after each candidate inverse (1e-9 deg): %s" % (
                    len(job["steps"]), world_text(job), max([len(v) for v in job["pts"].values()] or [RANDCAP_N]), k, m.get("name"), o.get("err"), o.get("fin"),
                    o.get("lx"), (o.get("dw", 0) - 1) * 1e-9, job["tol9"] * 1e-9, w.get("call"), w.get("session"), w.get("fresh"),
                    w.get("fresh_err"), o.get("ds")))
    if kind == "scale":
        return "%s on %d points (the %d-point list repeated, one array call; options %s): %s; %s" % (
            job["fn"] if job["sel"] == 0 else job["si"]["name"], job["n"], rec["c"]["m"],
            {kk: job.get(kk) for kk in ("b1950", "mode", "s", "u", "ang") if job.get(kk) not in (None, False)},
            {kk: vv for kk, vv in o.items() if kk != "k"}, m)
    if kind == "xyz":
        return "eq2xyz(units=%s, dtype=%s) of the rational-sphere point %s returned %s (%s call): img=%s unit=%s ulp err=%s" % (
            job["units"], job["dt"], job["u"], m.get("got"), m.get("shape"), o.get("img"), o.get("ul"), o.get("err"))
    return str(o)


def strip(job):
    return {k: v for k, v in job.items() if not k.startswith("_")}


def judge(ctx, jobs, recs, what, cap=4):
    """TLC judges the records; rejected observations become violations"""
    for n, r in enumerate(recs, 1):
        r["id"] = n
    rejects = tracecheck.validate(ctx, "FramesTrace.tla", [{"id": r["id"], "c": r["c"], "obs": r["obs"]} for r in recs],
                                  what=what, shard_size=500, max_shards=5)
    fails = []
    for rid, failing in sorted(rejects.items()):
        job, rec = jobs[rid - 1], recs[rid - 1]
        for cl, k in failing:
            if cl == "malformed_case":
                raise MachineryError("FramesTrace rejected a case as malformed: %s" % jsonable(rec["c"]))
            fam, clg, cls = raw_sig(job, rec["meta"], cl, k)
            fails.append((fam, clg, cls, rid, k, cl, options(job, rec["meta"].get(k, {}))))
    # a failure of a mixed path is attributed to the family that also fails on its own in the same class
    def severity(f):
        o = next((t for t in recs[f[3] - 1]["obs"] if t["k"] == f[4]), {})
        return -(o.get("d9") or (min(o["ds"]) if o.get("ds") else 0))
    fails.sort(key=lambda f: (severity(f), f[3], f[4], f[5]))
    pure = {(f[0][0], f[2]) for f in fails if len(f[0]) == 1}
    # ... and a failure under non-default options to the smallest set of them under which the same thing fails
    optsets = {}
    for f in fails:
        optsets.setdefault((tuple(f[0]), f[1], f[2]), set()).add(f[6])
    def least_of(key, opts):
        return min((o for o in optsets[key] if o <= opts), key=lambda o: (len(o), sorted(o)))
    # the same failure under several non-default dtypes / several input representations is one signature
    kinds = {}
    for f in fails:
        key = (tuple(f[0]), f[1], f[2])
        for tag in least_of(key, f[6]):
            if tag.startswith(("dt=", "rep=")):
                kinds.setdefault((key, tag.split("=")[0]), set()).add(tag)
    emitted = {}
    for fam, clg, cls, rid, k, cl, opts in fails:
        blame = [f for f in fam if (f, cls) in pure] or fam
        key = (tuple(fam), clg, cls)
        least = sorted({(t.split("=")[0] + "=any" if t.startswith(("dt=", "rep=")) and len(kinds[(key, t.split("=")[0])]) > 1 else t)
                        for t in least_of(key, opts)})
        sig = "%s|%s|%s" % ("+".join(blame), clg, ",".join([cls] + least))
        if emitted.get(sig, 0) >= cap:
            emitted[sig] = emitted[sig] + 1
            continue
        emitted[sig] = emitted.get(sig, 0) + 1
        job, rec = jobs[rid - 1], recs[rid - 1]
        case = {"job": strip(job), "k": k, "clause": cl, "sig": sig}
        if job["kind"] in ("shift", "shiftr"):       # observation classes are renumbered on replay: identify by the call
            m = rec["meta"][k]
            case["call"] = [m["mode"], m["s"], m.get("case", 0)]
        ctx.violation(sig, "clause %s of FramesTrace.tla: %s" % (cl, describe(job, rec, k, cl)), case)
    return rejects, emitted


# ---------------------------------------------------------------------------------
def build_jobs(ctx, exp, parts):
    """exported cases -> evaluation jobs (seeded where a subset is drawn)"""
    rng = random.Random(ctx.seed * 1000003 + 9)
    info = exp["SEL"][0]
    sels = {s["sel"]: s for s in info["sels"]}
    selmap = {str(k): {"name": v["name"], "units": v["units"], "stomp": v["stomp"], "hasdtype": v["hasdtype"]} for k, v in sels.items()}
    edges = sorted(k for k in sels if k != 11)
    frames = {p["frame"]: p["pts"] for p in exp["PTS"]}
    gpts, spts = exp["GCPTS"][0]["pts"], exp["RSPTS"][0]["pts"]
    dts, reps = info["dtypes"], info["reps"]
    if sorted((o["dt"], o["rep"]) for o in exp["OPT"]) != sorted((d, r) for d in dts for r in reps):
        raise MachineryError("exported option product incomplete")
    atol = {o["dt"]: o["anchortol9"] for o in exp["OPT"]}
    quick = ctx.quick
    jobs = {p: [] for p in parts}
    fpts, fint = {}, {}

    def frame_points(fr):
        if fr not in fpts:
            fpts[fr] = ([{"k": "d", "lon": p["lon"], "lat": p["lat"], "v": [0, 0, 0, 1]} for p in frames[fr]] +
                        [{"k": "r", "lon": [0, 0], "lat": [0, 0], "v": v} for v in spts])
            st = concretise(fr, fpts[fr])
            ok = np.ones(len(fpts[fr]), bool)
            for a in st:
                ok &= a == np.floor(a)
            fint[fr] = [p for p, t in zip(fpts[fr], ok) if t]        # points an integer array can hold
        return fpts[fr]

    def sample(fr, rep, n):
        pts = frame_points(fr)
        pool = fint[fr] if rep == "int" else pts
        return pool if len(pool) <= n else rng.sample(pool, n)

    if "world" in parts:
        wrng = random.Random(ctx.seed * 1000003 + 99)
        wpts = {}
        for fr in frames:
            pool = frame_points(fr)
            wpts[fr] = wrng.sample(pool, min(len(pool), 32))
        src = {str(k): v["src"] for k, v in sels.items()}
        for w in exp["WORLD"]:
            need = {"eq" if st["c"]["fn"] == "rotate" else src[str(st["c"]["p"][0])] for st in w["steps"] if st["c"]["fn"] != "randcap"}
            jobs["world"].append({"kind": "world", "steps": w["steps"], "tol9": w["tol9"], "rottol9": w["rottol9"], "cands": info["invcands"],
                                  "sels": selmap, "src": src, "pts": {fr: wpts[fr] for fr in sorted(need)}})

    if "scale" in parts:
        sizes = info["scalesizes"]
        under = [n for n in sizes if n <= 2 ** 18]
        over = [n for n in sizes if n > 2 ** 18]
        convs = [(s, b, None) for s in edges for b in ((False, True) if sels[s]["euler"] else (False,))]
        convs.append((11, False, [float(x).hex() for x in (30.0, 60.0, 45.0)]))
        for nc, (s, b, ang) in enumerate(convs):
            # quick: every size beyond one block of 2^18, and one of those within it (alternating); thorough: all
            ns = sizes if not quick else over + [under[nc % len(under)]]
            for n in ns:
                jobs["scale"].append({"kind": "scale", "sel": s, "si": selmap[str(s)] if s != 11 else SI("rotate"), "frame": sels[s]["src"],
                                      "b1950": b, "ang": ang, "n": n, "pts": frame_points(sels[s]["src"])})
        lons8 = sorted({row["lon"] for row in exp["SHIFT"] if row["u"] == 8})
        shifts = sorted({t for row in exp["SHIFT"] if row["u"] == 8 for t in row["s"]})
        picks = [t for t in shifts if t in (-2881, -1440, -8, 0, 8, 1440, 3240)] or shifts[:5]
        nj = 0
        for fn in ("shiftlon", "shiftra"):
            for mode in ("shift", "shift_nowrap", "wrap", "none"):
                for sv in (picks if mode.startswith("shift") else [0]):
                    nj += 1
                    for n in (sizes if not quick else [over[nj % len(over)], under[nj % len(under)]]):
                        jobs["scale"].append({"kind": "scale", "sel": 0, "fn": fn, "mode": mode, "s": sv, "u": 8, "lons": lons8, "n": n})

    if "eqn" in parts:
        for e in exp["EQN"]:
            allnames = [selmap[str(s)]["name"] for s in e["path"] + e["rhs"]]
            epochs = (False, True) if any(n in EULER for n in allnames) else (False,)
            pts = frame_points(e["frame"])
            for b in epochs:
                for i, dt in enumerate(dts):
                    for j, rep in enumerate(reps):
                        if dt == "f8" and rep == "array":
                            sub = pts                                   # the default options: every point
                        elif dt == "f8" and rep in ("scalar", "n1"):
                            sub = pts if not quick else sample(e["frame"], rep, max(24, len(pts) // 8))
                        else:                                           # every other member of the option product: a seeded sample
                            sub = sample(e["frame"], rep, 12 if quick else 48)
                        for t in range(0, len(sub), CHUNK):
                            jobs["eqn"].append({"kind": "eqn", "eqn": {k: e[k] for k in ("path", "rhs", "kind", "frame")},
                                                "sels": selmap, "b1950": b, "pts": sub[t:t + CHUNK], "rep": rep, "dt": dt,
                                                "tol9": e["tolx"][i][j]})

    # Euler angle triples for rotate (degrees): lattice angles, tiny and huge ones, seeded generic ones
    fixed = [(30.0, 60.0, 45.0), (0.0, 1e-9, 0.0), (123.456, 0.0, -77.0), (0.0, 180.0, 0.0), (359.999999, 90.000001, -1e-6),
             (-200.0, 179.999999, 400.0), (10.0, -35.0, 720.0)]
    nrand = 6 if quick else 40
    triples = fixed + [tuple(round(rng.uniform(-360, 360), rng.choice((0, 3, 9))) for _ in range(3)) for _ in range(nrand)]
    triples += [tuple(rng.uniform(-360, 360) for _ in range(3)) for _ in range(nrand)]

    if "iso" in parts:
        rows = exp["GCROW"]
        convs = []
        for s in edges:
            for b in ((False, True) if sels[s]["euler"] else (False,)):
                convs.append((s, b, None))
        for tr in triples[:3 if quick else 12]:
            convs.append((11, False, [float(t).hex() for t in tr]))
        for n, (s, b, ang) in enumerate(convs):
            es = sorted(ctx_eps(exp)) if not quick else sorted(ctx_eps(exp))[n % 2::2]
            if quick and s > 11:
                es = es[:1]                     # the option variants of eq2xyz / xyz2eq: one eps each in the quick tier
            common = {"sel": s, "name": sels[s]["name"], "si": selmap[str(s)], "src": sels[s]["src"], "b1950": b, "ang": ang,
                      "tol9": sels[s]["isotol9"]}
            for row in rows:
                p = gpts[row["i"] - 1]
                qs = [gpts[j - 1] for j in row["js"]]
                hasb = lambda q: any(t[1] for t in (p["lon"], p["lat"], q["lon"], q["lat"]))  # noqa
                for ne, e in enumerate(es):
                    sub = [q for q in qs if hasb(q) or ne == 0]
                    if sub:
                        jobs["iso"].append(dict(common, kind="iso", e=e, p=p, qs=sub))
            for row in exp["RSROW"]:
                i = row["i"]
                vs = [spts[i - 1 + k] for k in range(len(row["dots"]))]
                jobs["iso"].append(dict(common, kind="isor", u=spts[i - 1], vs=vs, dots=row["dots"], _row=i))

    if "anchor" in parts:
        for a in exp["ANCHOR"]:
            for dt in dts:
                jobs["anchor"].append({"kind": "anchor", "sel": a["sel"], "name": sels[a["sel"]]["name"], "a": a["a"], "dt": dt,
                                       "tol9": atol[dt], "reps": SHAPES + ("list", "npscalar") if dt == "f8" else ("array", "scalar")})

    if "rot" in parts:
        rtol = dict(zip(reps, info["rottolx"]))
        for n, c in enumerate(exp["CUBE"]):
            q = [c["phi"], c["theta"], c["psi"]]
            winds = [[0, 0, 0], [rng.choice((-1, 1)) for _ in range(3)]] + ([] if quick else [[-1, -1, -1], [1, 1, 1]])
            for w in winds:
                jobs["rot"].append({"kind": "cube", "q": q, "wind": w, "pts": spts, "tol9": info["rottol9"], "reps": ("array", "scalar")})
        # rotations ONTO the poles (integer-degree lattice): rotate(phi, theta, 0) takes (270 - phi, theta - 90) to latitude -90
        # and (90 - phi, 90 - theta) to +90 in the implemented convention - inputs only, nothing of this is demanded
        for phi in (0, 30):
            for th in range(1, 180):
                two = [{"k": "d", "lon": [(270 - phi) * 10 ** 6, 0], "lat": [(th - 90) * 10 ** 6, 0], "v": [0, 0, 0, 1]},
                       {"k": "d", "lon": [(90 - phi) * 10 ** 6, 0], "lat": [(90 - th) * 10 ** 6, 0], "v": [0, 0, 0, 1]}]
                for shape in ("array", "scalar", "int", "f4")[:2 if phi else 4]:
                    jobs["rot"].append({"kind": "rot", "ang": [float(phi).hex(), float(th).hex(), 0.0.hex()], "cands": info["invcands"],
                                        "tol9": rtol[shape], "pts": two, "shape": shape})
        pts = frame_points("eq")
        for nt, tr in enumerate(triples):
            ang = [float(x).hex() for x in tr]
            sub = pts if not quick else rng.sample(pts, 160)
            for t in range(0, len(sub), CHUNK):
                jobs["rot"].append({"kind": "rot", "ang": ang, "cands": info["invcands"], "tol9": rtol["array"], "pts": sub[t:t + CHUNK],
                                    "shape": "array"})
            for shape in reps:
                if shape != "array" and (shape == "scalar" or not quick or nt < 8):
                    jobs["rot"].append({"kind": "rot", "ang": ang, "cands": info["invcands"], "tol9": rtol[shape],
                                        "pts": sample("eq", shape, 12 if quick else 60), "shape": shape})

    if "shift" in parts:
        for row in exp["SHIFT"]:
            jobs["shift"].append({"kind": "shift", "u": row["u"], "F": 360 * row["u"], "lon": row["lon"], "ss": row["s"]})
        cases = []
        nreal = 400 if quick else 4000
        for n in range(nreal):
            style = n % 4
            if style == 0:
                lon, s = rng.uniform(0, 360), rng.uniform(-1000, 1000)
            elif style == 1:
                lon, s = rng.randrange(0, 3600) / 10.0, rng.randrange(-7200, 7200) / 10.0
            elif style == 2:
                lon, s = rng.randrange(0, 360000) / 1000.0, rng.choice((-1, 1)) * rng.choice((1e-9, 1e-3, 359.999, 360.001, 719.9, 1e5 + 0.1))
            else:
                lon, s = math.ldexp(rng.random(), rng.randrange(-30, 9)) % 360.0, math.ldexp(rng.random(), rng.randrange(-30, 12)) * rng.choice((-1, 1))
            if not 0.0 <= lon < 360.0:
                continue
            exact = (Fraction(lon) - Fraction(s)) % 360
            if exact < Fraction(1, 10 ** 6) or exact > 360 - Fraction(1, 10 ** 6):
                continue          # the exact result is within rounding of an end of [0, 360): the statement is read "to rounding" there
            for mode in ("shift", "shift_nowrap", "wrap", "none"):
                cases.append((float(lon).hex(), float(s).hex(), mode))
        for t in range(0, len(cases), 200):
            jobs["shift"].append({"kind": "shiftr", "cases": cases[t:t + 200]})

    if "xyz" in parts:
        xtol = dict(zip(dts, info["xyztol"]))
        for v in spts:
            for units in ("deg", "rad"):
                for dt in dts:
                    base = units == "deg" and dt == "f8"
                    jobs["xyz"].append({"kind": "xyz", "u": v, "units": units, "dt": dt, "tol9": xtol[dt],
                                        "reps": SHAPES + ("list", "npscalar", "swapped", "strided") if base else ("array", "scalar")})
    return jobs, dict(sels=sels, frames=frames, gpts=gpts, spts=spts, info=info, triples=triples)


def ctx_eps(exp):
    return exp["_eps"]


def add_thetas(jobs, spts):
    """exact angles of the rational-sphere rows, once per row (shared by all conversions)"""
    rows = {}
    for j in jobs:
        if j["kind"] == "isor" and j["_row"] not in rows:
            rows[j["_row"]] = (j["u"], j["vs"], j["dots"])
    keys = sorted(rows)
    res = pmap(_thetas_row, [rows[k] for k in keys])
    th = dict(zip(keys, res))
    for j in jobs:
        if j["kind"] == "isor":
            j["_thetas"] = th[j["_row"]]


def _thetas_row(arg):
    u, vs, dots = arg
    return [sl.exact_angle_deg(d, int(u[3]) * int(v[3])) for d, v in zip(dots, vs)]


def validate_kernel(exp, quick):
    """DESIGN 4.1: the longdouble chord kernel must reproduce SepGC and CosSep on the exported lattices"""
    gpts, spts = exp["GCPTS"][0]["pts"], exp["RSPTS"][0]["pts"]
    gc, rs = [], []
    for n, row in enumerate(exp["GCROW"]):
        p = gpts[row["i"] - 1]
        for m, (j, sep) in enumerate(zip(row["js"], row["seps"])):
            if quick and (n + m) % 5:
                continue
            q = gpts[j - 1]
            eps = sl.EPS[(n + m) % 4]
            gc.append(((sl.eangle(p["lon"], eps), sl.eangle(p["lat"], eps), sl.eangle(q["lon"], eps), sl.eangle(q["lat"], eps)),
                       sl.eangle(sep, eps)))
    for n, row in enumerate(exp["RSROW"]):
        i = row["i"]
        for k, dot in enumerate(row["dots"]):
            if (n + k) % (11 if quick else 3) == 0:
                rs.append((spts[i - 1], spts[i - 1 + k], dot, spts[i - 1][3] * spts[i - 1 + k][3]))
    return sl.validate_kernel(gc, rs)


def run(ctx):
    sl.self_validate()
    B = BOUNDS[ctx.tier]
    allparts = ("world", "scale", "eqn", "iso", "anchor", "rot", "shift", "xyz")
    parts = tuple(p for p in allparts if not getattr(ctx, "only", None) or p in ctx.only)
    consts = dict(B, FixedGE=True, DoExport=False, MemoKind="exact")
    # 1. the theorems of Frames.tla on the bounded model; the add-then-fold mechanism of shiftlon refines the specification
    r1 = ctx.tlc("FramesMC.tla", what="path equations, lattice / shift / cube / anchor theorems (exhaustive)",
                 cfg_text=cfg(constants=consts, invariants=MODEL_INVARIANTS), workers=16, require=MODEL_ACTIONS, timeout=3000)
    # 1b. the pinned `> 360` fold must violate ShiftRefines (non-vacuity of the mechanism model)
    small = dict(consts, ScaleSizes={1001}, GCA={0}, BMax=0, MerLons={0}, PoleLons={0}, EpsSet={1}, MaxD=1, MaxLen=1, LonStep8=80,
                 ShiftSet8={80}, FixedGE=False)
    r1b = ctx.tlc("FramesMC.tla", what="self-test: the pinned `> 360` fold violates ShiftRefines",
                  cfg_text=cfg(constants=small, invariants=["ShiftRefines"]), workers=1, allow_violation=True, coverage=False)
    if "ShiftRefines" not in r1b.violated:
        raise MachineryError("self-test failed: ShiftRefines not violated by the deviating mechanism")
    # 1c. the deviating world mechanisms (a memo keyed by six significant digits; a memo handing out its own storage)
    # must violate WorldFresh; no state between calls satisfies it like the exact memo does
    for mk, bad in (("g6", True), ("alias", True), ("none", False)):
        rw = ctx.tlc("FramesMC.tla", what="self-test: world mechanism %r %s WorldFresh" % (mk, "violates" if bad else "satisfies"),
                     cfg_text=cfg(constants=dict(small, FixedGE=True, MemoKind=mk), invariants=["WorldFresh"]), workers=1,
                     allow_violation=True, coverage=False)
        if ("WorldFresh" in rw.violated) != bad:
            raise MachineryError("self-test failed: world mechanism %s: WorldFresh violated = %s" % (mk, rw.violated))
    # 2. export (spec -> code)
    r2 = ctx.tlc("FramesMC.tla", what="export equations, points, rows, shifts, cube triples, anchors",
                 cfg_text=cfg(constants=dict(consts, DoExport=True), next_="NextExport", constraints=["Export"]),
                 workers=1, coverage=False, timeout=3000)
    exp = r2.records
    for tag in ("WORLD", "SEL", "EQN", "PTS", "OPT", "GCPTS", "RSPTS", "GCROW", "RSROW", "SHIFT", "CUBE", "ANCHOR"):
        if not exp.get(tag):
            raise MachineryError("nothing exported for %s" % tag)
    if len(exp["PTS"]) != 7 or len(exp["EQN"]) < 100 or len(exp["ANCHOR"]) < 48 or len(exp["CUBE"]) != 64 or len(exp["OPT"]) != 27:
        raise MachineryError("export incomplete: %s" % {k: len(v) for k, v in exp.items()})
    exp["_eps"] = sorted(B["EpsSet"])
    nk, worst = validate_kernel(exp, ctx.quick)
    ctx.log("chord kernel validated on %d lattice pairs (worst deviation %.2g deg)" % (nk, worst))
    jobs, env = build_jobs(ctx, exp, parts)
    if "iso" in parts:
        add_thetas(jobs["iso"], env["spts"])
    # 2b. evaluate (fork-parallel) and let TLC judge (code -> spec), in batches of bounded size
    def est(j):
        if j["kind"] == "scale":
            return 50
        return len((j.get("pts") if j["kind"] != "cube" else None) or j.get("qs") or j.get("vs") or j.get("cases") or j.get("ss") or [0]) + 2
    flat = []
    for part in parts:
        if not jobs[part]:
            raise MachineryError("no jobs for part %s" % part)
        ctx.log("%s: %d call groups" % (part, len(jobs[part])))
        flat += jobs[part]
    BATCH = 450000
    total_rej, sigs, sampled = 0, {}, set()
    probe, expect_bad, seen = [], set(), set()
    t = 0
    while t < len(flat):
        u, n = t, 0
        while u < len(flat) and (n == 0 or n + est(flat[u]) <= BATCH):
            n += est(flat[u])
            u += 1
        js = flat[t:u]
        t = u
        recs = pmap(eval_job, js, chunk=max(1, min(40, len(js) // 64)))
        nobs = sum(r["nobs"] for r in recs)
        ctx.count(None, n=nobs)
        for r in recs:
            if r["c"]["kind"] not in sampled and len(sampled) < 6:
                sampled.add(r["c"]["kind"])
                ctx.sample({"case": r["c"], "observations": r["obs"][:2]})
        rej, em = judge(ctx, js, recs, "judge %d records, %d observations (FramesTrace)" % (len(recs), nobs))
        total_rej += len(rej)
        for k, v in em.items():
            sigs[k] = sigs.get(k, 0) + v
        # 3. binding self-test material: one accepted observation of every kind and its corrupted twin
        for r in recs:
            kind = r["c"]["kind"]
            if kind in seen or r["id"] in rej:
                continue
            seen.add(kind)
            probe.append({"id": len(probe) + 1, "c": r["c"], "obs": [r["obs"][0]]})
            probe.append({"id": len(probe) + 1, "c": r["c"], "obs": [corrupt(kind, r["obs"][0])]})
            expect_bad.add(len(probe))
        del recs
    if probe:
        saved = ctx.traces
        prej = tracecheck.validate(ctx, "FramesTrace.tla", probe, what="self-test: corrupted records rejected", workers=1)
        ctx.traces = saved
        if set(prej) != expect_bad:
            raise MachineryError("binding self-test failed: rejected %s, expected %s" % (sorted(prej), sorted(expect_bad)))
    else:
        ctx.log("binding self-test skipped: no accepted record on this tree")
    ctx.rule = ("every path equation derived by FramesMC.tla (%d composable paths of length 2..%d with a canonical form) x every "
                "exported input point of its source frame (great-circle lattice positions %s deg x eps multiples -%d..%d x eps in "
                "{1e-12,1e-9,1e-6,1e-3} deg on the equator and the meridians %s, lon 0 and 360, poles at lon %s, documented "
                "poles/nodes/SDSS centre with eps neighbourhoods, rational sphere d<=%d) x {J2000,B1950} as array calls (and "
                "scalar / length-1 calls: %s); isometry of each of the 10 conversions (+ rotate) on every lattice pair with an "
                "exact separation; %d anchor facts; rotate at all 64 quarter-turn triples (+-360), %d generic triples and onto both "
                "poles for theta = 1..179 deg; "
                "shiftlon/shiftra on every exported (lon, shift, mode) of two dyadic lattices + seeded generic doubles; eq2xyz on "
                "the rational sphere; every session of <= %d steps over %d calls (rotate at 14 Euler triples with twins in the 7th-9th "
                "digit, with / without undoing; every conversion x epoch; randcap(dorot=True) at twin declinations; results scribbled over: %s) run in one fresh process, every call "
                "against the same call in another fresh process.  A case is distinct by (equation or conversion, epoch, point or pair, call shape)." %
                (len(exp["EQN"]), B["MaxLen"], sorted(B["GCA"]), B["BMax"], B["BMax"], sorted(B["MerLons"]), sorted(B["PoleLons"]),
                 B["MaxD"], "a seeded eighth of the points" if ctx.quick else "all points", len(exp["ANCHOR"]), len(env["triples"]),
                 B["WorldLen"], 52, sorted(B["WorldScr"])))
    ctx.exhaustive = True
    ctx.note(bounds={k: sorted(v) if isinstance(v, set) else v for k, v in B.items()}, parts=list(parts),
             path_equations=len(exp["EQN"]), points_per_frame={k: len(v) + len(env["spts"]) for k, v in env["frames"].items()},
             rejected_records=total_rej, failing_observations_by_signature=sigs, kernel_pairs=nk, kernel_worst_deg=worst,
             tolerances={"euler/rotate": "1e-5 deg per conversion pair", "sdss/xyz": "1e-9 deg per conversion pair",
                         "unit_length": "4*2^-52", "shift": "exact on the dyadic lattices, 4 ulp elsewhere"})
    ctx.trusted_base += ["longdouble chord kernel of vh.spherelat (validated on every run against SepGC / CosSep to 1e-13 deg)",
                         "fractions.Fraction / decimal (60 digits) arithmetic of vh.spherelat (self-validated per run)",
                         "float(Fraction) correctly rounded; longdouble atan2 / sin / cos for rational-sphere and xyz inputs"]
    ctx.assumptions = ["an equation between n conversions is allowed (n-1) x the stated per-pair tolerance (1e-5 deg, or 1e-9 deg "
                       "when only SDSS / unit-vector conversions take part)",
                       "'its inverse' for rotate(phi,theta,psi) is rotate(psi,-theta,phi) or rotate(-psi,-theta,-phi) (either accepted)",
                       "longitude ranges are judged only where documented (eta of eq2sdss in [-180,180]); latitudes in [-90,90]",
                       "agreement with the documented rotation is decided through the anchors and the isometry, not entry by entry "
                       "(no sin/cos in TLA+); B1950 has no documented constants: no anchors, all other clauses",
                       "shiftlon inputs are in the documented domain [0,360); generic-double cases whose exact result is within "
                       "1e-6 deg of an interval end are skipped (statement read to rounding there)"]


def corrupt(kind, o):
    bad = dict(o)
    if kind == "eqn":
        bad["d9"] = CAP
    elif kind == "iso":
        bad["a"] = bad["a"] + 1
        bad["on"] = True
    elif kind == "isor":
        bad["dn"], bad["dd"], bad["on"] = bad["dn"] + 1, max(bad["dd"], 1), True
    elif kind == "anchor":
        bad["d9"] = CAP
    elif kind == "cube":
        bad["imgs"] = [list(v) for v in bad["imgs"]]
        bad["imgs"][-1] = [-t for t in bad["imgs"][-1][:3]] + [bad["imgs"][-1][3]]
    elif kind == "rot":
        bad["ds"] = [CAP for _ in bad["ds"]]
    elif kind == "shift":
        bad["v"] = bad["v"] + 1
    elif kind == "shiftr":
        bad["on"] = False
    elif kind == "world":
        bad["dw"] = CAP
    elif kind == "scale":
        bad["len"] = bad["len"] + 1
    elif kind == "xyz":
        bad["img"] = [bad["img"][1], bad["img"][0], bad["img"][2] + 1, bad["img"][3]]
    return bad


def replay(ctx, case):
    sl.self_validate()
    job = case["job"]
    rec = eval_job(job)
    rec["id"] = 1
    k = case.get("k")
    o = next((t for t in rec["obs"] if t["k"] == k), None)
    print("replay observed: case=%s observation=%s meta=%s" % (jsonable(rec["c"]) if job["kind"] != "cube" else job["q"],
                                                             jsonable(o), jsonable(rec["meta"].get(k))))
    rej = tracecheck.validate(ctx, "FramesTrace.tla", [{"id": 1, "c": rec["c"], "obs": rec["obs"]}], what="replay", workers=1)
    for cl, kk in rej.get(1, []):
        if cl == "malformed_case":
            raise MachineryError("FramesTrace rejected the replayed case as malformed")
        if job["kind"] in ("shift", "shiftr"):
            m = rec["meta"][kk]
            if [m["mode"], m["s"], m.get("case", 0)] != case.get("call"):
                continue
        elif kk != k:
            continue
        fam, clg, cls = raw_sig(job, rec["meta"], cl, kk)
        sig = case["sig"] if cl == case.get("clause") else "%s|%s|%s" % ("+".join(fam), clg, cls)
        ctx.violation(sig, "clause %s of FramesTrace.tla on replay: %s" % (cl, describe(job, rec, kk, cl)), case)
