"""C10 - WCS pixel-to-sky matches the FITS convention and sky-to-pixel inverts it.

spec -> code : WcsMC.tla enumerates (a) every header of the bounded space x pixel and computes the exact
               World = pixel of the class's pure-TAN representative, (b) reference-pixel and gnomonic
               anchor cases on the great-circle lattice with the allowed sky points, (c) every call
               sequence of the history machine.  Each is concretised (wcslat) and run on the real WCS.
code -> spec : what the real code returned - projected onto the spec's exact values - plus seeded
               larger cases (TLC evaluates World for them first), realistic-header round trips,
               scalar-vs-array comparisons and the replayed histories are judged by WcsTrace.tla.
Python never decides a clause: it maps abstract <-> concrete, compares two implementation outputs with
each other (class mates, scalar vs array, used vs fresh object) and records.

Tolerance budget of the anchors: the pixel offset R/u with R = sqrt(TanSq) * 180/pi is irrational; the
harness uses the correctly rounded double R (relative error 2^-53), scales by a power of two (exact) and
adds CRPIX (<= 1 ulp of a number below 2^20 pixel = 1.2e-10 pixel = 1.7e-14 degree at the coarsest
scale).  d(theta)/dR <= 1, so the expected point moves by < 3e-14 degree: five orders below 1e-9.
"""
import random
import warnings
from fractions import Fraction as Fr

import numpy as np

from .. import tracecheck
from .. import wcslat as L
from ..core import MachineryError
from ..par import pmap
from ..tlc import cfg

NEEDS_EXT = True      # wcsutil.py is pure python, but `import esutil` needs the compiled sub-packages (build is cached)

CALLS6 = {"i2s_d", "i2s_n", "s2i_dr", "s2i_dp", "s2i_np", "jac"}
CALLS7 = CALLS6 | {"s2i_nr"}
# the documented options as part of the call: loose / tight xtol, jacobian step / distort, and a call rejected half-way
OPT_CALLS = {"i2s_d", "s2i_dr", "s2i_dr_xl", "s2i_dr_xt", "s2i_dp", "jac", "jac_h", "jac_n", "s2i_fail"}
ALL_CALLS = CALLS7 | OPT_CALLS
XTOL = {"xl": 1e-3, "xt": 1e-11}
_ALL = {"TAN", "TPV", "TANPV", "SIP"}
BOUNDS = {
    "quick": dict(Projs=_ALL, CDIds={1, 2, 5, 9}, PixIds={1, 2, 6}, CrpixIds={2}, MaxExtra=1, SipMaxOrder=3,
                  SkyCDIds={1, 5, 7}, SkyLons={0, 10, 350}, SkyLats={0, 1, 60, 90, 140, 150, 180},
                  RefCDIds={5}, RefLonIds=set(range(1, 10)), RefLatIds=set(range(1, 9)),
                  HistCalls=CALLS6, MaxHist=4, ShortKinds={"TAN", "SIP"}, HistArgModes={"scalar", "buffer"},
                  WorldCalls={"s2i_dr", "s2i_dp"}, WorldLen=3, WorldRelIds={1, 2, 3, 4}, WorldKinds={"TPV", "SIP"},
                  ReprCalls={"i2s_d", "s2i_dr", "s2i_dp", "s2i_np", "jac"}, ReprKinds={"TAN", "TPV", "SIP"},
                  AngCDIds={9}, AngPixIds={6}),
    "thorough": dict(Projs=_ALL, CDIds={1, 2, 5, 7, 9, 12}, PixIds=set(range(1, 6)), CrpixIds={1, 2}, MaxExtra=1, SipMaxOrder=4,
                     SkyCDIds=set(range(1, 9)), SkyLons={0, 10, 90, 180, 270, 350, 359},
                     SkyLats={0, 1, 30, 45, 60, 90, 120, 135, 140, 150, 175, 180},
                     RefCDIds={1, 5, 9}, RefLonIds=set(range(1, 10)), RefLatIds=set(range(1, 9)),
                     HistCalls=CALLS7, MaxHist=4, ShortKinds=set(), HistArgModes={"scalar", "buffer"},
                     WorldCalls={"s2i_dr", "s2i_dp", "jac"}, WorldLen=3, WorldRelIds=set(range(1, 9)), WorldKinds={"TPV", "SIP"},
                     ReprCalls=CALLS7, ReprKinds={"TAN", "TPV", "SIP"}, AngCDIds={5, 9}, AngPixIds={1, 6}),
}
# thorough, second class run: pairs of coefficients on a smaller pixel / CD product
PAIRS = dict(CDIds={2, 5, 9, 12}, PixIds={1, 3, 6}, CrpixIds={2}, MaxExtra=2, SipMaxOrder=3, OrdVariety=False)
FIXED = dict(Repaired=True, PVMapVariant="pinned", HistVariant="pinned", PolyVariant="pinned", OrdVariety=True, DoExport=False,
             HistKinds={"TAN", "TPV", "SIP"}, WorldVariant="pinned",
             AngVariant="pinned", HistAngs={"default"}, LifeCalls=set(), LifeVariant="pinned")
# third history run: life-cycle steps (copy / deepcopy / pickle round trip; the caller goes on with the copy) x where the
# object got its projection angles (default | header cards | constructor keywords)
LIFE_OPS = {"copy", "deepcopy", "pickle"}
ANG_PLACES = {"default", "header", "keyword"}
LIFE_HIST = {"quick": dict(HistCalls={"i2s_d", "s2i_dr", "s2i_dp"}, LifeCalls=LIFE_OPS, HistAngs=ANG_PLACES, MaxHist=3, ShortKinds=set(),
                           HistArgModes={"scalar"}),
             "thorough": dict(HistCalls={"i2s_d", "s2i_dr", "s2i_dp"}, LifeCalls=LIFE_OPS, HistAngs=ANG_PLACES, MaxHist=4, ShortKinds=set(),
                              HistArgModes={"scalar"})}
# the angles of the history objects (not on the lattice: every result is compared with a fresh object constructed the same way)
HIST_ANGLES = dict(longpole=150.0, latpole=60.0, theta0=90.0)
# second history run: the option calls (one call shorter); long random histories by tlc -simulate
OPT_HIST = {"quick": dict(HistCalls=OPT_CALLS - {"i2s_d", "jac_n"}, MaxHist=3, ShortKinds={"TAN", "SIP"}, HistArgModes={"scalar"}),
            "thorough": dict(HistCalls=OPT_CALLS, MaxHist=4, ShortKinds={"TAN", "SIP"}, HistArgModes={"scalar"})}
DEEP = {"quick": dict(num=40, depth=16), "thorough": dict(num=400, depth=30)}


def _consts(tier, **over):
    c = dict(BOUNDS[tier])
    c.update(FIXED)
    c.update(over)
    return c


def _wcs():
    from esutil import wcsutil
    return wcsutil


def _quiet():
    cm = warnings.catch_warnings()
    cm.__enter__()
    warnings.simplefilter("ignore")
    return cm


# =====================================================================================================
# observations (each returns the record handed to WcsTrace.tla plus concrete details for the replay file)
# =====================================================================================================
def obs_class(args):
    rid, c, k = args
    W = _wcs().WCS
    s, crval, base, pv3 = L.concretisation(k)
    try:
        hdr = L.make_header(c["h"], s, crval, base, pv3)
        x, y = L.pixel(c["h"], c["pix"], base)
        rhdr = L.make_header(L.TAN_REP, s, crval)
        rx, ry = L.pixel(L.TAN_REP, c["rep"])
    except L.LatticeError as e:
        raise MachineryError("class case off the lattice: %s (%s)" % (e, c))
    o = {"err": "none", "rel": "off"}
    x_ = {"stage": "", "k": k}
    cm = _quiet()
    try:
        with np.errstate(all="ignore"):
            stage = "construct"
            try:
                w = W(hdr)
                stage = "call"
                sky = w.image2sky(x, y, distort=c["distort"])
            except Exception as e:  # noqa
                o["err"] = type(e).__name__
                x_["stage"] = stage
                x_["msg"] = str(e)[:120]
                return {"id": rid, "kind": "class", "c": c, "o": o, "x": x_}
            try:
                rsky = W(rhdr).image2sky(rx, ry)
            except Exception as e:  # noqa
                o["err"] = "TANREP_" + type(e).__name__
                x_["stage"] = "representative"
                return {"id": rid, "kind": "class", "c": c, "o": o, "x": x_}
    finally:
        cm.__exit__(None, None, None)
    o["rel"] = L.sky_rel(sky, rsky)
    x_.update(sky=[float(sky[0]), float(sky[1])], rep_sky=[float(rsky[0]), float(rsky[1])])
    return {"id": rid, "kind": "class", "c": c, "o": o, "x": x_}


def ang_construct(W, hdr, ang):
    """the constructor call for the angle record [place, lp, latp] of Wcs.tla"""
    lp, latp = float(ang["lp"]), float(ang["latp"])
    if ang["place"] == "header":
        return W(dict(hdr, longpole=lp, latpole=latp, theta0=90.0))
    if ang["place"] == "keyword":
        return W(hdr, longpole=lp, latpole=latp, theta0=90.0)
    return W(hdr)


def obs_angclass(args):
    """a header with projection angles given as cards / constructor keywords against the pure-TAN member (default angles)
    of the class TLC computed: World rotated by LonpoleRot"""
    rid, c, k = args
    W = _wcs().WCS
    s, crval, base, pv3 = L.concretisation(k)
    try:
        hdr = L.make_header(c["h"], s, crval, base, pv3)
        x, y = L.pixel(c["h"], c["pix"], base)
        rhdr = L.make_header(L.TAN_REP, s, crval)
        rx, ry = L.pixel(L.TAN_REP, c["rep"])
    except L.LatticeError as e:
        raise MachineryError("angle class case off the lattice: %s (%s)" % (e, c))
    o = {"err": "none", "rel": "off"}
    x_ = {"stage": "", "k": k}
    cm = _quiet()
    try:
        with np.errstate(all="ignore"):
            stage = "construct"
            try:
                w = ang_construct(W, hdr, c["ang"])
                stage = "call"
                sky = w.image2sky(x, y, distort=c["distort"])
                sky2 = w.image2sky(np.array([x, x]), np.array([y, y]), distort=c["distort"])
            except Exception as e:  # noqa
                o["err"] = type(e).__name__
                x_["stage"] = stage
                x_["msg"] = str(e)[:120]
                return {"id": rid, "kind": "angclass", "c": c, "o": o, "x": x_}
            try:
                rsky = W(rhdr).image2sky(rx, ry)
            except Exception as e:  # noqa
                raise MachineryError("pure-TAN representative failed: %r" % e)
    finally:
        cm.__exit__(None, None, None)
    rels = [L.sky_rel(sky, rsky), L.sky_rel((sky2[0][1], sky2[1][1]), rsky)]
    o["rel"] = "off" if "off" in rels else "close" if "close" in rels else "same"
    x_.update(sky=[float(sky[0]), float(sky[1])], rep_sky=[float(rsky[0]), float(rsky[1])])
    return {"id": rid, "kind": "angclass", "c": c, "o": o, "x": x_}


def _sky_obs(skies, allowed, lonfree_ok=True):
    """project observed (lon, lat) pairs (all must agree) onto one of the allowed exact points
    [(lon Fraction, lat Fraction, lattice lon pair, lattice lat pair)]"""
    o = {"err": "none", "on": False, "lon": [0, 0], "lat": [0, 0], "inrange": all(L.in_range(s[0]) for s in skies)}
    dev = None
    for lon_e, lat_e, plon, plat in allowed:
        seps = [L.sep_deg(s[0], s[1], lon_e, lat_e) if L.finite(s) else float("inf") for s in skies]
        worst = max(seps)
        dev = worst if dev is None else min(dev, worst)
        if worst != float("inf") and Fr(worst) <= L.TOL_DEG:
            o.update(on=True, lon=list(plon), lat=list(plat))
            break
    return o, dev


def obs_anchor(args):
    rid, c, k = args
    W = _wcs().WCS
    s = L.SCALES[k % len(L.SCALES)]
    base = L.CRPIX_BASE[(k // len(L.SCALES)) % len(L.CRPIX_BASE)]
    h = dict(L.TAN_REP, cd=c["cd"])
    hdr = L.make_header(h, s, (float(c["crval"][0]), float(c["crval"][1])), base)
    p = L.gnomonic_radius_deg(c["tansq"]) * 2.0 ** s
    x = hdr["crpix1"] + c["pixdir"][0] * p
    y = hdr["crpix2"] + c["pixdir"][1] * p
    cc = {kk: c[kk] for kk in ("crval", "dir", "theta", "cd", "pixdir")}
    x_ = {"k": k}
    cm = _quiet()
    try:
        with np.errstate(all="ignore"):
            w = W(hdr)
            s1 = w.image2sky(x, y)
            s2 = w.image2sky(np.array([x]), np.array([y]))
            skies = [(s1[0], s1[1]), (s2[0][0], s2[1][0])]
    except Exception as e:  # noqa
        return {"id": rid, "kind": "anchor", "c": cc, "o": {"err": type(e).__name__, "on": False, "lon": [0, 0], "lat": [0, 0], "inrange": False}, "x": x_}
    finally:
        cm.__exit__(None, None, None)
    allowed = [(Fr(pt[0]), Fr(pt[1]), (pt[0], 0), (pt[1], 0)) for pt in c["allowed"]]
    o, dev = _sky_obs(skies, allowed)
    x_.update(sky=[float(v) for v in skies[0]], sky_array=[float(v) for v in skies[1]], dev_deg=dev)
    return {"id": rid, "kind": "anchor", "c": cc, "o": o, "x": x_}


def obs_refpix(args):
    rid, c, k = args
    W = _wcs().WCS
    s, _, base, pv3 = L.concretisation(k)
    eps = L.EPS[(k // 11) % len(L.EPS)]
    lon = float(L.lattice_angle(c["crval"][0], eps))
    lat = float(L.lattice_angle(c["crval"][1], eps))
    hdr = L.make_header(c["h"], s, (lon, lat), base, pv3)
    x, y = hdr["crpix1"], hdr["crpix2"]
    cc = {"h": c["h"], "crval": c["crval"]}
    x_ = {"k": k, "crval": [lon, lat], "stage": "construct"}
    cm = _quiet()
    try:
        with np.errstate(all="ignore"):
            w = W(hdr)
            x_["stage"] = "call"
            s1 = w.image2sky(x, y)
            s2 = w.image2sky(np.array([x, x]), np.array([y, y]))
            skies = [(s1[0], s1[1]), (s2[0][1], s2[1][1])]
    except Exception as e:  # noqa
        x_["msg"] = str(e)[:120]
        return {"id": rid, "kind": "refpix", "c": cc, "o": {"err": type(e).__name__, "on": False, "lon": [0, 0], "lat": [0, 0], "inrange": False}, "x": x_}
    finally:
        cm.__exit__(None, None, None)
    # the reference sky position is the header's CRVAL (the doubles handed over), longitude taken into [0, 360)
    lon_e = Fr(lon) % 360
    o, dev = _sky_obs(skies, [(lon_e, Fr(lat), c["exp"][0], c["exp"][1])])
    x_.update(sky=[float(v) for v in skies[0]], sky_array=[float(v) for v in skies[1]], dev_deg=dev)
    return {"id": rid, "kind": "refpix", "c": cc, "o": o, "x": x_}


# ---- round trips on realistic headers ------------------------------------------------------------------
POLAR = [90.0, -90.0, 90 - 1e-3, -(90 - 1e-3), 90 - 0.02, -(90 - 0.02), 89.9999, -89.9999]


def roundtrip_plan(seed, n_general, n_polar):
    """[(kind, header seed, polar index or -1)] - deterministic in the seed"""
    rng = random.Random(seed * 7919 + 11)
    plan = []
    for i in range(n_general):
        plan.append((["TAN", "TPV", "TANPV", "SIP"][i % 4], rng.randrange(2 ** 30), -1))
    for i in range(n_polar):
        plan.append((["TPV", "SIP", "TANPV", "TAN"][i % 4], rng.randrange(2 ** 30), i % len(POLAR)))
    return plan


def roundtrip_header(kind, hseed, polar):
    rng = random.Random(hseed)
    invkeys = hseed % 3 != 0          # a third of the SIP headers come without the optional AP_ORDER / BP_ORDER keywords
    if polar >= 0:
        nx, ny = L.NAXIS
        hdr = L.realistic_header(rng, kind, crval=(rng.choice([0.0, 359.9999999, rng.uniform(0, 360)]), POLAR[polar]),
                                 crpix=(rng.uniform(1, nx), rng.uniform(1, ny)), invkeys=invkeys)
        px = L.image_pixels(rng, hdr, extra=1)
        px.append((hdr["crpix1"], hdr["crpix2"]))
        for _ in range(3):
            px.append((hdr["crpix1"] + rng.uniform(-40, 40), hdr["crpix2"] + rng.uniform(-40, 40)))
    else:
        hdr = L.realistic_header(rng, kind, invkeys=invkeys)
        px = L.image_pixels(rng, hdr, extra=2)
    return hdr, px


def _dev_pix(x, y, xb, yb):
    if not L.finite(xb, yb):
        return "nonfinite", None
    d = max(abs(Fr(float(xb)) - Fr(x)), abs(Fr(float(yb)) - Fr(y)))
    return ("within" if d <= L.TOL_PIX else "off"), float(d)


def roundtrip_one(W, hdr, kind, x, y, distort, find, objs=None):
    """image2sky then sky2image with the same flags.  One object per (header, distort, find) when objs is given
    (the lazy inverse fit is then paid once per header); a fresh object otherwise (replay)."""
    c = {"find": find, "distort": distort, "distorted": kind != "TAN", "hk": kind, "region": "general"}
    o = {"err": "none", "dev": "off"}
    x_ = {"hdr": hdr, "pix": [x, y], "stage": ""}
    cm = _quiet()
    try:
        with np.errstate(all="ignore"):
            stage = "construct"
            try:
                if objs is not None and (distort, find) in objs:
                    w = objs[(distort, find)]
                else:
                    w = W(hdr)
                    if objs is not None:
                        objs[(distort, find)] = w
                stage = "image2sky"
                lon, lat = w.image2sky(x, y, distort=distort)
                if L.finite(lat) and 90 - abs(float(lat)) < 0.1:
                    c["region"] = "polar_cap"
                stage = "sky2image"
                xb, yb = w.sky2image(lon, lat, distort=distort, find=find)
            except Exception as e:  # noqa
                o["err"] = type(e).__name__
                x_["stage"] = stage
                x_["msg"] = str(e)[:120]
                return c, o, x_
    finally:
        cm.__exit__(None, None, None)
    o["dev"], x_["dev_pix"] = _dev_pix(x, y, xb, yb)
    x_["sky"] = [float(lon), float(lat)]
    return c, o, x_


def obs_roundtrip(args):
    rid0, (kind, hseed, polar) = args
    W = _wcs().WCS
    hdr, px = roundtrip_header(kind, hseed, polar)
    out = []
    objs = {}
    for (x, y) in px:
        for distort in (True, False):
            for find in (True, False):
                c, o, x_ = roundtrip_one(W, hdr, kind, x, y, distort, find, objs)
                x_["plan"] = [kind, hseed, polar]
                out.append({"id": rid0 + len(out), "kind": "roundtrip", "c": c, "o": o, "x": x_})
    return out


# directed polar set (independent of the seed): the celestial pole inside the image, pixels on a grid around it
POLAR_D = [90.0, -90.0, 89.99, -89.999]
POLAR_GRID = [(dx + 0.25, dy - 0.125) for dx in (-300, -100, -30, -10, -3, -1, 0, 1, 3, 10, 30, 100, 300)
              for dy in (-300, -30, -3, 0, 3, 30, 300)]


def polar_header(hs, d0):
    rng = random.Random(hs)
    kind = ["TPV", "SIP", "TANPV"][hs % 3]
    return kind, L.realistic_header(rng, kind, crval=(rng.uniform(0, 360), d0), crpix=(1024.5, 2048.5))


def obs_polar(args):
    rid0, (hs, d0) = args
    W = _wcs().WCS
    kind, hdr = polar_header(hs, d0)
    out = []
    objs = {}
    for (dx, dy) in POLAR_GRID:
        c, o, x_ = roundtrip_one(W, hdr, kind, 1024.5 + dx, 2048.5 + dy, True, True, objs)
        x_["plan"] = ["polar", hs, d0]
        out.append({"id": rid0 + len(out), "kind": "roundtrip", "c": c, "o": o, "x": x_})
    return out


# ---- scalar vs array ----------------------------------------------------------------------------------------
SA_CALLS = ("i2s", "s2i_r", "s2i_p", "jac")


def _jac_rel(a, b):
    if not L.finite(a, b):
        return "off"
    fa, fb = [float(v) for v in a], [float(v) for v in b]
    if fa == fb:
        return "same"
    return "close" if all(abs(p - q) <= 1e-5 * max(1.0, abs(q)) for p, q in zip(fa, fb)) else "off"


def _sa_call(w, call, a, b):
    if call == "i2s":
        return w.image2sky(a, b)
    if call == "s2i_r":
        return w.sky2image(a, b, find=True)
    if call == "s2i_p":
        return w.sky2image(a, b, find=False)
    return w.get_jacobian(a, b)


def sa_inputs(hdr, hseed, call, dtype):
    rng = random.Random(hseed + 5)
    W = _wcs().WCS
    if dtype == "i8":
        if call in ("i2s", "jac"):
            pts = [(rng.randrange(1, L.NAXIS[0]), rng.randrange(1, L.NAXIS[1])) for _ in range(3)]
        else:   # integer sky coordinates: the header's reference point sits a few pixels off an integer position
            pts = [(int(round(hdr["crval1"])) % 360, int(round(hdr["crval2"])))] * 2
        return pts
    pix = L.image_pixels(rng, hdr, extra=1)[2:]
    if call in ("i2s", "jac"):
        return pix
    w = W(hdr)
    return [tuple(float(v) for v in w.image2sky(x, y)) for x, y in pix]


def sa_header(kind, hseed, dtype):
    rng = random.Random(hseed)
    if dtype == "i8":
        a0 = rng.choice([0, 10, 359, 123])
        d0 = rng.choice([0, 20, -57, 75])
        return L.realistic_header(rng, kind, crval=(a0 + rng.uniform(-2e-3, 2e-3), d0 + rng.uniform(-2e-3, 2e-3)),
                                  crpix=(rng.uniform(600, 1400), rng.uniform(1000, 3000)))
    return L.realistic_header(rng, kind)


def obs_scalar(args):
    rid, (kind, hseed, call, dtype) = args
    W = _wcs().WCS
    hdr = sa_header(kind, hseed, dtype)
    c = {"call": call, "dtype": dtype, "hk": kind, "distorted": kind != "TAN"}
    o = {"err": "none", "rel": []}
    x_ = {"plan": [kind, hseed, call, dtype], "stage": ""}
    cm = _quiet()
    try:
        with np.errstate(all="ignore"):
            try:
                pts = sa_inputs(hdr, hseed, call, dtype)
                x_["n"] = len(pts)
                w = W(hdr)
                x_["stage"] = "scalar"
                sc = [_sa_call(w, call, a, b) for a, b in pts]
                x_["stage"] = "array"
                npdt = "i8" if dtype == "i8" else "f8"
                aa, bb = np.array([p[0] for p in pts], dtype=npdt), np.array([p[1] for p in pts], dtype=npdt)
                before = (aa.tobytes(), bb.tobytes())
                ar = _sa_call(W(hdr), call, aa, bb)
                x_["frame_ok"] = before == (aa.tobytes(), bb.tobytes())
            except Exception as e:  # noqa
                o["err"] = type(e).__name__
                x_["msg"] = str(e)[:120]
                return {"id": rid, "kind": "scalar", "c": c, "o": o, "x": x_}
    finally:
        cm.__exit__(None, None, None)
    for i, s in enumerate(sc):
        el = tuple(np.asarray(v)[i] for v in ar)
        rel = L.sky_rel(el, s) if call == "i2s" else _jac_rel(el, s) if call == "jac" else L.pix_rel(el, s)
        o["rel"].append(rel)
    x_["scalar"] = [[float(v) for v in s] for s in sc]
    x_["array"] = [[float(np.asarray(v)[i]) for v in ar] for i in range(len(sc))]
    return {"id": rid, "kind": "scalar", "c": c, "o": o, "x": x_}


# ---- call histories ---------------------------------------------------------------------------------------------
# the arguments depend on the position in the sequence (four different pixels / sky targets), so that a
# buffer left behind by an earlier call (root-finder target, first guess, a cached result) is observable
HIST_PIX = [(700.25, 1800.5), (1500.5, 300.25), (12.0, 4000.75), (2040.5, 2048.0)]
HIST_SKYPIX = [(1500.5, 300.25), (100.25, 3900.5), (1900.0, 77.5), (1024.5, 2049.5)]
HIST_CRVALS = [(10.25, 20.5), (359.9999999, -45.0), (123.0, 89.9)]


def hist_header(hk, hidx, rel="base"):
    """rel: the header of another object related to the base one - "same": identical; "cutout": the same coefficients,
    CRPIX shifted and NAXIS 128 x 128 (a postage stamp of the same exposure); "cd": CD rotated by 90 degrees and
    halved; "crval": another reference point"""
    rng = random.Random(1000 * hidx + {"TAN": 1, "TPV": 2, "SIP": 3}[hk])
    hdr = L.realistic_header(rng, hk, crval=HIST_CRVALS[hidx % len(HIST_CRVALS)], crpix=(1000.5 + 37 * hidx, 2100.25))
    if rel in ("base", "same"):
        return hdr
    hdr = dict(hdr)
    if rel == "cutout":
        hdr.update(naxis1=128, naxis2=128, crpix1=hdr["crpix1"] - 940.0, crpix2=hdr["crpix2"] - 2030.0)
    elif rel == "cd":
        hdr.update(cd1_1=-0.5 * hdr["cd2_1"], cd1_2=-0.5 * hdr["cd2_2"], cd2_1=0.5 * hdr["cd1_1"], cd2_2=0.5 * hdr["cd1_2"])
    elif rel == "crval":
        hdr.update(crval1=(hdr["crval1"] + 5.0) % 360.0, crval2=max(-89.0, hdr["crval2"] - 3.0))
    else:
        raise MachineryError("unknown header relation %s" % rel)
    return hdr


def _in_image(hdr, pix):
    """the position of the sequence scaled into the image of this header"""
    nx, ny = hdr["naxis1"], hdr["naxis2"]
    return (1.0 + (pix[0] - 1.0) * (nx - 1) / (L.NAXIS[0] - 1), 1.0 + (pix[1] - 1.0) * (ny - 1) / (L.NAXIS[1] - 1))


_MODCODE = {}


def reset_world():
    """fresh process state as far as wcsutil is concerned: the module is executed again (module-level variables,
    caches and memoised functions start empty; objects made earlier keep working on the re-initialised module)"""
    mod = _wcs()
    if _MODCODE.get("file") != mod.__file__:
        with open(mod.__file__) as f:
            _MODCODE.update(file=mod.__file__, code=compile(f.read(), mod.__file__, "exec"))
    exec(_MODCODE["code"], mod.__dict__)       # what importlib.reload does, without compiling the source every time


def _hist_call(w, call, a, b):
    """a, b: the pixel (image2sky, get_jacobian) or the sky position (sky2image) - scalars or arrays"""
    if call == "i2s_d":
        return w.image2sky(a, b, distort=True)
    if call == "i2s_n":
        return w.image2sky(a, b, distort=False)
    if call == "jac":
        return w.get_jacobian(a, b)
    if call == "jac_h":
        return w.get_jacobian(a, b, step=0.5)
    if call == "jac_n":
        return w.get_jacobian(a, b, distort=False)
    if call == "s2i_fail":       # rejected half-way: arrays of unequal length (the first element is processed first)
        a0, b0 = float(np.ravel(a)[0]), float(np.ravel(b)[0])
        return w.sky2image(np.array([a0, a0], dtype="f8"), np.array([b0], dtype="f8"))
    distort = call[4] == "d"
    find = call[5] == "r"
    if len(call) > 6:
        return w.sky2image(a, b, distort=distort, find=find, xtol=XTOL[call[7:]])
    return w.sky2image(a, b, distort=distort, find=find)


def _hist_vals(call, k, sky, hdr=None):
    if call.startswith("s2i"):
        return sky
    return HIST_PIX[k % 4] if hdr is None else _in_image(hdr, HIST_PIX[k % 4])


def _try(f):
    """the result as a tuple of float64 scalars (element 0 of every output for array calls)"""
    try:
        return ("ok", tuple(np.float64(np.asarray(v).reshape(-1)[0]) for v in f()))
    except Exception as e:  # noqa
        return ("exc", type(e).__name__)


_FRESH = {}
_SKIES = {}


def _hist_sky(hk, hidx, k, rel="base"):
    """the sky target of step k: where a TAN header with the same linear part puts HIST_SKYPIX[k] (the header kinds
    share CRVAL / CRPIX / CD up to the seed, any sky position inside the image serves)"""
    key = (hk, hidx, k % 4, rel)
    if key not in _SKIES:
        full = hist_header(hk, hidx, rel)
        hdr = {kk: v for kk, v in full.items() if not kk.startswith(("pv", "a_", "b_", "ap_", "bp_"))}
        hdr["ctype1"], hdr["ctype2"] = "RA---TAN", "DEC--TAN"
        _SKIES[key] = tuple(float(v) for v in _wcs().WCS(hdr).image2sky(*_in_image(full, HIST_SKYPIX[k % 4])))
    return _SKIES[key]


def hist_construct(W, hdr, ang):
    """the history object: projection angles not given | as header cards | as constructor keywords"""
    if ang == "header":
        return W(dict(hdr, **HIST_ANGLES))
    if ang == "keyword":
        return W(hdr, **HIST_ANGLES)
    if ang != "default":
        raise MachineryError("unknown angle placement %s" % ang)
    return W(hdr)


def life_step(w, op):
    import copy
    import pickle
    if op == "copy":
        return copy.copy(w)
    if op == "deepcopy":
        return copy.deepcopy(w)
    if op == "pickle":
        return pickle.loads(pickle.dumps(w, protocol=pickle.HIGHEST_PROTOCOL))
    raise MachineryError("unknown life-cycle step %s" % op)


def _fresh(hk, hidx, call, k, mode, rel="base", ang="default"):
    """what a fresh object (constructed like the original) in a fresh process state returns for the call with the arguments
    of position k"""
    k = k % 4
    key = (hk, hidx, call, k, mode, rel, ang)
    if key not in _FRESH:
        hdr = hist_header(hk, hidx, rel)
        sky = _hist_sky(hk, hidx, k, rel)
        va, vb = _hist_vals(call, k, sky, hdr)

        def one():
            reset_world()
            W = _wcs().WCS
            if mode == "buffer":
                return _try(lambda: _hist_call(hist_construct(W, hdr, ang), call, np.array([va], dtype="f8"), np.array([vb], dtype="f8")))
            return _try(lambda: _hist_call(hist_construct(W, hdr, ang), call, va, vb))
        a, b = one(), one()
        if a[0] != b[0] or (a[0] == "ok" and [v.tobytes() for v in a[1]] != [v.tobytes() for v in b[1]]) or (a[0] == "exc" and a != b):
            raise MachineryError("two fresh objects disagree on %s: %s %s" % (key, a, b))
        _FRESH[key] = (a, sky)
    return _FRESH[key]


def _hist_rel(call, got, want):
    """same: bit-identical (or the same exception class); close: within the tolerance the statement grants the call"""
    if got[0] != want[0]:
        return "diff"
    if got[0] == "exc":
        return "same" if got[1] == want[1] else "diff"
    if [v.tobytes() for v in got[1]] == [v.tobytes() for v in want[1]]:
        return "same"
    r = L.sky_rel(got[1], want[1]) if call.startswith("i2s") else _jac_rel(got[1], want[1]) if call.startswith("jac") else L.pix_rel(got[1], want[1])
    return "close" if r in ("same", "close") else "diff"


def obs_history(args):
    """mode "scalar": python scalars.  mode "buffer": the caller keeps ONE pair of arrays for the whole sequence and
    overwrites it in place before every call (same argument objects, new contents)."""
    rid, (hk, hidx, calls, mode, ang) = args
    W = _wcs().WCS
    cm = _quiet()
    steps = []
    bufa, bufb = np.zeros(1, dtype="f8"), np.zeros(1, dtype="f8")
    alive = []            # the objects the copies were made from stay alive (a shallow copy shares their scratch arrays)
    try:
        with np.errstate(all="ignore"):
            reset_world()
            w = hist_construct(_wcs().WCS, hist_header(hk, hidx), ang)
            for k, call in enumerate(calls):
                if call in LIFE_OPS:       # the caller goes on with the copy; a step that raises leaves the handle alone
                    try:
                        w2 = life_step(w, call)
                        alive.append(w)
                        w = w2
                        steps.append({"call": call, "rel": "same"})
                    except MachineryError:
                        raise
                    except Exception:  # noqa
                        steps.append({"call": call, "rel": "rejected"})
                    continue
                want, sky = _fresh(hk, hidx, call, k, mode, "base", ang)
                va, vb = _hist_vals(call, k, sky)
                if mode == "buffer":
                    bufa[0], bufb[0] = va, vb
                    got = _try(lambda: _hist_call(w, call, bufa, bufb))
                    if (float(bufa[0]), float(bufb[0])) != (float(va), float(vb)):
                        got = ("exc", "ARGUMENT_MODIFIED")
                else:
                    got = _try(lambda: _hist_call(w, call, va, vb))
                steps.append({"call": call, "rel": _hist_rel(call, got, want)})
    finally:
        cm.__exit__(None, None, None)
    return {"id": rid, "kind": "history", "c": {"hk": hk, "calls": list(calls), "mode": mode, "ang": ang}, "o": {"steps": steps}, "x": {"hidx": hidx}}


def obs_world(args):
    """several objects alive in one process, built from related headers; calls interleaved as TLC enumerated them"""
    rid, (hk, hidx, rels, calls) = args
    cm = _quiet()
    steps = []
    try:
        with np.errstate(all="ignore"):
            reset_world()
            W = _wcs().WCS
            allrels = ["base"] + list(rels)
            objs = [W(hist_header(hk, hidx, rel)) for rel in allrels]
            for k, cl in enumerate(calls):
                o, call = int(cl["o"]), cl["call"]
                rel = allrels[o - 1]
                want, sky = _fresh(hk, hidx, call, k, "scalar", rel)
                va, vb = _hist_vals(call, k, sky, hist_header(hk, hidx, rel))
                got = _try(lambda: _hist_call(objs[o - 1], call, va, vb))
                steps.append({"o": o, "call": call, "rel": _hist_rel(call, got, want)})
    finally:
        cm.__exit__(None, None, None)
    return {"id": rid, "kind": "world", "c": {"hk": hk, "rels": list(rels), "calls": [{"o": int(cl["o"]), "call": cl["call"]} for cl in calls]},
            "o": {"steps": steps}, "x": {"hidx": hidx}}


def subprocess_reference(hk, hidx, rel, call, k):
    """the same reference computed in a REAL fresh interpreter - validates reset_world()"""
    import json
    import subprocess
    import sys
    hdr = hist_header(hk, hidx, rel)
    va, vb = _hist_vals(call, k, _hist_sky(hk, hidx, k, rel), hdr)
    code = ("import sys, json; sys.path[:0] = json.loads(sys.argv[1])\n"
            "import numpy as np, warnings; warnings.simplefilter('ignore'); np.seterr(all='ignore')\n"
            "from vh.adapters import c10\n"
            "hdr = c10.hist_header(sys.argv[2], int(sys.argv[3]), sys.argv[4])\n"
            "from esutil import wcsutil\n"
            "r = c10._try(lambda: c10._hist_call(wcsutil.WCS(hdr), sys.argv[5], float.fromhex(sys.argv[6]), float.fromhex(sys.argv[7])))\n"
            "print('REF', r[0], ' '.join(v.tobytes().hex() for v in r[1]) if r[0] == 'ok' else r[1])\n")
    return subprocess.Popen([sys.executable, "-c", code, json.dumps(sys.path), hk, str(hidx), rel, call, float(va).hex(), float(vb).hex()],
                            stdout=subprocess.PIPE, stderr=subprocess.DEVNULL, text=True)


# ---- input representations ---------------------------------------------------------------------------------------
# values: integers for the integer types, dyadic fractions that are exact in float32 for the float types.  The reference
# is always the call with python-float scalars of the same values on a fresh object.
REPR_NP = {"f8": "f8", "f4": "f4", "i8": "i8", "i4": "i4", "i2": "i2", "u2": "u2"}
REPR_INT = {"pyint", "i8", "i4", "i2", "u2"}
REPR_PIX = {"int": [(1500, 10), (250, 3000), (1024, 2048), (2048, 4096)],
            "frac": [(1500.75, 10.125), (250.25, 3000.5), (1024.5, 2048.5), (2047.0625, 4095.875)]}
# sky positions around CRVAL = (10.25, 20.5) at 2 arcsec / pixel (the image spans 1.1 x 2.3 degree)
REPR_SKY = {"int": [(10, 20), (10, 21), (11, 20), (10, 20)],
            "frac": [(10.03125, 20.0625), (10.5, 21.25), (9.96875, 19.75), (10.25, 20.5)]}


def repr_header(hk, hidx):
    rng = random.Random(7000 + 13 * hidx + {"TAN": 1, "TPV": 2, "SIP": 3}[hk])
    hdr = L.realistic_header(rng, hk, crval=(10.25, 20.5), crpix=(1024.5 + 3 * hidx, 2048.5))
    th = 0.3 + hidx
    sc = 2.0 / 3600.0
    hdr.update(cd1_1=-sc * np.cos(th), cd1_2=sc * np.sin(th), cd2_1=sc * np.sin(th), cd2_2=sc * np.cos(th))
    if hk == "TPV":      # the PV magnitudes of realistic_header refer to its own scale: rescale the non-linear terms
        rng2 = random.Random(9000 + hidx)
        r = 2500 * sc
        for key in list(hdr):
            if key.startswith("pv") and int(key.split("_")[1]) >= 4:
                n = 2 if int(key.split("_")[1]) < 7 else 3
                hdr[key] = rng2.uniform(-0.01, 0.01) / r ** (n - 1)
            elif key in ("pv1_0", "pv2_0"):
                hdr[key] = rng2.uniform(-1e-2, 1e-2) * r
    return hdr


def repr_build(c, vals):
    """the two arguments in the representation c; returns (a, b, index-of-value -> flat position in the result)"""
    dt, ct, ly = c["dtype"], c["container"], c["layout"]
    xs, ys = [v[0] for v in vals], [v[1] for v in vals]
    n = len(vals)
    if ct == "scalar":
        raise ValueError("scalars are called one by one")
    if ct == "list":
        conv = int if dt == "pyint" else float
        return [conv(v) for v in xs], [conv(v) for v in ys], list(range(n))
    npdt = np.dtype(REPR_NP[dt])

    def arr(v):
        a = np.array(v, dtype=npdt)
        if ct == "zero_d":
            return np.array(v[0], dtype=npdt)
        if ct == "two_d":
            return a.reshape(2, n // 2)
        if ly == "strided":
            big = np.zeros(3 * n + 1, dtype=npdt)
            big[1::3] = a
            return big[1::3]
        if ly == "reversed":
            return np.array(v[::-1], dtype=npdt)[::-1]
        if ly == "swapped":
            return a.astype(npdt.newbyteorder("S"))
        if ly == "readonly":
            a.flags.writeable = False
        return a
    return arr(xs), arr(ys), ([0] if ct == "zero_d" else list(range(n)))


def repr_scalar(c, v):
    dt = c["dtype"]
    if dt == "pyfloat":
        return float(v)
    if dt == "pyint":
        return int(v)
    return np.dtype(REPR_NP[dt]).type(v)


def _repr_base(c):
    """the plain representation of the same element type"""
    if c["dtype"] in ("pyfloat", "pyint"):
        return dict(c, container="scalar", layout="contig")
    return dict(c, container="array", layout="contig")


def _repr_ok(r):
    return r["o"]["err"] == "none" and bool(r["o"]["rel"]) and all(v in ("same", "close") for v in r["o"]["rel"])


def repr_mark_base(recs):
    """signature naming only: does the plain representation of the element type fail for the same call / header?"""
    key = lambda c, hidx: (c["call"], c["hk"], c["dtype"], c["container"], c["layout"], hidx)  # noqa
    by = {key(r["c"], r["x"]["hidx"]): r for r in recs}
    for r in recs:
        b = by.get(key(_repr_base(r["c"]), r["x"]["hidx"]))
        r["x"]["base_fails"] = bool(b is not None and not _repr_ok(b))


def _call_rel(call, got, want):
    return L.sky_rel(got, want) if call.startswith("i2s") else _jac_rel(got, want) if call == "jac" else L.pix_rel(got, want)


def obs_repr(args):
    rid, (c, hidx) = args
    W = _wcs().WCS
    call, hk = c["call"], c["hk"]
    hdr = repr_header(hk, hidx)
    kind = "int" if c["dtype"] in REPR_INT else "frac"
    vals = (REPR_SKY if call.startswith("s2i") else REPR_PIX)[kind]
    cc = {kk: c[kk] for kk in ("call", "dtype", "container", "layout", "hk")}
    o = {"err": "none", "rel": []}
    x_ = {"hidx": hidx, "values": vals, "stage": "reference"}
    cm = _quiet()
    try:
        with np.errstate(all="ignore"):
            try:
                ref = [tuple(np.float64(v) for v in _hist_call(W(hdr), call, float(a), float(b))) for a, b in vals]
            except Exception as e:  # noqa
                raise MachineryError("reference call failed for %s: %r" % (cc, e))
            try:
                x_["stage"] = "call"
                if c["container"] == "scalar":
                    w = W(hdr)
                    got = [tuple(np.float64(v) for v in _hist_call(w, call, repr_scalar(c, a), repr_scalar(c, b))) for a, b in vals]
                    idx = list(range(len(vals)))
                else:
                    a, b, idx = repr_build(c, vals)
                    before = None if isinstance(a, list) else (a.tobytes(), b.tobytes(), a.dtype.str, b.dtype.str)
                    res = _hist_call(W(hdr), call, a, b)
                    if before is not None and before != (a.tobytes(), b.tobytes(), a.dtype.str, b.dtype.str):
                        x_["frame_ok"] = False
                    flat = [np.asarray(v, dtype="f8").reshape(-1) for v in res]
                    if any(f.size != len(idx) for f in flat):
                        o["rel"] = ["off"]
                        x_["result_sizes"] = [int(f.size) for f in flat]
                        return {"id": rid, "kind": "repr", "c": cc, "o": o, "x": x_}
                    got = [tuple(np.float64(f[i]) for f in flat) for i in range(len(idx))]
            except MachineryError:
                raise
            except Exception as e:  # noqa
                o["err"] = type(e).__name__
                x_["msg"] = str(e)[:120]
                return {"id": rid, "kind": "repr", "c": cc, "o": o, "x": x_}
    finally:
        cm.__exit__(None, None, None)
    o["rel"] = [_call_rel(call, g, ref[i]) for g, i in zip(got, idx)]
    x_["got"] = [[float(v) for v in g] for g in got]
    x_["reference"] = [[float(v) for v in r] for r in ref]
    return {"id": rid, "kind": "repr", "c": cc, "o": o, "x": x_}


# =====================================================================================================
# judging: TLC decides, Python turns rejected records into violations with structural signatures
# =====================================================================================================
MACHINERY_CLAUSES = {"ang_case_malformed", "rep_not_in_class", "pixel_not_on_anchor", "trace_mismatch", "unknown_record_kind", "header_malformed", "repr_case_malformed"}


def _err_sig(h, distort, stage, clause):
    """structural class of an unexpected exception: entry point + what about the header / call triggers it"""
    if stage == "construct":
        st = h["proj"]
        if h["proj"] == "SIP" and not h.get("invkeys", True):
            st += ",no_inverse_keys"
        return "WCS()|%s|%s" % (clause, st)
    st = h["proj"]
    if h["proj"] == "SIP" and not distort:
        st += ",distort=False"
    elif h["proj"] == "SIP" and not any(co["ax"] == 1 for co in h["co"]):
        st += ",no_A_coefficient,distort=True"
    else:
        st += ",distort=%s" % distort
    return "image2sky|%s|%s" % (clause, st)


def signature(r, clause):
    k, c, o, x_ = r["kind"], r["c"], r["o"], r.get("x", {})
    if clause == "unexpected_error":
        clause += ":" + o["err"]
    if k == "class":
        if clause.startswith("unexpected_error"):
            return _err_sig(c["h"], c["distort"], x_.get("stage"), clause)
        return "image2sky|%s|%s,distort=%s" % (clause, c["h"]["proj"], c["distort"])
    if k == "refpix":
        if clause.startswith("unexpected_error"):
            return _err_sig(c["h"], True, x_.get("stage"), clause)
        pole = "pole" if abs(c["crval"][1][0]) == 90 and c["crval"][1][1] == 0 else "near_pole" if abs(c["crval"][1][0]) == 90 else "general"
        return "image2sky|%s|reference_pixel,%s,%s" % (clause, c["h"]["proj"], pole)
    if k == "anchor":
        where = "polar_crval" if abs(c["crval"][1]) == 90 else "equatorial_crval" if c["crval"][1] == 0 else "general_crval"
        return "image2sky|%s|gnomonic_anchor,%s,dir=%s" % (clause, where, c["dir"])
    if k == "roundtrip":
        dist = "distorted" if c["distorted"] else "tan"
        if clause.startswith("unexpected_error"):
            if x_.get("stage") == "construct":
                nokeys = c["hk"] == "SIP" and "ap_order" not in x_.get("hdr", {"ap_order": 0})
                return "WCS()|%s|%s%s" % (clause, c["hk"], ",no_inverse_keys" if nokeys else "")
            if x_.get("stage") == "image2sky":
                return "image2sky|%s|%s,distort=%s" % (clause, {"TANPV": "TANPV"}.get(c["hk"], c["hk"]), c["distort"])
            return "sky2image|%s|%s,find=%s,distort=%s" % (clause, c["hk"], c["find"], c["distort"])
        if c["distorted"] and not c["distort"]:
            return "sky2image|%s|distorted,find=%s,distort=False" % (clause, c["find"])
        return "sky2image|%s|%s,find=%s,distort=%s,%s" % (clause, dist, c["find"], c["distort"], c["region"])
    if k == "scalar":
        entry = {"i2s": "image2sky", "s2i_r": "sky2image(find=True)", "s2i_p": "sky2image(find=False)", "jac": "get_jacobian"}[c["call"]]
        return "%s|%s|%s,dtype=%s" % (entry, clause, "distorted" if c["distorted"] else "tan", c["dtype"])
    if k == "angclass":
        if clause.startswith("unexpected_error"):
            return "%s|%s|%s,angles_as_%s" % ("WCS()" if x_.get("stage") == "construct" else "image2sky", clause, c["h"]["proj"], c["ang"]["place"])
        return "image2sky|%s|angles_as_%s" % (clause, c["ang"]["place"])
    if k == "history":
        bad = sorted({s["call"] for s in o["steps"] if s["rel"] not in ("same", "rejected")})
        first = min([i for i, s in enumerate(o["steps"]) if s["rel"] not in ("same", "rejected")] or [0])
        life = sorted({s["call"] for s in o["steps"][:first] if s["call"] in LIFE_OPS})
        if life:         # the structural class: a copy answers differently - which calls show it is secondary
            first_life = next(s["call"] for s in o["steps"] if s["call"] in LIFE_OPS)
            return "history|%s|object_after_%s,angles_as_%s" % (clause, first_life, c.get("ang", "default"))
        return "history|%s|%s,%s%s%s" % (clause, c["hk"], "+".join(bad), ",reused_argument_buffer" if c.get("mode") == "buffer" else "",
                                       ",angles_as_" + c["ang"] if c.get("ang", "default") != "default" else "")
    if k == "world":
        bad = sorted({s["call"] for s in o["steps"] if s["rel"] != "same"})
        badrel = sorted({(["base"] + list(c["rels"]))[s["o"] - 1] for s in o["steps"] if s["rel"] != "same"})
        return "world|%s|%s,%s,object=%s" % (clause, c["hk"], "+".join(bad), "+".join(badrel))
    if k == "repr":
        entry = {"i2s": "image2sky", "s2i": "sky2image", "jac": "get_jacobian"}[c["call"][:3]]
        # the structural class: the element type alone when the plain representation of that type (contiguous array,
        # python scalar) fails as well; else the container / layout that makes the difference
        if x_.get("base_fails", False):
            what = c["dtype"]
        else:
            what = "%s,%s" % (c["dtype"], c["container"]) + ("" if c["layout"] == "contig" else "," + c["layout"])
        return "%s|%s|input=%s" % (entry, clause, what)
    return "%s|%s" % (k, clause)


def replay_case(r):
    k = r["kind"]
    x_ = r.get("x", {})
    if k in ("class", "anchor", "refpix", "angclass"):
        c = dict(r["c"])
        if k == "anchor":
            c.update(tansq=r["_case"]["tansq"], allowed=r["_case"]["allowed"])
        if k == "refpix":
            c.update(exp=r["_case"]["exp"])
        return {"kind": k, "c": c, "k": x_.get("k", 0), "observed": {"o": r["o"], "x": x_}}
    if k == "roundtrip":
        return {"kind": k, "hdr": x_["hdr"], "pix": x_["pix"], "hk": r["c"]["hk"], "distort": r["c"]["distort"], "find": r["c"]["find"],
                "observed": {"o": r["o"], "dev_pix": x_.get("dev_pix"), "sky": x_.get("sky"), "msg": x_.get("msg")}}
    if k == "scalar":
        return {"kind": k, "plan": x_["plan"], "observed": {"o": r["o"], "scalar": x_.get("scalar"), "array": x_.get("array"), "msg": x_.get("msg")}}
    if k == "history":
        return {"kind": k, "hk": r["c"]["hk"], "hidx": x_["hidx"], "calls": r["c"]["calls"], "mode": r["c"].get("mode", "scalar"),
                "ang": r["c"].get("ang", "default"), "observed": r["o"]}
    if k == "world":
        return {"kind": k, "hk": r["c"]["hk"], "hidx": x_["hidx"], "rels": r["c"]["rels"], "calls": r["c"]["calls"], "observed": r["o"]}
    if k == "repr":
        return {"kind": k, "c": r["c"], "hidx": x_["hidx"],
                "observed": {"o": r["o"], "got": x_.get("got"), "reference": x_.get("reference"), "values": x_.get("values"), "msg": x_.get("msg")}}
    return {"kind": k}


def judge(ctx, recs, what):
    if not recs:
        return {}
    rejects = tracecheck.validate(ctx, "WcsTrace.tla", [{"id": r["id"], "kind": r["kind"], "c": r["c"], "o": r["o"]} for r in recs], what=what)
    byid = {r["id"]: r for r in recs}
    for rid, failing in sorted(rejects.items()):
        r = byid[rid]
        for cl in failing:
            if cl in MACHINERY_CLAUSES:
                raise MachineryError("harness record rejected for a machinery reason (%s): %s" % (cl, {kk: r[kk] for kk in ("kind", "c", "o")}))
            ctx.violation(signature(r, cl), "%s record not allowed by Wcs.tla: clause %s" % (r["kind"], cl), replay_case(r))
    for r in recs:
        if r["kind"] in ("scalar", "repr") and r.get("x", {}).get("frame_ok") is False:
            ctx.violation("%s|argument_modified" % r["c"]["call"], "array argument modified by the call", replay_case(r))
    return rejects


# =====================================================================================================
def _dedupe(cases):
    import json
    seen, out = set(), []
    for c in cases:
        key = json.dumps(c, sort_keys=True)
        if key not in seen:
            seen.add(key)
            out.append(c)
    return out


def _export(ctx, consts, what, init, next_, tag="CASE", invariants=()):
    r = ctx.tlc("WcsMC.tla", what=what, cfg_text=cfg(constants=dict(consts, DoExport=True), init=init, next_=next_,
                                                     constraints=["Export"], invariants=list(invariants)),
                workers=1, coverage=False, timeout=3000)
    if r.garbled:
        raise MachineryError("unparsed export lines in %s" % what)
    cases = _dedupe(r.records.get(tag, []))
    if not cases:
        raise MachineryError("no cases exported by %s" % what)
    return cases


def _tlc_eval(ctx, items, what):
    """seeded abstract cases beyond the exhaustive bound: TLC computes the class representative"""
    import json
    import os
    import tempfile
    fd, path = tempfile.mkstemp(prefix="vh-c10-eval-", suffix=".ndjson")
    try:
        with os.fdopen(fd, "w") as f:
            for it in items:
                f.write(json.dumps(it, separators=(",", ":")) + "\n")
        r = ctx.tlc("WcsTrace.tla", what=what, cfg_text=cfg(constraints=["Eval"]), workers=1, coverage=False,
                    env={"TRACE_FILE": path}, timeout=1800)
    finally:
        os.unlink(path)
    out = {w["id"]: w for w in r.records.get("WORLD", [])}
    if r.garbled or len(out) != len(items):
        raise MachineryError("TLC evaluated %d of %d seeded cases" % (len(out), len(items)))
    return out


_PVDEG = {0: 0, 1: 1, 2: 1, 4: 2, 5: 2, 6: 2, 7: 3, 8: 3, 9: 3, 10: 3}     # units only: header value = val * u^(1-deg)
_BASE = {0: Fr(1, 2), 1: Fr(1, 8), 2: Fr(1, 32), 3: Fr(1, 256), 4: Fr(1, 2048)}


def random_abstract(rng, rid):
    proj = rng.choice(["TPV", "TANPV", "SIP", "SIP", "TPV"])
    while True:
        cd = [[rng.randint(-2, 2), rng.randint(-2, 2)], [rng.randint(-2, 2), rng.randint(-2, 2)]]
        if cd[0][0] * cd[1][1] - cd[0][1] * cd[1][0] != 0:
            break
    crpix = [rng.randint(-9, 9), rng.randint(-9, 9)]
    if proj == "SIP":
        order = rng.choice([2, 3, 4])
        slots = [(ax, 0, p, q) for ax in (1, 2) for p in range(order + 1) for q in range(order + 1) if 2 <= p + q <= order]
    else:
        slots = [(ax, j, 0, 0) for ax in (1, 2) for j in _PVDEG]
    co = []
    for (ax, j, p, q) in sorted(rng.sample(slots, min(len(slots), rng.randint(3, 8)))):
        deg = p + q if proj == "SIP" else _PVDEG[j]
        v = rng.choice([-3, -2, -1, 1, 2, 3]) * _BASE[deg]
        if proj != "SIP" and j == 1:
            v += 1
        co.append({"ax": ax, "j": j, "p": p, "q": q, "val": [v.numerator, v.denominator], "deg": deg})
    lim = 3 if proj != "SIP" else 6          # keeps every rational of the evaluation inside 32 bits
    pix = [[crpix[0] + rng.randint(-lim, lim), 1], [crpix[1] + rng.randint(-lim, lim), 1]]
    h = {"proj": proj, "crpix": crpix, "cd": cd, "co": co, "invkeys": True, "ord": [0, 0], "iord": [0, 0], "pvsets": ["all", "all"]}
    if proj == "SIP":       # declared orders: independent per axis, at least the degree of the axis' coefficients
        top = [max([2] + [c_["deg"] for c_ in co if c_["ax"] == ax]) for ax in (1, 2)]
        h["ord"] = [rng.randint(t, 5) for t in top]
        h["iord"] = [rng.randint(2, 6), rng.randint(2, 6)]
        h["invkeys"] = rng.random() < 0.7
    else:
        h["pvsets"] = [rng.choice(["all", "deg2", "deg1", "one"]), rng.choice(["all", "deg2", "deg1", "one"])]
    return {"id": rid, "c": {"h": h, "pix": pix, "distort": True}}


# =====================================================================================================
def run(ctx):
    tier = ctx.tier
    B = BOUNDS[tier]
    only = getattr(ctx, "only", None)

    def part(name):
        return not only or name in only

    bad = L.kernel_selftest()
    if bad:
        raise MachineryError("projection kernel self-test failed: %s" % bad[:3])
    seed = ctx.seed
    recs = []          # every record, judged in one go at the end of each part
    nid = [0]

    def ids(n):
        a = nid[0] + 1
        nid[0] += n
        return range(a, a + n)

    probe = {}

    # ---- A. classes ---------------------------------------------------------------------------------
    if part("class"):
        consts = _consts(tier)
        # one run checks the invariants over the whole bounded space and exports every case (single worker: ordered PrintT)
        r0 = ctx.tlc("WcsMC.tla", what="forward-chain mechanism refines World; dispatch; class soundness (exhaustive) + export",
                     cfg_text=cfg(constants=dict(consts, DoExport=True), init="InitC", next_="NextC", constraints=["Export"],
                                  invariants=["MechRefines", "S2IDispatchRefines", "ClassSound", "AngRefines"]),
                     workers=1, require=["ChooseShape", "ChooseCoefs", "ChoosePix", "ChooseRef", "ChooseAng"], timeout=3000)
        if r0.garbled:
            raise MachineryError("unparsed export lines in the class run")
        small = _consts(tier, CDIds={1, 9}, PixIds={1}, CrpixIds={2}, RefCDIds=set(), AngCDIds=set())
        for nm, over, inv in (("pinned SIP handling violates MechRefines", dict(Repaired=False), "MechRefines"),
                              ("pinned find/distort dispatch violates S2IDispatchRefines", dict(Repaired=False), "S2IDispatchRefines"),
                              ("a wrong scamp map violates MechRefines", dict(PVMapVariant="pv2_as_pv1"), "MechRefines"),
                              ("evaluating the A/B pair over the common shape violates MechRefines", dict(PolyVariant="zip_pair"), "MechRefines"),
                              ("projection angles given as constructor keywords ignored violates AngRefines",
                               dict(AngVariant="keyword_dropped", Projs={"TAN"}, AngCDIds={9}, AngPixIds={6}), "AngRefines")):
            r = ctx.tlc("WcsMC.tla", what="self-test: " + nm, cfg_text=cfg(constants=dict(small, **over), init="InitC", next_="NextC", invariants=[inv]),
                        workers=1, allow_violation=True, coverage=False)
            if inv not in r.violated:
                raise MachineryError("self-test failed: %s" % nm)
        cases = _dedupe(r0.records.get("CASE", []))
        if tier == "thorough":
            pc = _consts(tier, **PAIRS)
            pc["RefCDIds"] = set()
            ctx.tlc("WcsMC.tla", what="coefficient pairs: mechanism refines World (exhaustive)",
                    cfg_text=cfg(constants=pc, init="InitC", next_="NextC", invariants=["MechRefines", "ClassSound"]),
                    workers=16, require=["ChoosePix"], timeout=3000)
            cases += [c for c in _export(ctx, pc, "export coefficient-pair class cases", "InitC", "NextC") if len(c.get("h", {}).get("co", [])) == 2]
            cases = _dedupe(cases)
        cl = [c for c in cases if c["kind"] == "class"]
        rf = [c for c in cases if c["kind"] == "refpix"]
        ac = [c for c in cases if c["kind"] == "angclass"]
        if not cl or not rf:
            raise MachineryError("class / refpix export empty")
        if not all(any(c["ang"]["place"] == pl and c["ang"]["lp"] == lp for c in ac) for pl in ("header", "keyword") for lp in (0, 90, 180, 270)):
            raise MachineryError("angle classes: a placement x LONPOLE combination was not exported")
        crecs = pmap(obs_class, [(i, {kk: c[kk] for kk in ("h", "pix", "distort", "rep")}, i + seed) for i, c in zip(ids(len(cl)), cl)])
        rrecs = pmap(obs_refpix, [(i, c, i + seed) for i, c in zip(ids(len(rf)), rf)])
        for r, c in zip(rrecs, rf):
            r["_case"] = c
        arecs0 = pmap(obs_angclass, [(i, {kk: c[kk] for kk in ("h", "pix", "distort", "rep", "ang")}, i + seed) for i, c in zip(ids(len(ac)), ac)])
        probe["angclass"] = next((r for r in arecs0 if r["o"]["err"] == "none" and r["o"]["rel"] in ("same", "close") and r["c"]["ang"]["lp"] == 90
                                  and r["c"]["ang"]["place"] == "keyword"), None)
        ctx.note(angle_class_cases=len(ac), angle_class_errors=sum(1 for r in arecs0 if r["o"]["err"] != "none"))
        for r in crecs + rrecs + arecs0:
            ctx.count({"kind": r["kind"], "c": r["c"], "k": r["x"].get("k")})
        ctx.sample({"class_case": crecs[len(crecs) // 3]["c"], "observed": crecs[len(crecs) // 3]["o"], "detail": crecs[len(crecs) // 3]["x"]})
        ctx.sample({"refpix_case": rrecs[len(rrecs) // 2]["c"], "observed": rrecs[len(rrecs) // 2]["o"], "detail": rrecs[len(rrecs) // 2]["x"]})
        recs += crecs + rrecs + arecs0
        probe["class"] = next((r for r in crecs if r["o"]["err"] == "none" and r["o"]["rel"] in ("same", "close")), None)
        nclasses = len({str(c["rep"]) for c in cl})
        ctx.note(class_cases=len(cl), distinct_world_values=nclasses, refpix_cases=len(rf),
                 class_bitwise_identical=sum(1 for r in crecs if r["o"]["rel"] == "same"),
                 class_errors=sum(1 for r in crecs if r["o"]["err"] != "none"))
        # seeded larger cases: TLC evaluates the representative first
        nrand = 300 if ctx.quick else 4000
        rng = random.Random(seed * 104729 + 3)
        items = [random_abstract(rng, i) for i in ids(nrand)]
        worlds = _tlc_eval(ctx, items, "TLC evaluates World of %d seeded larger cases" % nrand)
        erecs = pmap(obs_class, [(it["id"], dict(it["c"], rep=worlds[it["id"]]["rep"]), it["id"] + seed) for it in items])
        for r in erecs:
            ctx.count({"kind": "class", "c": r["c"], "k": r["x"].get("k")})
        recs += erecs
        ctx.note(seeded_class_cases=nrand)

    # ---- B. anchors -------------------------------------------------------------------------------------
    if part("anchor"):
        ctx.log("anchors")
        consts = _consts(tier)
        an = _export(ctx, consts, "enumerate and export gnomonic anchors", "InitC", "NextS", invariants=["AnchorSound"])
        arecs = pmap(obs_anchor, [(i, c, i + seed) for i, c in zip(ids(len(an)), an)])
        for r, c in zip(arecs, an):
            r["_case"] = c
            ctx.count({"kind": "anchor", "c": r["c"], "k": r["x"]["k"]})
        ctx.sample({"anchor_case": arecs[len(arecs) // 2]["c"], "observed": arecs[len(arecs) // 2]["o"], "detail": arecs[len(arecs) // 2]["x"]})
        recs += arecs
        probe["anchor"] = next((r for r in arecs if r["o"]["on"]), None)
        devs = [r["x"].get("dev_deg") for r in arecs if r["x"].get("dev_deg") is not None]
        ctx.note(anchor_cases=len(an), anchor_max_dev_deg=max(devs) if devs else None)

    # ---- C. round trips on realistic headers ----------------------------------------------------------------
    if part("roundtrip"):
        ctx.log("round trips")
        ng, npol = (60, 32) if ctx.quick else (1500, 400)
        plan = roundtrip_plan(seed, ng, npol)
        base_id = nid[0] + 1
        groups = pmap(obs_roundtrip, [(base_id + 64 * i, p) for i, p in enumerate(plan)], chunk=4)
        nid[0] = base_id + 64 * len(plan)
        trecs = [r for g in groups for r in g]
        pplan = [(hs, d0) for hs in range(9 if ctx.quick else 30) for d0 in POLAR_D]
        base_id = nid[0] + 1
        groups = pmap(obs_polar, [(base_id + 128 * i, p) for i, p in enumerate(pplan)], chunk=2)
        nid[0] = base_id + 128 * len(pplan)
        precs = [r for g in groups for r in g]
        trecs += precs
        for r in trecs:
            ctx.count({"kind": "roundtrip", "plan": r["x"]["plan"], "pix": r["x"]["pix"], "c": r["c"]})
        ctx.sample({"roundtrip_case": trecs[0]["c"], "observed": trecs[0]["o"], "pix": trecs[0]["x"]["pix"], "dev_pix": trecs[0]["x"].get("dev_pix")})
        recs += trecs
        ok = [r["x"]["dev_pix"] for r in trecs if r["c"]["find"] and r["c"]["distort"] and r["o"]["dev"] == "within"]
        ctx.note(roundtrip_records=len(trecs), roundtrip_headers=len(plan) + len(pplan), polar_directed_records=len(precs),
                 polar_directed_gt_1e_6=sum(1 for r in precs if r["o"]["dev"] != "within"), roundtrip_find_max_dev_within=max(ok) if ok else None)
        probe["roundtrip"] = next((r for r in trecs if r["c"]["find"] and r["o"]["err"] == "none" and r["o"]["dev"] == "within"), None)

    # ---- D. scalar vs array ------------------------------------------------------------------------------------------
    if part("scalar"):
        ctx.log("scalar vs array")
        nh = 6 if ctx.quick else 60
        rng = random.Random(seed * 31337 + 17)
        plan = []
        for i in range(nh):
            hs = rng.randrange(2 ** 30)
            for kind in ("TAN", "TPV", "SIP", "TANPV")[: 3 if ctx.quick else 4]:
                for call in SA_CALLS:
                    for dtype in ("f8", "i8"):
                        plan.append((kind, hs, call, dtype))
        srecs = pmap(obs_scalar, list(zip(ids(len(plan)), plan)))
        for r in srecs:
            ctx.count({"kind": "scalar", "plan": r["x"]["plan"]})
        recs += srecs
        ctx.note(scalar_array_records=len(srecs),
                 scalar_array_bitwise_identical=sum(1 for r in srecs if r["o"]["rel"] and all(v == "same" for v in r["o"]["rel"])))
        probe["scalar"] = next((r for r in srecs if r["o"]["err"] == "none" and r["o"]["rel"] and all(v in ("same", "close") for v in r["o"]["rel"])), None)

    # ---- D2. input representations -------------------------------------------------------------------------------------
    if part("repr"):
        ctx.log("input representations")
        consts = _consts(tier)
        rp = _export(ctx, consts, "enumerate input representations (call x element type x container x layout x header)", "InitC", "NextR",
                     invariants=["ReprSound"])
        nh = 1 if ctx.quick else 3
        plan = [({kk: c[kk] for kk in ("call", "dtype", "container", "layout", "hk")}, hidx) for c in rp for hidx in range(nh)]
        rrecs2 = pmap(obs_repr, list(zip(ids(len(plan)), plan)))
        for r in rrecs2:
            ctx.count({"kind": "repr", "c": r["c"], "hidx": r["x"]["hidx"]})
        repr_mark_base(rrecs2)
        recs += rrecs2
        okr = [r for r in rrecs2 if _repr_ok(r)]
        for need in ("f4", "i4", "pyint", "u2"):          # vacuity: the representations were really executed (whatever the outcome)
            if not any(r["c"]["dtype"] == need and r["c"]["container"] == cont and (r["o"]["err"] != "none" or r["o"]["rel"])
                       for r in rrecs2 for cont in (("scalar",) if need == "pyint" else ("array",))):
                raise MachineryError("no executed input-representation record for element type %s" % need)
        if not okr:
            raise MachineryError("no input-representation record was accepted at all (not even float64 arrays)")
        ctx.sample({"repr_case": okr[len(okr) // 2]["c"], "observed": okr[len(okr) // 2]["o"], "got": okr[len(okr) // 2]["x"].get("got")})
        ctx.note(repr_records=len(rrecs2), repr_bitwise_identical=sum(1 for r in okr if all(v == "same" for v in r["o"]["rel"])),
                 repr_rejections_where_statement_silent=sum(1 for r in rrecs2 if r["o"]["err"] != "none" and r["c"]["container"] in ("list", "zero_d", "two_d")))
        probe["repr"] = next((r for r in okr if r["c"]["dtype"] == "f4" and r["c"]["container"] == "array"), okr[0])

    # ---- E. history machine --------------------------------------------------------------------------------------------------
    if part("history"):
        consts = _consts(tier)
        ctx.tlc("WcsMC.tla", what="history machine: every result equals the fresh object's (all call sequences)",
                cfg_text=cfg(constants=consts, init="InitH", next_="NextH", invariants=["HistoryIndependent"]),
                workers=8, require=["ChooseKind", "Call"], timeout=3000)
        for variant in ("warm_start", "stale_inverse", "identity_cache"):
            r = ctx.tlc("WcsMC.tla", what="self-test: %s object violates HistoryIndependent" % variant,
                        cfg_text=cfg(constants=dict(consts, HistVariant=variant, MaxHist=3), init="InitH", next_="NextH", invariants=["HistoryIndependent"]),
                        workers=1, allow_violation=True, coverage=False)
            if "HistoryIndependent" not in r.violated:
                raise MachineryError("self-test failed: %s variant not caught" % variant)
        for variant, over in (("solver_cached", dict(HistCalls=OPT_CALLS, MaxHist=2, ShortKinds=set(), HistArgModes={"scalar"})),
                              ("pinned", dict(LIFE_HIST[tier], LifeVariant="rebuild_from_header", MaxHist=2, HistKinds={"TAN"}))):
            name = over.get("LifeVariant", variant)
            r = ctx.tlc("WcsMC.tla", what="self-test: %s object violates HistoryIndependent" % name,
                        cfg_text=cfg(constants=dict(consts, HistVariant=variant, **over), init="InitH", next_="NextH", invariants=["HistoryIndependent"]),
                        workers=1, allow_violation=True, coverage=False)
            if "HistoryIndependent" not in r.violated:
                raise MachineryError("self-test failed: %s variant not caught" % name)
        ctx.log("replaying histories")
        hs = _export(ctx, consts, "export every call sequence of length %d" % B["MaxHist"], "InitH", "NextH", tag="HIST")
        # the documented options of the calls (loose / tight xtol, jacobian step / distort) and a call rejected half-way
        oc = dict(consts, **OPT_HIST[tier])
        ro = ctx.tlc("WcsMC.tla", what="history machine with option calls and a rejected call: result = fresh object's + export",
                     cfg_text=cfg(constants=dict(oc, DoExport=True), init="InitH", next_="NextH", invariants=["HistoryIndependent"], constraints=["Export"]),
                     workers=1, require=["ChooseKind", "Call"], timeout=3000)
        hopt = _dedupe(ro.records.get("HIST", []))
        if ro.garbled or not any("s2i_dr_xl" in h["calls"][:-1] for h in hopt) or not any("s2i_fail" in h["calls"][:-1] for h in hopt):
            raise MachineryError("option-call histories: no sequence with a loose-xtol / rejected call before the last call")
        # life-cycle steps (copy / deepcopy / pickle) x where the object got its projection angles
        lc = dict(consts, **LIFE_HIST[tier])
        rl = ctx.tlc("WcsMC.tla", what="history machine with copy / deepcopy / pickle steps x angle placement: result = fresh original's + export",
                     cfg_text=cfg(constants=dict(lc, DoExport=True), init="InitH", next_="NextH", invariants=["HistoryIndependent"], constraints=["Export"]),
                     workers=1, require=["ChooseKind", "Call", "Life"], timeout=3000)
        # a sequence is informative when a call follows a life-cycle step
        hlife = [h for h in _dedupe(rl.records.get("HIST", []))
                 if h["calls"][-1] not in LIFE_OPS and any(cl_ in LIFE_OPS for cl_ in h["calls"])]
        if rl.garbled or not all(any(h["ang"] == a and op in h["calls"][:-1] for h in hlife) for a in ANG_PLACES for op in LIFE_OPS):
            raise MachineryError("life-cycle histories: an angle placement x life-cycle step combination was not exported")
        # long random histories over the whole alphabet (tlc -simulate), rejected calls interleaved
        D = DEEP[tier]
        rd = ctx.tlc("WcsMC.tla", what="simulate long object histories (depth %d)" % D["depth"],
                     cfg_text=cfg(constants=dict(consts, DoExport=True, HistCalls=ALL_CALLS, MaxHist=D["depth"], ShortKinds=set(),
                                                 HistKinds={"TPV", "SIP"}, LifeCalls=LIFE_OPS, HistAngs=ANG_PLACES), init="InitH", next_="NextH",
                                  invariants=["HistoryIndependent"], constraints=["Export"]),
                     workers=1, coverage=False, timeout=3000, simulate="num=%d" % D["num"],
                     extra=["-depth", str(D["depth"] + 3), "-seed", str(1000 + seed)])
        deep = _dedupe(rd.records.get("HIST", []))
        if len(deep) < D["num"] // 3 or any(len(h["calls"]) < D["depth"] - 1 for h in deep):
            raise MachineryError("simulation produced %d long histories" % len(deep))
        nhdr = 1 if ctx.quick else 2
        plan = [(h["hk"], hidx, h["calls"], h["mode"], h.get("ang", "default")) for h in hs for hidx in range(nhdr)]
        plan += [(h["hk"], 0, h["calls"], h["mode"], h.get("ang", "default")) for h in hopt]
        plan += [(h["hk"], i % 3, h["calls"], h["mode"], h["ang"]) for i, h in enumerate(hlife)]
        plan += [(h["hk"], i % 3, h["calls"], h["mode"], h["ang"]) for i, h in enumerate(deep)]
        cm = _quiet()          # the fresh-object references are computed once, before the fork
        try:
            with np.errstate(all="ignore"):
                for key in sorted({(hk_, hidx, call, k % 4, mode, "base", ang) for (hk_, hidx, calls, mode, ang) in plan
                                   for k, call in enumerate(calls) if call not in LIFE_OPS}):
                    _fresh(*key)
        finally:
            cm.__exit__(None, None, None)
        hrecs = pmap(obs_history, list(zip(ids(len(plan)), plan)))
        for r in hrecs:
            ctx.count({"kind": "history", "c": r["c"], "hidx": r["x"]["hidx"]})
        ctx.sample({"history": hrecs[len(hrecs) // 2]["c"], "observed": hrecs[len(hrecs) // 2]["o"]})
        recs += hrecs
        ctx.note(history_option_sequences=len(hopt), history_long_sequences=len(deep), history_long_depth=D["depth"],
                 history_life_cycle_sequences=len(hlife),
                 history_life_cycle_steps_rejected=sum(1 for r in hrecs for s_ in r["o"]["steps"] if s_["rel"] == "rejected"))
        if not any(s_["call"] in LIFE_OPS and s_["rel"] == "same" for r in hrecs for s_ in r["o"]["steps"]):
            raise MachineryError("no life-cycle step produced a copy: the copy / pickle dimension was not exercised")
        probe["life"] = next((r for r in hrecs if r["c"]["ang"] == "keyword" and r["c"]["calls"][0] in LIFE_OPS
                              and all(s_["rel"] == "same" for s_ in r["o"]["steps"])), None)

        # ---- the world: several objects alive in one process -------------------------------------------------------
        ctx.tlc("WcsMC.tla", what="world machine: every result equals the fresh object's in a fresh process (all interleavings)",
                cfg_text=cfg(constants=consts, init="InitW", next_="NextW", invariants=["WorldIndependent"]),
                workers=8, require=["ChooseWorld", "CallW"], timeout=3000)
        r = ctx.tlc("WcsMC.tla", what="self-test: a module-level memo of the inverse fit violates WorldIndependent",
                    cfg_text=cfg(constants=dict(consts, WorldVariant="module_memo", WorldLen=2, WorldKinds={"TPV"}), init="InitW", next_="NextW",
                                 invariants=["WorldIndependent"]), workers=1, allow_violation=True, coverage=False)
        if "WorldIndependent" not in r.violated:
            raise MachineryError("self-test failed: module_memo variant not caught")
        ws = _export(ctx, consts, "export every interleaving of %d calls on related objects" % B["WorldLen"], "InitW", "NextW", tag="WORLD")
        wplan = [(w_["hk"], hidx, w_["rels"], w_["calls"]) for w_ in ws for hidx in range(1)]
        # reset_world() must be as good as a new interpreter: a few references are recomputed in real fresh processes
        probes = [("TPV", 0, "cutout", "s2i_dp", 1), ("SIP", 0, "base", "s2i_dr", 0), ("TPV", 0, "cd", "s2i_dp", 2), ("TPV", 0, "base", "jac", 3)]
        procs = [(pk, subprocess_reference(*pk)) for pk in probes]
        cm = _quiet()
        try:
            with np.errstate(all="ignore"):
                allrel = lambda rels, o: (["base"] + list(rels))[int(o) - 1]  # noqa
                for key in sorted({(hk_, hidx, cl["call"], k % 4, "scalar", allrel(rels, cl["o"])) for (hk_, hidx, rels, calls) in wplan
                                   for k, cl in enumerate(calls)}):
                    _fresh(*key)
                for pk, pr in procs:
                    out = pr.communicate(timeout=300)[0]
                    line = [ln for ln in out.splitlines() if ln.startswith("REF ")]
                    want = _fresh(pk[0], pk[1], pk[3], pk[4], "scalar", pk[2])[0]
                    mine = "REF %s %s" % (want[0], " ".join(v.tobytes().hex() for v in want[1]) if want[0] == "ok" else want[1])
                    if not line or line[0].strip() != mine.strip():
                        raise MachineryError("reset_world() reference differs from a real fresh process for %s: %s vs %s" % (pk, line[:1], mine))
        finally:
            cm.__exit__(None, None, None)
        wrecs = pmap(obs_world, list(zip(ids(len(wplan)), wplan)))
        for r in wrecs:
            ctx.count({"kind": "world", "c": r["c"], "hidx": r["x"]["hidx"]})
        ctx.sample({"world": wrecs[len(wrecs) // 2]["c"], "observed": wrecs[len(wrecs) // 2]["o"]})
        recs += wrecs
        ctx.note(world_sequences=len(wrecs), world_steps_bitwise_identical=sum(1 for r in wrecs for s_ in r["o"]["steps"] if s_["rel"] == "same"),
                 world_steps=sum(len(r["o"]["steps"]) for r in wrecs))
        probe["world"] = next((r for r in wrecs if all(s_["rel"] == "same" for s_ in r["o"]["steps"])), None)
        nsteps = sum(len(r["o"]["steps"]) for r in hrecs)
        if not any(r["c"]["mode"] == "buffer" for r in hrecs):
            raise MachineryError("no history with a re-used argument buffer was exported")
        ctx.note(history_sequences=len(hrecs), history_steps=nsteps, history_sequences_reused_buffer=sum(1 for r in hrecs if r["c"]["mode"] == "buffer"),
                 history_steps_bitwise_identical=sum(1 for r in hrecs for s in r["o"]["steps"] if s["rel"] == "same"))
        probe["history"] = next((r for r in hrecs if all(s["rel"] == "same" for s in r["o"]["steps"])
                                 and not any(cl_ in LIFE_OPS for cl_ in r["c"]["calls"])), None)

    ctx.log("judging %d records" % len(recs))
    # ---- code -> spec: TLC judges every record -----------------------------------------------------------------------
    judge(ctx, recs, "judge all recorded observations (WcsTrace)")

    # ---- binding self-test: corrupted observations must be rejected, the originals not ----------------------------
    if not only:
        corrupt = []
        p = probe.get("class")
        if p:
            corrupt.append(({"id": 1, "kind": "class", "c": p["c"], "o": dict(p["o"], rel="off")}, "class_mates_differ"))
            cc = dict(p["c"]); cc["rep"] = [[p["c"]["rep"][0][0] + p["c"]["rep"][0][1], p["c"]["rep"][0][1]], p["c"]["rep"][1]]
            corrupt.append(({"id": 2, "kind": "class", "c": cc, "o": p["o"]}, "rep_not_in_class"))
        p = probe.get("anchor")
        if p:
            corrupt.append(({"id": 3, "kind": "anchor", "c": p["c"], "o": dict(p["o"], lat=[p["o"]["lat"][0] + 1, 0])}, "anchor_off"))
            corrupt.append(({"id": 4, "kind": "anchor", "c": p["c"], "o": dict(p["o"], inrange=False)}, "longitude_outside_0_360"))
        p = probe.get("roundtrip")
        if p:
            corrupt.append(({"id": 5, "kind": "roundtrip", "c": p["c"], "o": dict(p["o"], dev="off")}, "roundtrip_gt_1e-6_pixel"))
        p = probe.get("scalar")
        if p:
            corrupt.append(({"id": 6, "kind": "scalar", "c": p["c"], "o": dict(p["o"], rel=["off"] + list(p["o"]["rel"][1:]))}, "scalar_array_differ"))
        p = probe.get("history")
        if p:
            st = [dict(s) for s in p["o"]["steps"]]
            st[-1]["rel"] = "diff"
            corrupt.append(({"id": 7, "kind": "history", "c": p["c"], "o": {"steps": st}}, "result_depends_on_history"))
            st = [dict(s) for s in p["o"]["steps"]]
            st[0]["rel"] = "close"          # different bits within the tolerance: still a dependence on the history
            corrupt.append(({"id": 8, "kind": "history", "c": p["c"], "o": {"steps": st}}, "result_depends_on_history"))
        p = probe.get("world")
        if p:
            st = [dict(s_) for s_ in p["o"]["steps"]]
            st[-1]["rel"] = "close"
            corrupt.append(({"id": 11, "kind": "world", "c": p["c"], "o": {"steps": st}}, "result_depends_on_other_objects"))
        p = probe.get("repr")
        if p:
            corrupt.append(({"id": 9, "kind": "repr", "c": p["c"], "o": dict(p["o"], rel=list(p["o"]["rel"][:-1]) + ["off"])}, "representation_changes_result"))
            corrupt.append(({"id": 10, "kind": "repr", "c": p["c"], "o": {"err": "TypeError", "rel": []}}, "unexpected_error"))
        p = probe.get("angclass")
        if p:
            corrupt.append(({"id": 12, "kind": "angclass", "c": p["c"], "o": dict(p["o"], rel="off")}, "projection_angle_misapplied"))
            cc = dict(p["c"], ang=dict(p["c"]["ang"], lp=180))      # the representative of LONPOLE 90 is not that of the default
            corrupt.append(({"id": 13, "kind": "angclass", "c": cc, "o": p["o"]}, "rep_not_in_class"))
        p = probe.get("life")
        if p:
            st = [dict(s_) for s_ in p["o"]["steps"]]
            st[-1]["rel"] = "close"          # the copy answers differently from a fresh original
            corrupt.append(({"id": 14, "kind": "history", "c": p["c"], "o": {"steps": st}}, "result_depends_on_history"))
            st = [dict(s_) for s_ in p["o"]["steps"]]
            st[-1]["rel"] = "rejected"       # only a life-cycle step may be rejected
            corrupt.append(({"id": 15, "kind": "history", "c": p["c"], "o": {"steps": st}}, "result_depends_on_history"))
        originals = [{"id": 100 + i, "kind": probe[k]["kind"], "c": probe[k]["c"], "o": probe[k]["o"]}
                     for i, k in enumerate(sorted(probe)) if probe[k]]
        if len(corrupt) < 15:
            raise MachineryError("binding self-test: no accepted record of some kind to corrupt (%s)" % sorted(k for k in probe if probe[k]))
        saved = ctx.traces
        rej = tracecheck.validate(ctx, "WcsTrace.tla", [c for c, _ in corrupt] + originals, what="self-test: corrupted records rejected", workers=1)
        ctx.traces = saved
        for c, clause in corrupt:
            if clause not in rej.get(c["id"], []):
                raise MachineryError("binding self-test failed: corrupted %s record not rejected with %s (%s)" % (c["kind"], clause, rej.get(c["id"])))
        if any(o["id"] in rej for o in originals):
            raise MachineryError("binding self-test failed: an accepted record was rejected on re-validation")

    ctx.rule = ("WcsMC.tla exports every header of the bounded space (projection x CD id x CRPIX id x identity set + up to %d further "
                "coefficient(s) with 2 values each, SIP A_ORDER x B_ORDER independently in 2..%d x AP/BP orders absent / equal / crossed, PV keyword "
                "sets of the two axes from 4 unequal pairs) x pixel ids x distort, "
                "each with its exact World; every case is concretised on one of %d scales x %d reference points x %d CRPIX bases and "
                "compared with the pure-TAN member of its class; reference pixel on the CRVAL lattice (9 longitudes x 8 latitudes incl. "
                "poles, seam, eps offsets); gnomonic anchors theta in {30,45,60} x 4 directions x CRVAL lattice x signed-permutation CDs; "
                "seeded larger classes evaluated by TLC; realistic-header round trips x (distort, find); scalar-vs-array; input representations: "
                "every call x element type (python float/int, f8, f4, i8, i4, i2, u2) x container (scalar, array, list, 0-d, 2-d) x layout "
                "(contiguous, strided, reversed, byte-swapped, read-only) x 3 header kinds against the python-float scalar call; every call "
                "sequence of length %d over %d calls x 3 header kinds x (python scalars | one caller buffer overwritten in place, one call shorter); every "
                "sequence one call shorter over the alphabet with the documented options (xtol loose/default/tight, jacobian step/distort) and a call "
                "rejected half-way; long random sequences (tlc -simulate) over the whole alphabet; every interleaving of 3 calls on two (thorough: three) "
                "objects alive in one process built from related headers (same / cutout / other CD / other CRVAL), each result against a fresh object "
                "in a re-initialised module (validated against real fresh interpreters).  A case is distinct by its abstract record + concretisation index "
                "and non-trivial always (each performs at least one transformation)" %
                (B["MaxExtra"] if tier == "quick" else 2, B["SipMaxOrder"], len(L.SCALES), len(L.CRVALS), len(L.CRPIX_BASE),
                 B["MaxHist"], len(B["HistCalls"])))
    ctx.exhaustive = True
    ctx.note(bounds={k: sorted(v) if isinstance(v, set) else v for k, v in B.items()})
    ctx.assumptions = [
        "PV coefficient sets are complete (scamp style: every supported key present, PVi_1 = 1); radial PV terms (PVi_3, PVi_11) are outside the supported order",
        "equality with the FITS reference at arbitrary pixels is decided through class equivalence with a pure-TAN header plus exact anchors; the arctan / rotation numerics between anchors and the accuracy of the fitted inverse polynomial (find=False) are not decided (finite only)",
        "separations are great-circle separations (a longitude difference counts with cos(latitude)); CRVAL2 = +90 exactly: LONPOLE 180 (documented default) and the FITS default 0 both accepted",
        "input representations: the value of an argument is the exact number it denotes (float32 included), the result must agree with the python-float scalar call within the call's tolerance; python lists, 0-d and 2-d arrays may be rejected (the documentation promises scalars or arrays) but must not give a different value",
        "fresh process state is obtained by re-executing the wcsutil module (importlib.reload) before every reference and every multi-object history; four references per run are recomputed in real fresh interpreters and must agree bit for bit",
        "history independence is demanded bit for bit (used object vs fresh object, same deterministic code, same arguments; two fresh objects are first checked to agree)",
    ]
    ctx.trusted_base = ctx.trusted_base + ["long-double great-circle separation kernel (validated on the lattice every run)",
                                           "float(Fraction) on dyadic lattice values (checked exact), one correctly rounded gnomonic radius per anchor"]


# =====================================================================================================
def replay(ctx, case):
    k = case["kind"]
    if k == "class":
        r = obs_class((1, case["c"], case["k"]))
    elif k == "angclass":
        r = obs_angclass((1, case["c"], case["k"]))
    elif k == "anchor":
        r = obs_anchor((1, case["c"], case["k"]))
        r["_case"] = case["c"]
    elif k == "refpix":
        r = obs_refpix((1, case["c"], case["k"]))
        r["_case"] = case["c"]
    elif k == "roundtrip":
        c, o, x_ = roundtrip_one(_wcs().WCS, case["hdr"], case["hk"], case["pix"][0], case["pix"][1], case["distort"], case["find"])
        x_["plan"] = []
        r = {"id": 1, "kind": k, "c": c, "o": o, "x": x_}
    elif k == "scalar":
        r = obs_scalar((1, tuple(case["plan"])))
    elif k == "history":
        r = obs_history((1, (case["hk"], case["hidx"], case["calls"], case.get("mode", "scalar"), case.get("ang", "default"))))
    elif k == "world":
        r = obs_world((1, (case["hk"], case["hidx"], case["rels"], case["calls"])))
    elif k == "repr":
        r = obs_repr((1, (case["c"], case["hidx"])))
        repr_mark_base([r, obs_repr((2, (_repr_base(case["c"]), case["hidx"])))])
    else:
        raise MachineryError("unknown replay kind %s" % k)
    print("replay observed:", {kk: r[kk] for kk in ("kind", "o")}, {kk: v for kk, v in r.get("x", {}).items() if kk != "hdr"})
    judge(ctx, [r], "replay")
