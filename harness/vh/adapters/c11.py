"""C11 - cosmological distances equal their Hogg (1999) definitions.

spec -> code : CosmoMC.tla enumerates constructor arguments x redshift pairs, copy /
               pickle chains (behaviours of the object graph) and argument-shape pairs of
               the vectorised entry points, and exports them together with everything
               that is exact about them (allowed reported parameters, E^2(z), EdS anchors,
               which identities of Cosmo.tla's catalogue apply).  Every exported case is
               executed against the real Cosmo class.
code -> spec : what the real code returned is written as ndjson - reported parameters
               projected on the rational lattice, identity residuals as integer numbers of
               ulp / ppb, element-vs-scalar bit equality, per-step copy observations - and
               judged by CosmoTrace.tla (tolerances and applicability live in Cosmo.tla).
               A seeded sample on a finer parameter lattice goes the same way (TLC derives
               the exact values for the sampled cases first: NextFile).
Python never judges: it evaluates the expression trees exported from the specification
with exact rational arithmetic (vh/cosmolat.py) and records.
"""
import copy as _copy
import gc
import json
import os
import pickle
import shutil
import subprocess
import sys
import tempfile
import warnings
from concurrent.futures import ThreadPoolExecutor

import numpy as np

from .. import cosmolat as lat
from .. import tracecheck
from ..core import MachineryError
from ..par import pmap
from ..tlc import cfg

NEEDS_EXT = True

ALL_OM, ALL_CURV, ALL_H = set(range(1, 6)), set(range(1, 16)), set(range(1, 11))
ALL_Q = {"Dc", "Dm", "Da", "Dl", "sigmacritinv", "Ez_inverse", "dV", "distmod"}
ALL_DT = {"f8", "f4", "i8", "i4", ">f8", ">f4", ">i8"}
ALL_LAY = {"contig", "strided", "reversed", "zerod", "f2d"}
BOUNDS = {
    "quick": dict(
        ctor=dict(OmIdx=ALL_OM, CurvIdx=ALL_CURV, HIdx=ALL_H, HMix=False),
        scalar=dict(OmIdx={1, 2, 3, 4}, CurvIdx={1, 3, 4, 5, 6, 9, 11}, HIdx={2, 3, 4, 5, 6, 8}, HMix=True,
                    ZIdx={1, 3, 5, 7, 8, 12, 14}),
        copy=dict(OmIdx={2, 3, 5}, CurvIdx={1, 2, 4, 5, 9, 11, 12, 13, 14, 15}, HIdx={1, 2, 5, 6, 9}, HMix=True),
        # every representation of either argument with every quantity in every call form; partners by covering design
        dispatch=dict(Quants=ALL_Q, Dts=ALL_DT, Lays=ALL_LAY, MaxLen=3, Pairing="cover"),
        # lengths at and across the 65536-element block boundaries, every quantity in every array form
        scale=dict(ScaleLens={65535, 65536, 65537, 131072, 1048576}),
        threads=dict(nthreads=6, rounds=4, n=120000),
        # sessions over twin objects in one process: every 4-step session over 4 twins (3 objects), every 5-step session over 2 twins (2 objects)
        world=[dict(KIdx={1, 2, 3, 4}, MaxSteps=4, Kinds={"copy", "pickle"}, Cover=True),
               dict(KIdx={1, 4}, MaxSteps=5, Kinds={"pickle"}, MaxObj=2, Cover=True)],
        nrandom=300),
    "thorough": dict(
        ctor=dict(OmIdx=ALL_OM, CurvIdx=ALL_CURV, HIdx=ALL_H, HMix=False),
        scalar=dict(OmIdx={1, 2, 3, 4}, CurvIdx=ALL_CURV, HIdx={2, 5, 6}, HMix=False,
                    ZIdx={1, 2, 3, 4, 5, 7, 8, 10, 11, 12, 14, 15, 17}),
        copy=dict(OmIdx=ALL_OM, CurvIdx=ALL_CURV, HIdx=ALL_H, HMix=False),
        dispatch=dict(Quants=ALL_Q, Dts=ALL_DT, Lays=ALL_LAY, MaxLen=3, Pairing="full"),      # the full product
        scale=dict(ScaleLens={4099, 65521, 65535, 65536, 65537, 131071, 131072, 131073, 196608, 262144, 1048575, 1048576, 1048577,
                              2097152}),
        threads=dict(nthreads=8, rounds=8, n=250000),
        world=[dict(KIdx={1, 2, 3, 4, 5, 6}, MaxSteps=4, Kinds={"copy", "copy.copy", "deepcopy", "pickle"}, Cover=False),
               dict(KIdx={1, 2, 4, 6}, MaxSteps=5, Kinds={"copy", "deepcopy", "pickle"}, Cover=True)],
        nrandom=6000),
}
DEFAULTS = dict(OmIdx={1}, CurvIdx={1}, HIdx={1}, HMix=False, ZIdx={1}, ChainLen=3, Quants={"Dc"}, Dts={"f8"}, Lays={"contig"}, MaxLen=1,
                Pairing="full", ScaleLens={3}, NThreads=2, DoExport=False,
                Deviate=False)

# the three cosmologies the dispatch machine is run on (flat, open, closed)
DISPATCH_COSMO = [dict(H0=70.0, omega_m=0.3), dict(H0=70.0, flat=False, omega_m=0.3, omega_l=0.6, omega_k=0.1),
                  dict(h=0.72, flat=False, omega_m=0.3, omega_l=0.8, omega_k=-0.1)]
# calls whose results must be bit-identical on a copy
BATTERY = ([(q, (0.25, 1.5)) for q in ("Ezinv_integral", "Dc", "Dm", "Da", "Dl", "V", "sigmacritinv")] +
           [(q, (0.0, 3.0)) for q in ("Dc", "Dm", "Da", "Dl", "V", "sigmacritinv")] +
           [(q, (0.75,)) for q in ("Ez_inverse", "dV", "distmod")])

IDENTS = {}          # name -> identity (expression trees), exported from Cosmo.tla at run time


# ---- abstract -> concrete -----------------------------------------------------------------
def _isnone(nd):
    return nd[1] == 0


def ctor_kwargs(args, variant=0):
    """constructor keywords for abstract args; absent values are not passed"""
    kw = {}
    for key, name in (("H0", "H0"), ("h", "h"), ("om", "omega_m"), ("ol", "omega_l"), ("ok", "omega_k")):
        if not _isnone(args[key]):
            n, d = args[key]
            kw[name] = int(n) if (d == 1 and key == "H0" and variant % 3 == 1) else float(lat.frac(args[key]))
    if not args["flat"] or variant % 2 == 0:      # flat=True is the default: pass it explicitly half of the time
        kw["flat"] = bool(args["flat"])
    return kw


def construct(args, variant=0):
    from esutil.cosmology import Cosmo
    return Cosmo(**ctor_kwargs(args, variant))


PNAMES = ("H0", "DH", "flat", "omega_m", "omega_l", "omega_k")


def raw_params(obj):
    return (obj.H0(), obj.DH(), obj.flat(), obj.omega_m(), obj.omega_l(), obj.omega_k())


def reported(obj):
    """the reported parameters, projected on the lattice"""
    H0, DH, flat, om, ol, ok = raw_params(obj)
    return {"H0": lat.project(H0), "DH": lat.project(DH), "flat": bool(flat),
            "om": lat.project(om), "ol": lat.project(ol), "ok": lat.project(ok)}


def _bits(v):
    return np.asarray(v, dtype="f8").tobytes().hex()


def battery(obj):
    out = []
    with warnings.catch_warnings():
        warnings.simplefilter("ignore")
        with np.errstate(all="ignore"):
            for q, xs in BATTERY:
                out.append(_bits(getattr(obj, q)(*xs)))
    return out


# ---- executing one exported case -> one record ------------------------------------------------
NODER = {"E2a": lat.OFF, "E2b": lat.OFF, "Sa": lat.OFF, "Sb": lat.OFF, "eds": lat.OFF}


def run_ctor(item):
    i, c = item
    rec = {"id": i, "t": "ctor", "args": c["args"], "err": "none", "rep": dict(NOREP)}
    try:
        obj = construct(c["args"], i)
        rec["rep"] = reported(obj)
        rec["raw"] = [repr(v) for v in raw_params(obj)]
    except Exception as e:  # noqa
        rec["err"] = type(e).__name__
    rec["case"] = dict(c, variant=i)
    return rec


NOREP = {"H0": lat.OFF, "DH": lat.OFF, "flat": True, "om": lat.OFF, "ol": lat.OFF, "ok": lat.OFF}


def run_scalar(item):
    i, c = item
    rec = {"id": i, "t": "scalar", "args": c["args"], "a": c["a"], "b": c["b"], "err": "none", "rep": dict(NOREP),
           "der": dict(NODER), "res": {"_": [0, 0]}, "info": {}, "case": dict(c, variant=i)}
    try:
        obj = construct(c["args"], i)
    except Exception as e:  # noqa
        rec["err"] = type(e).__name__
        return rec
    rec["rep"] = rep = reported(obj)
    out = next((o for o in c["outs"] if o["p"] == rep), None)     # which allowed reading the code took
    if out is None:
        return rec
    rec["der"] = out["der"]
    ev = lat.Evaluator(obj, lat.frac(c["a"]), lat.frac(c["b"]), out["der"], out["p"])
    with warnings.catch_warnings():
        warnings.simplefilter("ignore")
        for name in out["need"]:
            rec["res"][name], rec["info"][name] = ev.residual(IDENTS[name])
    return rec


def run_dispatch(item):
    i, c = item
    from esutil.cosmology import Cosmo
    ck = c.get("ck", i % len(DISPATCH_COSMO))
    obj = Cosmo(**DISPATCH_COSMO[ck])
    q, sa, sb = c["q"], c["sa"], c["sb"]
    A, B = lat.concretise(sa, 0), lat.concretise(sb, 1)
    snap = [x.tobytes() if isinstance(x, np.ndarray) else repr(x) for x in (A, B)]
    f = getattr(obj, q)
    live = sorted((e for e in c["allowed"] if e["kind"] != "rejected"), key=lambda e: (e["kind"], len(e["pairs"])))
    pairs = live[0]["pairs"] if live else []
    obs = {"kind": "rejected", "len": 0, "eq": [], "err": "none"}
    with warnings.catch_warnings():
        warnings.simplefilter("ignore")
        with np.errstate(all="ignore"):
            try:
                res = f(A) if B is None else f(A, B)
                if isinstance(res, np.ndarray) and res.ndim >= 1:
                    obs["kind"], vals = "array", [float(v) for v in res.ravel()]      # C order
                else:
                    obs["kind"], vals = "scalar", [float(res)]
                obs["len"] = len(vals)
                # the allowed outcome the code took (kind and length); its pairs say which scalar calls to compare with
                fit = [e for e in live if e["kind"] == obs["kind"] and len(e["pairs"]) == len(vals)]
                pairs = fit[0]["pairs"] if fit else pairs
                for k, pr in enumerate(pairs[:len(vals)]):
                    xs = (lat.element(sa, 0, pr[0]),) if B is None else (lat.element(sa, 0, pr[0]), lat.element(sb, 1, pr[1]))
                    obs["eq"].append(_bits(vals[k]) == _bits(f(*xs)))        # two implementation outputs, same VALUES
            except Exception as e:  # noqa
                obs = {"kind": "rejected", "len": 0, "eq": [], "err": type(e).__name__}
    frame_ok = snap == [x.tobytes() if isinstance(x, np.ndarray) else repr(x) for x in (A, B)]
    return {"id": i, "t": "dispatch", "q": q, "sa": sa, "sb": sb, "pairs": pairs, "obs": obs, "frame_ok": frame_ok,
            "case": dict(c, ck=ck)}


def _do_copy(kind, obj, sel=0):
    if kind == "copy":
        return obj.copy()
    if kind == "copy.copy":
        return _copy.copy(obj)
    if kind == "deepcopy":
        return _copy.deepcopy(obj)
    if kind == "pickle":
        return pickle.loads(pickle.dumps(obj, protocol=pickle.HIGHEST_PROTOCOL if sel % 2 else 2))
    raise ValueError(kind)


def run_copy(item):
    i, c = item
    rec = {"id": i, "t": "copy", "args": c["args"], "chain": c["chain"], "err": "none", "rep0": dict(NOREP),
           "steps": [], "case": dict(c, variant=i)}
    try:
        root = construct(c["args"], i)
    except Exception as e:  # noqa
        rec["err"] = type(e).__name__
        return rec
    rec["rep0"] = reported(root)
    p0, b0 = raw_params(root), battery(root)
    cur = root
    for step, kind in enumerate(c["chain"]):
        st = {"err": "none", "rep": dict(NOREP), "same_params": False, "same_dist": False}
        try:
            cur = _do_copy(kind, cur, i + step)
            st["rep"] = reported(cur)
            pc = raw_params(cur)
            st["same_params"] = bool(pc == p0)                         # two implementation outputs
            st["diff"] = [n for n, x, y in zip(PNAMES, pc, p0) if x != y]
            st["same_dist"] = bool(battery(cur) == b0 and battery(root) == b0)
        except Exception as e:  # noqa
            st["err"] = type(e).__name__
            rec["steps"].append(st)
            break
        rec["steps"].append(st)
    while len(rec["steps"]) < len(c["chain"]):
        rec["steps"].append({"err": "not_reached", "rep": dict(NOREP), "same_params": False, "same_dist": False})
    return rec


def _u64(a):
    return np.ascontiguousarray(a, dtype="f8").view("u8")


def _scale_args(form, n, shift=0, scal=None):
    """concrete arguments of an array call of `form` whose array argument(s) tile the 3-entry value table"""
    sc = scal or lat.SCALAR["float"]
    def tile(which):
        base = np.array(lat.VALS["float"][which], dtype="f8")
        return np.roll(np.tile(base, (n + 2) // 3 + 1), -shift)[:n].copy()
    if form == "vec":
        return (tile(0),)
    if form == "vec1":
        return (tile(0), float(sc[1]))
    if form == "vec2":
        return (float(sc[0]), tile(1))
    return (tile(0), tile(1))


def _slice_args(xs, lo, hi):
    return tuple(x[lo:hi] if isinstance(x, np.ndarray) else x for x in xs)


PART = 4099          # part length of the partition (prime: parts never align with power-of-two blocks)


def run_scale(item):
    i, c = item
    from esutil.cosmology import Cosmo
    ck = c.get("ck", i % len(DISPATCH_COSMO))
    obj = Cosmo(**DISPATCH_COSMO[ck])
    q, form, n, B = c["q"], c["form"], c["n"], c["block"]
    f = getattr(obj, q)
    xs = _scale_args(form, n)
    obs = {"kind": "rejected", "len": 0, "blocks": [], "parts_eq": False, "samples": [], "err": "none"}
    info = {}
    with warnings.catch_warnings():
        warnings.simplefilter("ignore")
        with np.errstate(all="ignore"):
            try:
                res = f(*xs)
                if isinstance(res, np.ndarray) and res.ndim >= 1:
                    obs["kind"] = "array"
                    bits = _u64(res.ravel())
                    obs["len"] = int(bits.size)
                    if bits.size == n:
                        small = _u64(np.atleast_1d(f(*_slice_args(xs, 0, 3))).ravel())          # the same call on the first period
                        expect = np.tile(small, (n + 2) // 3)[:n] if small.size == 3 else np.zeros(0, "u8")
                        for k in range((n + B - 1) // B):
                            lo, hi = k * B, min(n, (k + 1) * B)
                            ok = bool(expect.size == n and np.array_equal(bits[lo:hi], expect[lo:hi]))
                            obs["blocks"].append([lo, hi - lo, ok])
                            if not ok and "first_bad" not in info:
                                w = np.nonzero(bits[lo:hi] != expect[lo:hi])[0] if expect.size == n else [0]
                                info["first_bad"] = int(lo + w[0])
                                info["n_bad_in_block"] = int(len(w))
                        parts = [_u64(np.atleast_1d(f(*_slice_args(xs, lo, min(n, lo + PART)))).ravel()) for lo in range(0, n, PART)]
                        cat = np.concatenate(parts)
                        obs["parts_eq"] = bool(cat.size == n and np.array_equal(cat, bits))
                        info["digest"] = [lat.digest(bits), lat.digest(cat)]
                        vals = res.ravel()
                        for pos, ia, ib in c["samples"]:
                            a = (lat.element(FLOATREP, 0, ia),) if form == "vec" else (lat.element(FLOATREP, 0, ia), lat.element(FLOATREP, 1, ib))
                            obs["samples"].append([pos, ia, ib, _bits(vals[pos - 1]) == _bits(f(*a))])
                else:
                    obs["kind"], obs["len"] = "scalar", 1
            except Exception as e:  # noqa
                obs = {"kind": "rejected", "len": 0, "blocks": [], "parts_eq": False, "samples": [], "err": type(e).__name__}
    return {"id": i, "t": "scale", "q": q, "form": form, "n": n, "block": B, "obs": obs, "info": info, "case": dict(c, ck=ck)}


FLOATREP = {"cls": "pyfloat", "dt": "float", "lay": "na", "len": 0}


def run_threads(item):
    """several threads call ONE shared object concurrently (barrier start), each with its own scalar argument / its own
    rotation of the array; every result is compared with the result of the same call made alone (sequentially)"""
    import threading
    i, c = item
    from esutil.cosmology import Cosmo
    ck = c.get("ck", i % len(DISPATCH_COSMO))
    obj = Cosmo(**DISPATCH_COSMO[ck])
    q, form, T, R, n = c["q"], c["form"], c["nthreads"], c["rounds"], c["n"]
    f = getattr(obj, q)
    calls = []
    for t in range(T):
        sc = (0.125 + 0.125 * t, 3.0 + 0.25 * t)          # thread t's own scalar (e.g. its own lens redshift), dyadic
        calls.append(_scale_args(form, n, shift=t, scal=sc))
    mism = [0] * T
    err = "none"
    with warnings.catch_warnings():
        warnings.simplefilter("ignore")
        with np.errstate(all="ignore"):
            try:
                ref = [_u64(np.atleast_1d(f(*xs)).ravel()).copy() for xs in calls]          # sequential answers
                for _ in range(R):
                    out = [None] * T
                    bar = threading.Barrier(T)

                    def work(t):
                        try:
                            bar.wait()
                            with np.errstate(all="ignore"):
                                out[t] = _u64(np.atleast_1d(f(*calls[t])).ravel())
                        except Exception as e:  # noqa
                            out[t] = e
                    ths = [threading.Thread(target=work, args=(t,)) for t in range(T)]
                    for th in ths:
                        th.start()
                    for th in ths:
                        th.join()
                    for t in range(T):
                        if isinstance(out[t], Exception) or out[t] is None or not np.array_equal(out[t], ref[t]):
                            mism[t] += 1
            except Exception as e:  # noqa
                err = type(e).__name__
                mism = [R] * T
    return {"id": i, "t": "threads", "q": q, "form": form, "nthreads": T, "mism": mism, "err": err, "case": dict(c, ck=ck)}


# ---- world sessions: several twin objects in ONE process, judged against the fresh world ------------------------------
HARNESS = os.path.dirname(os.path.dirname(os.path.dirname(os.path.abspath(__file__))))
WORLD_DEFAULTS = dict(KIdx={1}, MaxObj=3, MaxSteps=4, Kinds={"copy"}, WIdx=set(range(1, 13)), Cover=True, DoExport=False, Deviate=False)
_FNAME = {"H0": "H0", "h": "h", "om": "omega_m", "ol": "omega_l", "ok": "omega_k"}
CLIGHT = float(lat.frac([149896229, 500]))          # Cosmo.tla CCLight


def twin_kwargs(args, f, k):
    """constructor keywords of the twin k of args' field f: the lattice value times (1 + k 1e-9), as the nearest binary64"""
    from fractions import Fraction
    kw = ctor_kwargs(args, 0)
    kw[_FNAME[f]] = float(lat.frac(args[f]) * (1 + Fraction(int(k), 10 ** 9)))
    return kw


def twin_given(args, kw):
    """what the getters have to return for these keywords (single reading of the arguments: CTwinLive)"""
    H0 = 100.0 * kw["h"] if "h" in kw else kw.get("H0", 100.0)
    om = kw.get("omega_m", 0.3)
    curved = (not args["flat"]) and not _isnone(args["ok"]) and args["ok"][0] != 0
    ol, ok = (kw.get("omega_l", 0.7), kw["omega_k"]) if curved else (1.0 - om, 0.0)
    return [H0, CLIGHT / H0, float(not curved), om, ol, ok]


def world_session(job):
    """execute one session (list of steps) in this process; returns the raw observation of every step"""
    from esutil.cosmology import Cosmo
    args, f, za, zb = job["args"], job["f"], float(lat.frac(job["a"])), float(lat.frac(job["b"]))
    objs, out = {}, []
    with warnings.catch_warnings():
        warnings.simplefilter("ignore")
        for n, s in enumerate(job["steps"]):
            o = {"err": "none"}
            try:
                if s["op"] == "new":
                    objs[s["o"]] = Cosmo(**twin_kwargs(args, f, s["k"]))
                elif s["op"] == "copy":
                    objs[s["o"]] = _do_copy(s["kind"], objs[s["src"]], n)
                elif s["op"] == "drop":
                    del objs[s["o"]]
                    gc.collect()
                elif s["op"] == "probe":
                    obj = objs[s["o"]]
                    o["params"] = [float(v).hex() for v in raw_params(obj)]
                    o["calls"] = battery(obj)
                    with np.errstate(all="ignore"):
                        o["dc"] = float(obj.Dc(za, zb)).hex()
                    if job.get("oracle"):
                        # the exact oracle at the twin's own parameters (the binary64 numbers it was given, as exact rationals)
                        from fractions import Fraction
                        k, _ = _birth(job["steps"], s["o"])
                        g = twin_given(args, twin_kwargs(args, f, k))
                        pars = {n: [Fraction(v).numerator, Fraction(v).denominator] for n, v in zip(("H0", "DH", "flat", "om", "ol", "ok"), g)}
                        ev = lat.Evaluator(obj, lat.frac(job["a"]), lat.frac(job["b"]), NODER, pars)
                        o["res"], o["resinfo"] = {}, {}
                        for name in WORLD_IDENTS:
                            o["res"][name], o["resinfo"][name] = ev.residual(job["idents"][name])
                else:
                    raise ValueError(s["op"])
            except Exception as e:  # noqa
                o["err"] = type(e).__name__
            out.append(o)
    return out


WORLD_IDENTS = ("gl5", "gl5_alt", "gl5_coarse", "dc")
NORES = {n: [0, 0] for n in WORLD_IDENTS}


def _birth(steps, o):
    """the fresh-world session that makes object o and probes it: its twin and the copy kinds that led to it"""
    st = next(s for s in steps if s["op"] in ("new", "copy") and s["o"] == o)
    if st["op"] == "new":
        return st["k"], ()
    k, kinds = _birth(steps, st["src"])
    return k, kinds + (st["kind"],)


def _birth_session(k, kinds):
    steps = [{"op": "new", "o": 1, "k": k, "src": 0, "kind": "na"}]
    for j, kd in enumerate(kinds):
        steps.append({"op": "copy", "o": j + 2, "k": 0, "src": j + 1, "kind": kd})
    steps.append({"op": "probe", "o": len(kinds) + 1, "k": 0, "src": 0, "kind": "na"})
    return steps


def fresh_world(tree, jobs):
    """every job (session) in a process of its own, forked from a freshly started interpreter that has imported esutil
    and built no Cosmo"""
    if not jobs:
        return []
    d = tempfile.mkdtemp(prefix="C11-world-", dir="/tmp")
    try:
        nproc = max(1, min(16, os.cpu_count() or 1, int(os.environ.get("VH_MAX_WORKERS", "16"))))
        with open(os.path.join(d, "in.json"), "w") as fh:
            json.dump({"tree": tree, "jobs": jobs, "nproc": nproc}, fh)
        env = dict(os.environ)
        env["PYTHONPATH"] = os.pathsep.join([tree, HARNESS] + ([env["PYTHONPATH"]] if env.get("PYTHONPATH") else []))
        r = subprocess.run([sys.executable, "-c", "from vh.adapters import c11; c11._world_main(%r)" % d], env=env,
                           stdout=subprocess.PIPE, stderr=subprocess.PIPE, text=True, timeout=3000)
        outp = os.path.join(d, "out.json")
        if r.returncode != 0 or not os.path.exists(outp):
            raise MachineryError("fresh-world runner failed (rc %s): %s" % (r.returncode, (r.stderr or r.stdout)[-1500:]))
        with open(outp) as fh:
            res = json.load(fh)
        if len(res) != len(jobs):
            raise MachineryError("fresh-world runner returned %d results for %d sessions" % (len(res), len(jobs)))
        return res
    finally:
        shutil.rmtree(d, ignore_errors=True)


def _world_main(d):
    """entry point of the fresh interpreter (see fresh_world)"""
    import multiprocessing as mp
    with open(os.path.join(d, "in.json")) as fh:
        req = json.load(fh)
    import esutil
    import esutil.cosmology  # noqa
    if not os.path.realpath(esutil.__file__).startswith(os.path.realpath(req["tree"])):
        sys.exit("esutil imported from %s, not from %s" % (esutil.__file__, req["tree"]))
    with mp.get_context("fork").Pool(max(1, min(req["nproc"], len(req["jobs"]))), maxtasksperchild=1) as pool:
        res = pool.map(world_session, req["jobs"], chunksize=1)
    with open(os.path.join(d, "out.json.tmp"), "w") as fh:
        json.dump(res, fh)
    os.replace(os.path.join(d, "out.json.tmp"), os.path.join(d, "out.json"))


def _ulps(x, want):
    if x == want:
        return 0
    if not (np.isfinite(x) and np.isfinite(want)):
        return -1
    from fractions import Fraction
    q = abs(Fraction(x) - Fraction(want)) / (lat.ULP * max(abs(Fraction(want)), 1))
    return int(min(lat.CAP, -((-q.numerator) // q.denominator)))


def run_world(tree, items):
    """items: (id, case).  Every session in its own pristine process; every object of a session also alone in a pristine
    process (the fresh world); the record relates the two (implementation outputs) and the getters to the given values"""
    refkeys, jobs = {}, []
    if not all(n in IDENTS for n in WORLD_IDENTS):
        raise MachineryError("identity catalogue not loaded before the world sessions")
    idents = {n: IDENTS[n] for n in WORLD_IDENTS}
    for _, c in items:
        jobs.append({"args": c["args"], "f": c["f"], "a": c["a"], "b": c["b"], "steps": c["steps"], "idents": idents})
    for _, c in items:
        for s in c["steps"]:
            if s["op"] == "probe":
                key = (json.dumps(c["args"], sort_keys=True), c["f"]) + _birth(c["steps"], s["o"])
                if key not in refkeys:
                    refkeys[key] = len(jobs)
                    jobs.append({"args": c["args"], "f": c["f"], "a": c["a"], "b": c["b"], "steps": _birth_session(key[2], key[3]),
                                 "idents": idents, "oracle": True})
    res = fresh_world(tree, jobs)
    recs = []
    for n, (i, c) in enumerate(items):
        obs, info, lastdc = [], [], {}
        for s, o in zip(c["steps"], res[n]):
            ob = {"err": o["err"], "dev": 0, "same_params": True, "same_calls": True, "res": dict(NORES)}
            if s["op"] == "probe" and o["err"] == "none":
                k, kinds = _birth(c["steps"], s["o"])
                ref = res[refkeys[(json.dumps(c["args"], sort_keys=True), c["f"], k, kinds)]][-1]
                got = [float.fromhex(v) for v in o["params"]]
                want = twin_given(c["args"], twin_kwargs(c["args"], c["f"], k))
                devs = [_ulps(x, w) for x, w in zip(got, want)]
                ob["dev"] = -1 if min(devs) < 0 else max(devs)
                ob["same_params"] = bool(ref["err"] == "none" and ref["params"] == o["params"])
                ob["same_calls"] = bool(ref["err"] == "none" and ref["calls"] == o["calls"] and ref["dc"] == o["dc"])
                # identity residuals of the fresh-world twin (evaluated once per twin); they are the probe's own when same_calls
                ob["res"] = ref["res"] if ref["err"] == "none" else {n: [-1, 0] for n in WORLD_IDENTS}
                lastdc[s["o"]] = float.fromhex(o["dc"])
                info.append({"step": len(obs) + 1, "o": s["o"], "twin": k, "given": [repr(w) for w in want], "got": [repr(x) for x in got],
                             "dc": repr(lastdc[s["o"]]), "fresh_world_dc": repr(float.fromhex(ref["dc"])) if ref["err"] == "none" else ref["err"],
                             "battery_differs": [BATTERY[j][0] for j in range(len(BATTERY))
                                                 if ref["err"] == "none" and ref["calls"][j] != o["calls"][j]],
                             "fresh_world_residuals": ref.get("resinfo")})
            elif s["op"] == "probe":
                ob["dev"], ob["same_params"], ob["same_calls"] = -1, False, False
            obs.append(ob)
        probed = sorted({s["o"] for s in c["steps"] if s["op"] == "probe"})
        signs = []
        for x in probed:
            for y in probed:
                if x < y:
                    dx, dy = lastdc.get(x), lastdc.get(y)
                    ok = dx is not None and dy is not None and np.isfinite(dx) and np.isfinite(dy)
                    signs.append([x, y, int((dx > dy) - (dx < dy)) if ok else 2])
        recs.append({"id": i, "t": "world", "args": c["args"], "f": c["f"], "a": c["a"], "b": c["b"], "steps": c["steps"], "obs": obs,
                     "signs": signs, "info": info, "case": dict(c)})
    return recs


RUNNERS = {"ctor": run_ctor, "scalar": run_scalar, "dispatch": run_dispatch, "copy": run_copy, "scale": run_scale,
           "threads": run_threads}
TRACE_FIELDS = {"ctor": ("id", "t", "args", "err", "rep"),
                "scalar": ("id", "t", "args", "a", "b", "err", "rep", "der", "res"),
                "dispatch": ("id", "t", "q", "sa", "sb", "pairs", "obs"),
                "copy": ("id", "t", "args", "chain", "err", "rep0", "steps"),
                "scale": ("id", "t", "q", "form", "n", "block", "obs"),
                "threads": ("id", "t", "q", "form", "nthreads", "mism"),
                "world": ("id", "t", "args", "f", "a", "b", "steps", "obs", "signs")}


def run_any(item):
    return RUNNERS[item[1]["t"]](item)


def trace_view(r):
    v = {k: r[k] for k in TRACE_FIELDS[r["t"]]}
    if r["t"] == "dispatch":
        v["obs"] = {k: r["obs"][k] for k in ("kind", "len", "eq")}
    if r["t"] == "scale":
        v["obs"] = {k: r["obs"][k] for k in ("kind", "len", "blocks", "parts_eq", "samples")}
    return v


# ---- signatures ---------------------------------------------------------------------------------
def _argclass(args, clause=""):
    """structural class of the constructor arguments, restricted to what the clause depends on"""
    hub = "H0=%s,h=%s" % ("default" if _isnone(args["H0"]) else "given", "absent" if _isnone(args["h"]) else "given")
    if clause in ("norm_H0", "norm_DH"):
        return hub
    ok = "none" if _isnone(args["ok"]) else ("zero" if args["ok"][0] == 0 else "nonzero")
    curv = "flat=%s,omega_k=%s,omega_l=%s" % (args["flat"], ok, "default" if _isnone(args["ol"]) else "given")
    return curv + "," + hub if clause == "constructor_rejected" else curv


_CLASS_ORDER = ("byteswapped", "f2d", "zerod", "reversed", "strided", "converted", "f8", "npscalar", "pyint", "scalar")


def _shapeclass(s):
    """structural class of one argument representation"""
    cls = s["cls"]
    if cls in ("pyfloat", "absent"):
        return "scalar"
    if cls in ("pyint", "npscalar"):
        return cls
    if cls in ("list", "tuple"):
        return "converted"
    if s["dt"].startswith(">"):
        return "byteswapped"
    if s["lay"] != "contig":
        return s["lay"]
    return "f8" if s["dt"] == "f8" else "converted"


def signature(r, clause):
    t = r["t"]
    if clause.startswith("norm_") or clause == "constructor_rejected":
        return "Cosmo()|%s|%s" % (clause, _argclass(r["args"], clause))
    if t == "scalar":
        return "%s|%s|scalar" % (IDENTS[clause]["entry"] if clause in IDENTS else "Cosmo", clause)
    if t == "dispatch":
        if clause == "mismatched_lengths_not_rejected":
            return "%s|%s|array,array" % (r["q"], clause)
        cls = {_shapeclass(r["sa"]), _shapeclass(r["sb"])}        # the most exotic array class involved
        top = next((k for k in _CLASS_ORDER if k in cls), "scalar")
        return "%s|%s|%s" % (r["q"], clause, top)
    if t == "scale":
        n, B = r["n"], r["block"]
        cls = "multiple-of-block" if n % B == 0 else ("below-block" if n < B else "non-multiple")
        return "%s|%s|%s" % (r["q"], clause, cls)
    if t == "threads":
        return "%s|%s|%s" % (r["q"], clause, r["form"])
    if t == "world":
        return "Cosmo()|%s|twin_of=%s" % (clause, _FNAME.get(r["f"], r["f"]))
    if t == "copy":
        bad = next(((k, s) for k, s in zip(r["chain"], r["steps"]) if s["err"] != "none" or not s["same_params"]
                    or not s["same_dist"] or s["rep"] != r["rep0"]), None)
        if bad is None or clause.startswith("norm_") or bad[1]["err"] != "none":
            return "%s|%s|%s" % (bad[0] if bad else r["chain"][0], clause, _argclass(r["args"]))
        return "%s|%s|differs=%s" % (bad[0], clause, "+".join(bad[1].get("diff", [])) or "no-parameter")
    return "Cosmo|%s|%s" % (clause, t)


def judge(ctx, recs, what, only_clause=None):
    rejects = tracecheck.validate(ctx, "CosmoTrace.tla", [trace_view(r) for r in recs], what=what)
    byid = {r["id"]: r for r in recs}
    for rid in sorted(rejects):
        r = byid[rid]
        for cl in rejects[rid]:
            if only_clause and cl != only_clause:
                continue
            if cl.startswith("harness_"):
                raise MachineryError("trace module reports a harness inconsistency %s on record %s" % (cl, json.dumps(trace_view(r))[:400]))
            if r["t"] == "scalar":
                detail = r.get("info", {}).get(cl)
            elif r["t"] == "scale":
                detail = dict(r["info"], kind=r["obs"]["kind"], len=r["obs"]["len"], parts_eq=r["obs"]["parts_eq"],
                              bad_blocks=[b[:2] for b in r["obs"]["blocks"] if not b[2]][:8],
                              bad_samples=[x[0] for x in r["obs"]["samples"] if not x[3]][:8])
            elif r["t"] == "threads":
                detail = {"mismatching_rounds_per_thread": r["mism"], "err": r["err"]}
            elif r["t"] == "world":
                detail = {"probes": r["info"], "signs": r["signs"], "obs": r["obs"]}
            else:
                detail = r.get("raw") or r.get("obs") or r.get("steps")
            ctx.violation(signature(r, cl), "Cosmo.tla clause %s not satisfied by the real code (%s record)" % (cl, r["t"]),
                          dict(r["case"], clause=cl, observed=detail))
    return rejects


# ---- TLC runs -------------------------------------------------------------------------------------
def _consts(**kw):
    return dict(DEFAULTS, **kw)


def _tag(cases, t):
    for c in cases:
        if c.get("t") != t:
            raise MachineryError("exported case of type %r in a %s run" % (c.get("t"), t))
    return cases


def export(ctx, what, next_, constraint, consts, shard_key=None):
    """-workers 1 export run(s); with shard_key the index set is split over parallel TLC processes"""
    def one(cs, tag):
        return ctx.tlc("CosmoMC.tla", what="%s%s" % (what, tag), workers=1, coverage=False, timeout=3000,
                       cfg_text=cfg(constants=dict(cs, DoExport=True), next_=next_, constraints=[constraint]))
    if shard_key and len(consts[shard_key]) > 1 and not ctx.quick:
        parts = [dict(consts, **{shard_key: {v}}) for v in sorted(consts[shard_key])]
        with ThreadPoolExecutor(min(len(parts), int(os.environ.get("VH_MAX_WORKERS", "16")))) as ex:
            rs = list(ex.map(lambda kv: one(kv[1], " [shard %d/%d]" % (kv[0] + 1, len(parts))), enumerate(parts)))
    else:
        rs = [one(consts, "")]
    cases, idents = [], []
    for r in rs:
        if r.garbled:
            raise MachineryError("unparsed export lines in %s" % what)
        cases += r.records.get("CASE", [])
        idents += r.records.get("IDENT", [])
    if not cases:
        raise MachineryError("no cases exported by %s" % what)
    return cases, idents


def load_catalogue(ctx):
    r = ctx.tlc("CosmoMC.tla", what="export identity catalogue", workers=1, coverage=False,
                cfg_text=cfg(constants=_consts(DoExport=True), next_="NextCtor", constraints=["ExportIdent"]))
    if not r.records.get("IDENT"):
        raise MachineryError("identity catalogue not exported")
    IDENTS.clear()
    IDENTS.update({d["name"]: d for d in r.records["IDENT"][0]})


def random_cases(seed, n):
    """seeded sample on a finer parameter lattice (twentieths) x quarter redshifts, as abstract cases"""
    import random
    rng = random.Random(seed * 7919 + 11)
    out = []

    def rat(n_, d_):
        from fractions import Fraction
        f = Fraction(n_, d_)
        return [f.numerator, f.denominator]
    for _ in range(n):
        om = rat(rng.randint(1, 30), 20)
        mode = rng.choice(["flat", "flat", "curved", "curved", "curved", "silent"])
        ok = lat.OFF if mode == "flat" and rng.random() < 0.7 else rat(0 if mode == "flat" else rng.choice([k for k in range(-10, 11) if k]), 20)
        olm = rng.choice(["closure", "closure", "default", "free"])
        if olm == "default":
            ol = lat.OFF
        elif olm == "free":
            ol = rat(rng.randint(0, 24), 20)
        else:
            from fractions import Fraction
            f = 1 - Fraction(*om) - (Fraction(*ok) if ok[1] else 0)
            ol = [f.numerator, f.denominator]
        if rng.random() < 0.5:
            H0, h = [rng.randint(30, 120), 1], lat.OFF
        elif rng.random() < 0.5:
            H0, h = lat.OFF, rat(rng.randint(30, 120), 100)
        else:
            H0, h = [rng.randint(30, 120), 1], rat(rng.randint(30, 120), 100)
        flat = mode in ("flat", "silent")
        a, b = rat(rng.randint(0, 20), 4), rat(rng.randint(0, 20), 4)
        if rng.random() < 0.8 and lat.frac(a) > lat.frac(b):
            a, b = b, a
        out.append({"args": {"H0": H0, "h": h, "flat": flat, "om": om, "ol": ol, "ok": ok}, "a": a, "b": b})
    return out


def derive(ctx, plain, what):
    """TLC computes, for cases chosen outside the model, everything exact about them (NextFile)"""
    fd, path = tempfile.mkstemp(prefix="vh-c11-", suffix=".ndjson")
    try:
        with os.fdopen(fd, "w") as f:
            for c in plain:
                f.write(json.dumps(c, separators=(",", ":")) + "\n")
        r = ctx.tlc("CosmoMC.tla", what=what, workers=1, coverage=False, timeout=3000, env={"CASE_FILE": path},
                    cfg_text=cfg(constants=_consts(DoExport=True), next_="NextFile", constraints=["ExportFile"]))
    finally:
        os.unlink(path)
    cases = r.records.get("CASE", [])
    if len(cases) != len(plain) or r.garbled:
        raise MachineryError("%s: %d cases in, %d out" % (what, len(plain), len(cases)))
    return cases


# ---- the check ---------------------------------------------------------------------------------------
def run(ctx):
    B = BOUNDS[ctx.tier]
    try:
        lat.gl_rule(5), lat.gl_rule(10)
    except ValueError as e:
        raise MachineryError(str(e))
    W = 16
    # 1. design level: the transcribed mechanisms refine the property-level definitions
    mech_copy = B["copy"] if ctx.quick else B["ctor"]
    ctx.tlc("CosmoMC.tla", what="extract_parms refines CNormalise (every constructor-argument combination)",
            cfg_text=cfg(constants=_consts(**B["ctor"]), next_="NextCtor", invariants=["NormaliseSound", "MechNormRefines"]),
            workers=W, require=["ChooseOm", "ChooseCurv", "ChooseH"], timeout=3000)
    ctx.tlc("CosmoMC.tla", what="lattice sanity: E^2 > 0 at the endpoints of every physical case",
            cfg_text=cfg(constants=_consts(**B["scalar"]), next_="NextScalar", invariants=["E2Positive", "MechNormRefines"]),
            workers=W, require=["ChooseZ"], timeout=3000)
    ctx.tlc("CosmoMC.tla", what="copy/pickle chains on the object graph: MechCopyRefines",
            cfg_text=cfg(constants=_consts(**mech_copy), next_="NextCopy", invariants=["MechCopyRefines", "MechNormRefines"]),
            workers=W, require=["Construct", "CopyAct"], timeout=3000)
    ctx.tlc("CosmoMC.tla", what="dispatch ladder + C loops: MechDispatchRefines",
            cfg_text=cfg(constants=_consts(**B["dispatch"]), next_="NextDispatch", invariants=["MechDispatchRefines", "RepsSound"]),
            workers=W, require=["ChooseQ", "ChooseSA", "ChooseSB", "Classify", "Convert", "Loop", "Finish"], timeout=3000)
    ctx.tlc("CosmoMC.tla", what="elementwise calls commute with concatenation / block partition (ScaleLaw, small scope)",
            cfg_text=cfg(constants=_consts(Quants=ALL_Q, **B["scale"]), next_="NextScale", invariants=["ScaleLaw"]),
            workers=W, require=["ChooseLaw", "ChooseScaleQ", "ChooseScaleN"], timeout=3000)
    ctx.tlc("CosmoMC.tla", what="3 threads on one shared object, every interleaving of the atomic steps: ThreadsSequential",
            cfg_text=cfg(constants=_consts(Quants={"sigmacritinv"}, NThreads=3), next_="NextThreads", invariants=["ThreadsSequential"]),
            workers=W, require=["ChooseThreadsQ", "TStep"], timeout=3000)
    for wb in B["world"]:
        ctx.tlc("CosmoWorldMC.tla", what="world machine: sessions of %d steps over twin objects, every probe = fresh world (WorldFresh, WorldFold, TwinLaw)" % wb["MaxSteps"],
                cfg_text=cfg(constants=dict(WORLD_DEFAULTS, **wb), next_="Next", invariants=["WorldFresh", "WorldFold", "TwinLaw"]),
                workers=W, require=["New", "Copy", "Drop", "Probe"], timeout=3000)
    r = ctx.tlc("CosmoWorldMC.tla", what="self-test: a module-level memo of structs keyed by 6 significant digits violates WorldFresh",
                cfg_text=cfg(constants=dict(WORLD_DEFAULTS, KIdx={1, 4}, Kinds={"copy", "pickle"}, Deviate=True), next_="Next",
                             invariants=["WorldFresh", "WorldFold"]),
                workers=1, allow_violation=True, coverage=False, timeout=3000)
    if "WorldFresh" not in set(r.violated) or "WorldFold" in set(r.violated):
        raise MachineryError("self-test failed: deviating world mechanism not caught (%s)" % r.violated)
    # 1b. the invariants bite: a pickle that drops the explicit omega_l / a loop bound taken from the other array
    r = ctx.tlc("CosmoMC.tla", what="self-test: deviating mechanisms violate the refinement invariants",
                cfg_text=cfg(constants=_consts(Deviate=True, OmIdx={2}, CurvIdx={1, 5}, HIdx={2}, Quants={"Dc"}, Dts={"f8"}, Lays={"contig"}, MaxLen=2), next_="Next",
                             invariants=["MechCopyRefines", "MechDispatchRefines", "ThreadsSequential"]),
                workers=1, allow_violation=True, coverage=False, continue_=True, timeout=3000)     # 1 worker: report order is deterministic
    if not {"MechCopyRefines", "MechDispatchRefines", "ThreadsSequential"} <= set(r.violated):
        raise MachineryError("self-test failed: deviating mechanisms not caught (%s)" % r.violated)

    # 2. spec -> code: export every case of the four sub-machines
    ctor_cases, _ = export(ctx, "export constructor cases", "NextCtor", "ExportCtor", _consts(**B["ctor"]))
    scal_cases, idents = export(ctx, "export scalar cases", "NextScalar", "ExportScalar", _consts(**B["scalar"]), "OmIdx")
    copy_cases, _ = export(ctx, "export copy chains", "NextCopy", "ExportCopy", _consts(**B["copy"]), "OmIdx")
    disp_cases, _ = export(ctx, "export dispatch cases", "NextDispatchExport", "ExportDispatch", _consts(**B["dispatch"]), "Quants")
    scale_cases, _ = export(ctx, "export scale cases", "NextScaleExport", "ExportScale", _consts(Quants=ALL_Q, **B["scale"]))
    thr_cases, _ = export(ctx, "export concurrency cases", "ChooseThreadsQ", "ExportThreads", _consts(Quants=ALL_Q))
    world_cases, seen_w = [], set()
    for wb in B["world"]:
        rw = ctx.tlc("CosmoWorldMC.tla", what="export world sessions (%d steps)" % wb["MaxSteps"], workers=1, coverage=False, timeout=3000,
                     cfg_text=cfg(constants=dict(WORLD_DEFAULTS, **dict(wb, DoExport=True)), next_="Next", constraints=["ExportWorld"]))
        if rw.garbled or not rw.records.get("CASE"):
            raise MachineryError("world sessions not exported")
        for c in _tag(rw.records["CASE"], "world"):
            key = json.dumps(c, sort_keys=True)
            if key not in seen_w:
                seen_w.add(key)
                world_cases.append(c)
    scale_cases = sorted(_tag(scale_cases, "scale"), key=lambda c: (-c["n"], c["q"], c["form"]))      # big ones first (load balance)
    thr_cases = [dict(c, **B["threads"]) for c in sorted(_tag(thr_cases, "threads"), key=lambda c: (c["q"], c["form"]))]
    if not idents:
        raise MachineryError("identity catalogue not exported")
    IDENTS.clear()
    IDENTS.update({d["name"]: d for d in idents[0]})
    disp_cases = [dict(c, ck=k % len(DISPATCH_COSMO)) for k, c in enumerate(_tag(disp_cases, "dispatch"))]   # flat / open / closed in turn
    # 2b. seeded cases on a finer lattice; TLC derives their exact side
    rnd_cases = derive(ctx, random_cases(ctx.seed, B["nrandom"]), "derive exact values for %d seeded cases" % B["nrandom"])
    allc = (scale_cases + _tag(ctor_cases, "ctor") + _tag(scal_cases, "scalar") + _tag(copy_cases, "copy") + disp_cases +
            _tag(rnd_cases, "scalar"))
    items = list(enumerate(allc, 1))
    ctx.log("executing %d cases (%d ctor, %d scalar, %d copy, %d dispatch, %d seeded)" %
            (len(items), len(ctor_cases), len(scal_cases), len(copy_cases), len(disp_cases), len(rnd_cases)))
    recs = pmap(run_any, items)
    # concurrency cases run one after the other in this process (their threads need the cores to themselves)
    thr_items = list(enumerate(thr_cases, len(items) + 1))
    recs = recs + [run_threads(it) for it in thr_items]
    # world sessions: each in a pristine process of its own (and each object alone in another: the fresh world)
    world_recs = run_world(ctx.tree, list(enumerate(world_cases, len(items) + len(thr_items) + 1)))
    recs = recs + world_recs
    ctx.log("executed %d world sessions (%d probes)" % (len(world_recs), sum(len(r["info"]) for r in world_recs)))
    ctx.log("executed %d scale cases and %d concurrency cases (%d threads x %d rounds x %d elements)" %
            (len(scale_cases), len(thr_cases), B["threads"]["nthreads"], B["threads"]["rounds"], B["threads"]["n"]))
    for r in recs:
        ctx.count({k: v for k, v in r["case"].items() if k not in ("outs", "allowed", "samples")})
    # non-vacuity (spec side): every identity of the catalogue is demanded (or accepted as alternative) by some exported case
    demanded = set()
    for c in allc:
        if c["t"] == "scalar":
            for o in c["outs"]:
                demanded.update(o["need"])
    if set(IDENTS) - demanded:
        raise MachineryError("vacuous: identities never demanded by an exported case: %s" % sorted(set(IDENTS) - demanded))
    for t in ("scalar", "ctor", "copy", "dispatch", "scale", "threads", "world"):
        r = next(x for x in recs if x["t"] == t)
        ctx.sample({k: v for k, v in trace_view(r).items() if k != "der"})
    # 3. code -> spec
    rejects = judge(ctx, recs, "judge %d recorded observations (CosmoTrace)" % len(recs))
    # non-vacuity (code side): on a run without violations every identity was also evaluated on the real code
    seen = set()
    for r in recs:
        if r["t"] == "scalar":
            seen.update(k for k, v in r["res"].items() if v[0] >= 0)
    if not ctx.violations and set(IDENTS) - seen:
        raise MachineryError("vacuous: identities never evaluated: %s" % sorted(set(IDENTS) - seen))
    for r in recs:
        if r["t"] == "dispatch" and not r["frame_ok"]:
            ctx.note(argument_modified=True)      # C15's subject; recorded, not judged here
    # 4. binding self-test: corrupted observations must be rejected, with the right clause
    selftest(ctx, recs, rejects)
    worst, worst_units = {}, {}
    for r in recs:
        if r["t"] != "scalar":
            continue
        for k, v in r.get("info", {}).items():
            if "rel_dev" in v and r["res"][k][0] >= 0:
                worst[k] = max(worst.get(k, 0.0), v["rel_dev"])
                worst_units[k] = max(worst_units.get(k, 0), r["res"][k][0])
    ctx.rule = ("every constructor-argument combination of CosmoMC's rational grid (%d), %d (cosmology, zmin, zmax) cases incl. "
                "reversed pairs with every applicable identity of Cosmo.tla's catalogue, %d copy/pickle chains of length <= 3, "
                "%d (quantity, representation of zmin, representation of zmax) dispatch cases (%s of 108 representations: python / numpy "
                "scalars, lists, tuples, ndarrays f8 f4 i8 i4 >f8 >f4 >i8 x contiguous / strided / reversed / 0-d / Fortran 2-d, lengths 1..3) "
                "%d scale cases (every quantity x array form x lengths %s, judged through the concatenation law), %d concurrency cases "
                "(every quantity x array form, %d threads x %d rounds on one shared object), %d world sessions (up to 3 twin objects differing "
                "in the 7th-9th digit of one parameter, built / copied / dropped / probed in one pristine process) - all exported by TLC - plus %d seeded cases "
                "on a finer lattice; a case is distinct by its abstract record" %
                (len(ctor_cases), len(scal_cases), len(copy_cases), len(disp_cases),
                 "covering design" if B["dispatch"]["Pairing"] == "cover" else "full product",
                 len(scale_cases), sorted(B["scale"]["ScaleLens"]), len(thr_cases), B["threads"]["nthreads"], B["threads"]["rounds"],
                 len(world_cases), len(rnd_cases)))
    ctx.exhaustive = True
    ctx.note(bounds={k: ({kk: sorted(vv) if isinstance(vv, set) else vv for kk, vv in v.items()} if isinstance(v, dict) else v)
                     for k, v in B.items()},
             identities=sorted(IDENTS), worst_relative_residual={k: float("%.3g" % v) for k, v in sorted(worst.items())},
             worst_residual_units={k: "%d %s" % (v, IDENTS[k]["unit"]) for k, v in sorted(worst_units.items())},
             cases=dict(ctor=len(ctor_cases), scalar=len(scal_cases), copy=len(copy_cases), dispatch=len(disp_cases), seeded=len(rnd_cases),
                        scale=len(scale_cases), threads=len(thr_cases), world=len(world_cases)))
    ctx.trusted_base = ctx.trusted_base + [
        "vh/cosmolat.py: exact Fraction evaluator of the spec's expression trees; sqrt/sinh/sin/log10/pi to >= 45 digits (decimal, isqrt)",
        "numpy.polynomial.legendre.leggauss as the reference Gauss-Legendre rule, validated on every run by exact monomial moments up to degree 2n-1"]
    ctx.assumptions = [
        "world: a session (<= 5 steps over <= 3 twin objects of one argument record, twins = lattice value x (1 + k 1e-9), k in 0, 2, -30, 667, "
        "-700, 20000) runs in ONE pristine process; 'fresh world' = the same object built alone in another pristine process; equality with it is "
        "a relation between implementation outputs (bit-identical getters and battery of 17 calls); absolute anchors: getters vs the given "
        "floats (<= 4 ulp) and the strict order of Dc(1/4, 3/2) between twins (Dc strictly decreasing in om, ol, ok, H0, h; law checked by TLC "
        "on the lattice: TwinLaw), and the identities gl5 / gl5_coarse / dc evaluated with the twin's exact (binary64) parameters",
        "scale: arrays of 65535 .. 2^20 (2^21) elements tile a 3-entry value table; the large result is judged through the law 'elementwise calls "
        "commute with concatenation' (checked by TLC on the small scope): block-wise equal to the tiled 3-element result, equal to the "
        "concatenation of the results on 4099-element parts, and equal to scalar calls at the first / last element of every 65536-block",
        "concurrency: any mismatch between a concurrent and the sequential result is a violation; absence of mismatches in the rounds run "
        "proves nothing about thread safety (the interleaving model in TLC covers the mechanism as transcribed, not the compiled code)",
        "parameters and redshifts on rational lattices (tenths / twentieths, integer H0, dyadic or quarter redshifts <= 5); float(Fraction) input error <= 1/2 ulp",
        "E^2(z) is computed by TLC as an exact rational at lattice redshifts; at the quadrature nodes (binary64 numbers) the exact integrand is the spec's expression tree evaluated in exact rational arithmetic (sqrt to 220 bits)",
        "the 'documented fixed-order Gauss-Legendre rule' is read as the rule esutil itself exposes (esutil.integrate.gauleg, decided by C17 to 1e-9): sums are compared to rounding with that rule (or with the mathematically exact rule) and to 1e-9 with the exact rule; the 3e-11 / 4e-10 weight error of gauleg's Newton cut-off is therefore accepted",
        "V's integrand: the object's own dV (to rounding) and, separately, DH Dm(0,z)^2/E(z) built from the exact 1/E by nested 5-point sums (to 1e-8)",
        "absolute size of the GL truncation error is checked at the Einstein-de Sitter anchors and through Hogg's addition formula on concordance-like parameters only",
        "4 pi G / c^2 is compared with the documented constant to 5e-4 (spread between compilations of physical constants)"]


def selftest(ctx, recs, rejects):
    """corrupt one observation per clause family; the trace module must add exactly that clause"""
    class _Skip(Exception):
        pass

    def pick(t, pred):
        for r in recs:
            if r["t"] == t and pred(r):
                return r["id"], json.loads(json.dumps(trace_view(r)))
        if ctx.violations:          # the real code is broken in a way that leaves no clean record of this kind: that is a
            raise _Skip()           # verdict (already recorded), not a failure of the machinery
        raise MachineryError("self-test: no %s record to corrupt" % t)

    def ok(r, name):
        return r["res"].get(name, [-1])[0] >= 0 and name not in rejects.get(r["id"], [])

    def c_ctor():
        i, a = pick("ctor", lambda r: r["id"] not in rejects)
        a["rep"]["H0"] = [a["rep"]["H0"][0] + 1, a["rep"]["H0"][1]]
        return i, a, "norm_H0"

    def c_da():
        i, b = pick("scalar", lambda r: ok(r, "da") and ok(r, "dm_sinh"))
        b["res"]["da"] = [5, 1]
        return i, b, "da"

    def c_dl():
        i, b = pick("scalar", lambda r: ok(r, "dl"))
        del b["res"]["dl"]
        return i, b, "dl"

    def c_gt():
        i, b = pick("scalar", lambda r: ok(r, "dm_open_gt_dc"))
        b["res"]["dm_open_gt_dc"] = [3, -1]
        return i, b, "dm_open_gt_dc"

    def c_eds():
        i, b = pick("scalar", lambda r: ok(r, "eds"))
        b["res"]["eds"] = [1001 if lat.frac(b["b"]) <= 1 else 1000001, 1]
        return i, b, "eds"

    def c_gl5():                    # the primary and its accepted alternative both off -> rejected ...
        i, b = pick("scalar", lambda r: ok(r, "gl5") and ok(r, "gl5_coarse"))
        b["res"]["gl5"], b["res"]["gl5_alt"] = [25, 1], [25, -1]
        return i, b, "gl5"

    def c_gl5alt():                 # ... the primary off but the alternative within tolerance -> accepted
        i, b = pick("scalar", lambda r: ok(r, "gl5") and ok(r, "gl5_coarse"))
        b["res"]["gl5"], b["res"]["gl5_alt"] = [25, 1], [3, 1]
        return i, b, None

    def c_elem():
        i, c = pick("dispatch", lambda r: r["obs"]["kind"] == "array" and r["obs"]["len"] >= 2 and r["id"] not in rejects)
        c["obs"]["eq"][1] = False
        return i, c, "element_ne_scalar"

    def c_len():
        i, c = pick("dispatch", lambda r: r["obs"]["kind"] == "rejected" and r["id"] not in rejects
                    and all(e["kind"] == "rejected" for e in r["case"]["allowed"]))
        c["obs"] = {"kind": "array", "len": 1, "eq": [True]}
        return i, c, "mismatched_lengths_not_rejected"

    def c_copy():
        i, d = pick("copy", lambda r: len(r["chain"]) == 3 and r["id"] not in rejects)
        d["steps"][2]["same_dist"] = False
        return i, d, "copy_distances_differ"

    def c_scale_block():
        i, d = pick("scale", lambda r: r["id"] not in rejects and len(r["obs"]["blocks"]) >= 2)
        d["obs"]["blocks"][-1][2] = False
        return i, d, "scale_block_ne_tiled_small_result"

    def c_scale_parts():
        i, d = pick("scale", lambda r: r["id"] not in rejects)
        d["obs"]["parts_eq"] = False
        return i, d, "scale_ne_concatenation_of_parts"

    def c_scale_sample():           # a sample position left out is noticed by the trace module
        i, d = pick("scale", lambda r: r["id"] not in rejects and len(r["obs"]["samples"]) >= 3)
        del d["obs"]["samples"][1]
        return i, d, "harness_samples_mismatch"

    def c_threads():
        i, d = pick("threads", lambda r: r["id"] not in rejects)
        d["mism"][-1] = 1
        return i, d, "concurrent_ne_sequential"

    def c_world_call():
        i, d = pick("world", lambda r: r["id"] not in rejects)
        d["obs"][-1]["same_calls"] = False
        return i, d, "world_call_ne_fresh_world"

    def c_world_given():
        i, d = pick("world", lambda r: r["id"] not in rejects)
        d["obs"][-1]["dev"] = 5
        return i, d, "world_params_ne_given"

    def c_world_ident():
        i, d = pick("world", lambda r: r["id"] not in rejects)
        d["obs"][-1]["res"]["dc"] = [5, 1]
        return i, d, "twin_dc"

    def c_world_order():
        i, d = pick("world", lambda r: r["id"] not in rejects and any(x[2] != 0 for x in r["signs"]))
        j = next(j for j, x in enumerate(d["signs"]) if x[2] != 0)
        d["signs"][j][2] = 0
        return i, d, "world_twin_order"

    def c_world_pairs():
        i, d = pick("world", lambda r: r["id"] not in rejects and len(r["signs"]) >= 1)
        del d["signs"][0]
        return i, d, "harness_world_pairs"

    def c_good():
        i, g = pick("scalar", lambda r: ok(r, "da"))
        return i, g, None

    plan = []
    for mk in (c_ctor, c_da, c_dl, c_gt, c_eds, c_gl5, c_gl5alt, c_elem, c_len, c_copy, c_scale_block, c_scale_parts, c_scale_sample, c_threads, c_world_call, c_world_given, c_world_ident,
               c_world_order, c_world_pairs, c_good):
        try:
            plan.append(mk())
        except _Skip:
            ctx.log("self-test item %s skipped: no clean record (violations present)" % mk.__name__)
    if not plan:
        return
    batch = []
    for k, (i, r, cl) in enumerate(plan, 1):
        r["id"] = k
        batch.append(r)
    saved = ctx.traces
    rej = tracecheck.validate(ctx, "CosmoTrace.tla", batch, what="self-test: corrupted records rejected", workers=1)
    ctx.traces = saved
    for k, (i, r, cl) in enumerate(plan, 1):
        want = sorted(set(rejects.get(i, [])) | ({cl} if cl else set()))
        if sorted(rej.get(k, [])) != want:
            raise MachineryError("binding self-test failed: corrupted record %d (%s) gave %s, expected %s" % (k, cl, rej.get(k), want))


def replay(ctx, case):
    case = dict(case)
    clause, variant = case.pop("clause", None), case.pop("variant", 1)
    case.pop("observed", None)
    load_catalogue(ctx)
    rec = run_world(ctx.tree, [(1, case)])[0] if case.get("t") == "world" else run_any((variant, case))     # a world session: whole, in a pristine process
    rec["id"] = 1
    print("replay observed:", json.dumps({k: v for k, v in rec.items() if k not in ("case", "der")}, default=str)[:3000])
    judge(ctx, [rec], "replay", only_clause=clause)
