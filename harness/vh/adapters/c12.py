"""C12 - HTM matching returns exactly the pairs within the search radius.

spec -> code : HtmMatchMC.tla is the matcher as a state machine (New(depth, p2), then any sequence of
               match calls) over the two exact lattices of HtmSphere.tla.  TLC checks that an
               implementation-shaped pass (cover, distance filter, unstable sort, truncation) refines
               the property-level clauses of HtmMatch.tla, that the matcher state is frozen by New, and
               exports every LIFE of the bounded machine (single calls swept over every maxmatch,
               exhaustive multi-call lives, micro-degree radii, simulated lives over the larger
               catalogue).  Every exported life is executed on the real code several times: on different
               great circles / eps (or octahedral images of the rational sphere), tree depths 1..13,
               as one reusable Matcher or as one-shot HTM.match calls, in memory or through a pair file
               + read_pairs, with contiguous / strided / byte-swapped / negative-stride / list inputs.
code -> spec : what came back (index arrays as returned; each reported separation *projected* onto the
               lattice value within 1e-9 degree of it, or marked off) - for those replays and for larger
               seeded lives over the full lattices - is written as ndjson, one record per life, and
               judged call by call by HtmMatchTrace.tla against the matcher state p2 alone.  Depth,
               flavour, layout, concretisation and history are NOT in the record: the specification
               says the result does not depend on them, so any dependence is rejected where it deviates.
histories    : a life may contain Overwrite events (TLC enumerates them): the caller overwrites, in place, the
               arrays the Matcher was built from - in every representation (native C-contiguous f8, strided,
               negative stride, '>f8', exactly representable f4, list); every later call is still judged
               against the ORIGINAL point set (the matcher is a snapshot).  The ra/dec/radius arguments of
               the calls of a life are slices of one work buffer that is refilled and scribbled over
               between calls, and the arrays a call returned are read again when the life is over.
exact ties   : `ident` (a field of the case record) says equal lattice points are handed over bit-identically;
               then they are zero apart and must match at radius 0 too.  Radii that tie with a pair are
               snapped to the separation the code itself reports for that pair (bit-exact tie, same abstract
               radius); every call with a positive limit is accompanied by the unlimited call on the same
               object and inputs, and TLC demands "first k of every group of the unlimited answer".
scale        : ConcatLaw / AcceptLaw of HtmMatch.tla (checked by TLC on the small scope): each group depends on its own
               first-set point only, so the result for a concatenated first set is the concatenation of the results
               for the parts.  TLC marks simulated lives as scale cases with sizes at and across 20000, 2^15, 2^16,
               3*2^16 ...; the first set is tiled up to that size and the large result (memory or pair file) must be
               the tiling of what the same code returns for the small call, which the exact oracle judges.
dense sets   : scope "d" of HtmMatchMC (480 matcher points all round the circle) and seeded lives with 300-700 matcher
               points (the whole 414-point rational sphere), searched with radii of 1-12 degrees at depths 5..11:
               tree and cover both hold hundreds of leaf triangles, full and partial; judged by the exact oracle.
world        : HtmMatchWorld.tla - one process, several Matcher objects of DIFFERENT depths alive at once, the one-shot
               HTM(depth).match, and the caller's own steps (Scribble over the arrays a call returned, Drop an object),
               interleaved.  TLC: the faithful mechanism (every Matcher owns its index) satisfies WorldIndependent (every
               call's outcome = its fresh-world outcome), a per-process index keyed by depth alone and a memo handing out its
               own storage violate it.  Exported sessions (exhaustive over the tiny catalogue, simulated over a wider one)
               are executed each in ONE process with the depth labels bound to different concrete depths; HtmMatchTrace
               judges every call against the point set of its own object.  A rejected session is stored whole and
               --replay re-executes it in one fresh process.
off lattice  : for seeded generic point sets (uniform, clustered caps, poles, seam, duplicates) only
               relations between two implementation outputs are compared (depth d = depth d', Matcher =
               one-shot, file = memory, limited = prefix of unlimited - also with radii taken from
               returned separations and radius 0 on coincident points); no oracle exists there.
Python never judges a lattice result; it maps abstract <-> concrete and records.
"""
import json
import math
import os
import random
import shutil
import tempfile
from concurrent.futures import ThreadPoolExecutor
from fractions import Fraction as F

import numpy as np

from .. import htmlat as hl
from .. import tracecheck
from ..core import MachineryError
from ..par import pmap
from ..tlc import cfg

NEEDS_EXT = True

MIN_RADIUS = F(1, 10 ** 6)        # the statement's radii: 0, and 1e-6 .. 180 degrees
ALL_DEPTHS = list(range(1, 14))
FLAVOURS = ["matcher", "oneshot"]

def _job(name, scope, n2, n1, ncalls, perpoint, kmode, variants, num=None, ow=0, scale=()):
    return dict(name=name, consts=dict(Scope=scope, MaxN2=n2, MaxN1=n1, MaxCalls=ncalls, PerPoint=perpoint, MaxOw=ow,
                                       ScaleN=set(scale)),
                kmode=kmode, variants=variants, num=num)


def _mech(scope, n2, n1, ncalls, perpoint, ow=0):
    return dict(Scope=scope, MaxN2=n2, MaxN1=n1, MaxCalls=ncalls, PerPoint=perpoint, MaxOw=ow, ScaleN=set())


TIERS = {
    "quick": dict(
        mech=[_mech("q", 2, 2, 1, False), _mech("h", 2, 1, 1, True, ow=1)],
        jobs=[_job("sweep", "q", 2, 2, 1, False, "sweep", 2), _job("micro", "m", 2, 1, 1, False, "sweep", 2),
              dict(_job("hist", "h", 2, 1, 2, True, "each", 1), kinds=("gc",)),
              _job("overwrite", "h", 2, 1, 1, True, "each", 3, ow=1), _job("dense", "d", 2, 1, 1, False, "sweep", 2),
              _job("sim", "s", 6, 4, 3, True, "each", 2, num=250, ow=1),
              _job("scale", "s", 6, 4, 1, True, "each", 1, num=4, scale=(20000, 65537))],
        depths=[1, 4, 8, 13], dense_depths=[6, 8, 10], seeded=900, seeded_n=6, seeded_variants=2, off=150, off_n=40,
        trixel_budget=6e4, dense_budget=4e5, scale_budget=2e7,
        world=dict(mech=[("gc", dict(Scope="h", MaxObjs=2, MaxN2=1, MaxN1=1, MaxEv=4, Depths={1, 2})),
                         ("rs", dict(Scope="h", MaxObjs=2, MaxN2=1, MaxN1=1, MaxEv=3, Depths={1, 2}))],
                   jobs=[dict(name="world3", consts=dict(Scope="h", MaxObjs=2, MaxN2=1, MaxN1=1, MaxEv=3, Depths={1, 2}), num=None, variants=1, thin=6),
                         dict(name="worldsim", consts=dict(Scope="w", MaxObjs=2, MaxN2=2, MaxN1=2, MaxEv=7, Depths={1, 2}), num=150, variants=2)])),
    "thorough": dict(
        mech=[_mech("t", 2, 1, 1, False), _mech("q", 2, 2, 1, True), _mech("h", 2, 1, 2, True, ow=1)],
        jobs=[_job("sweep", "t", 2, 1, 1, False, "sweep", 2), _job("sweep_perpoint", "q", 2, 2, 1, True, "sweep", 2),
              _job("micro", "m", 3, 1, 1, False, "sweep", 2), _job("hist", "h", 2, 1, 2, True, "each", 2),
              _job("hist3", "h", 1, 1, 3, True, "each", 1), _job("overwrite", "h", 2, 1, 2, True, "each", 1, ow=1),
              _job("dense", "d", 2, 2, 1, True, "sweep", 2),
              _job("sim", "s", 6, 4, 4, True, "each", 2, num=10000, ow=1),
              _job("scale", "s", 6, 4, 1, True, "each", 1, num=12,
                   scale=(19999, 20000, 20001, 32768, 65535, 65536, 65537, 100003, 196608, 262145))],
        depths=ALL_DEPTHS, dense_depths=[5, 6, 7, 8, 9, 10, 11], seeded=20000, seeded_n=24, seeded_variants=2, off=4000,
        off_n=150, trixel_budget=2e5, dense_budget=2e6, scale_budget=1e8,
        world=dict(mech=[("gc", dict(Scope="h", MaxObjs=2, MaxN2=1, MaxN1=1, MaxEv=5, Depths={1, 2})),
                         ("rs", dict(Scope="h", MaxObjs=2, MaxN2=1, MaxN1=1, MaxEv=4, Depths={1, 2})),
                         ("gc", dict(Scope="h", MaxObjs=2, MaxN2=2, MaxN1=1, MaxEv=4, Depths={1, 2})),
                         ("rs", dict(Scope="h", MaxObjs=2, MaxN2=2, MaxN1=1, MaxEv=4, Depths={1, 2}))],
                   jobs=[dict(name="world4", consts=dict(Scope="h", MaxObjs=2, MaxN2=1, MaxN1=1, MaxEv=4, Depths={1, 2}), num=None, variants=1),
                         dict(name="worldsim", consts=dict(Scope="w", MaxObjs=3, MaxN2=2, MaxN1=2, MaxEv=9, Depths={1, 2, 3}), num=3000, variants=2)])),
}

# octahedral symmetries of the rational sphere (exact: permute / negate coordinates)
SYMS = [((0, 1, 2), (1, 1, 1)), ((1, 2, 0), (1, 1, 1)), ((2, 0, 1), (1, -1, 1)), ((0, 2, 1), (-1, 1, 1)),
        ((1, 0, 2), (1, 1, -1)), ((2, 1, 0), (-1, -1, 1)), ((0, 1, 2), (-1, -1, -1)), ((1, 2, 0), (1, -1, -1))]


# ---------------------------------------------------------------------------------
# abstract -> concrete
def is_call(ev):
    return ev.get("op", "call") == "call"


def life_calls(life):
    """the match calls of a life (its history may also hold overwrite events); exported lives carry 'ks' (the
    maxmatch values a call is made with): expand to one call per k"""
    out = []
    for c in life["calls"]:
        if not is_call(c):
            continue
        for k in (c["ks"] if "ks" in c else [c["k"]]):
            out.append({"p1": c["p1"], "rad": c["rad"], "k": int(k)})
    return out


def has_overwrite(life):
    return any(not is_call(ev) for ev in life["calls"])


def allowed_eps(life):
    """eps instantiations under which the life is inside the statement's quantifier (radius 0 or >= 1e-6 degree)
    and the lexicographic arithmetic of HtmSphere.tla is valid"""
    if life["kind"] != "gc":
        return [None]
    maxb = max([abs(p[1]) for p in life["p2"]] + [abs(p[1]) for c in life["calls"] for p in c.get("p1", c.get("buf"))] + [0])
    rads = [r for c in life["calls"] if is_call(c) for r in c["rad"]]
    maxh = max([abs(r[1]) for r in rads] + [0])
    out = []
    for name, eps in sorted(hl.EPS.items(), key=lambda kv: kv[1]):
        if (4 * maxb + maxh + 1) * eps / 2 >= F(1, 2):
            continue
        vals = [F(r[0]) + r[1] * eps / 2 for r in rads]
        if all(v == 0 or (MIN_RADIUS <= v <= 180) for v in vals):
            out.append(name)
    return out


def life_cost(life, eps, depth):
    """expected number of trixels the circle intersections of the whole life enumerate (cost control only)"""
    tot = 0.0
    for c in life_calls(life):
        for i in range(len(c["p1"])):
            r = c["rad"][0] if len(c["rad"]) == 1 else c["rad"][i]
            deg = hl.radius_deg_upper("rs", r) if life["kind"] == "rs" else float(F(r[0]) + r[1] * eps / 2)
            tot += hl.trixels_in_cap(max(deg, 0.0), depth)
    return tot


LAYOUTS = list(hl.LAYOUTS) + ["f4"]      # f4: only where every value is exactly a float32 (else contiguous f8)


def plan_variants(life, lid, seed, T, nvariants):
    """the concretisations one life is executed under - deterministic in (seed, life id)"""
    rng = random.Random((seed * 1000003 + lid) * 7919 + 17)
    eps_names = allowed_eps(life)
    if not eps_names:
        raise MachineryError("life outside the quantifier under every eps: %s" % json.dumps(life)[:300])
    if life.get("eps_hint") == "smallest":          # micro-degree lives: bind the smallest admissible eps
        eps_names = eps_names[:1]
    ow = has_overwrite(life)
    out = []
    for v in range(nvariants):
        en = eps_names[(lid + v * 3 + seed) % len(eps_names)]
        eps = hl.EPS[en] if en else None
        if life.get("scale"):
            # a scale case: the first set is tiled up to life["scale"] points; cost grows with it
            mult = life["scale"] / max(1, sum(len(c["p1"]) for c in life_calls(life)))
            depths = [d for d in T["depths"] if life_cost(life, eps, d) * mult <= T["scale_budget"]] or [1]
        elif len(life["p2"]) >= 256:
            # dense matcher set: depths at which both the tree and the cover have hundreds of leaf triangles
            depths = [d for d in T["dense_depths"] if life_cost(life, eps, d) <= T["dense_budget"]] or [T["dense_depths"][0]]
        else:
            depths = [d for d in T["depths"] if life_cost(life, eps, d) <= T["trixel_budget"]] or [1]
        var = {"eps": en, "depth": depths[(lid * 5 + v * 7 + seed) % len(depths)],
               # the caller overwriting its arrays only concerns an object that outlives the call
               "flavour": "matcher" if ow else FLAVOURS[(lid + v + seed) % 2],
               "layout": LAYOUTS[(lid + v + seed) % len(LAYOUTS)] if ow else LAYOUTS[(lid // 2 + 2 * v + seed) % len(LAYOUTS)],
               "pfile": rng.choice([0, 0, 3, 10]) / 10.0, "vseed": rng.randrange(1 << 30),
               # snap: a radius that ties with a pair is replaced by the separation the code itself reports for that pair
               # (a bit-exact tie); reuse: the ra/dec/radius arrays of the calls are one work buffer, overwritten in place
               "snap": (lid + v + seed) % 3 != 0, "reuse": (lid // 3 + v + seed) % 2 == 0}
        if life["kind"] == "gc":
            var["circle"] = (lid + 3 * v + seed) % len(hl.CIRCLES)
            # ident: equal lattice points must be bit-identical coordinates - the pole keeps ONE longitude
            var["polelon"] = 0 if life.get("ident", True) else 1 + rng.randrange(0, 2)
        else:
            var["sym"] = (lid + 3 * v + seed) % len(SYMS)
        out.append(var)
    return out


def concretise(kind, pts, var, role):
    if kind == "rs":
        perm, sg = SYMS[var.get("sym", 0)]
        pts = [(sg[0] * p[perm[0]], sg[1] * p[perm[1]], sg[2] * p[perm[2]], p[3]) for p in pts]
        return hl.points("rs", pts, None, None)
    ra, dec = hl.points("gc", pts, hl.CIRCLES[var["circle"]], hl.EPS[var["eps"]])
    if var.get("polelon"):
        # the pole is one point whatever its longitude: give every polar entry its own
        for i in range(len(ra)):
            if abs(dec[i]) == 90.0:
                ra[i] = float((73 * i + 101 * var["polelon"] + (29 if role == 1 else 0)) % 360)
    return ra, dec


def concrete_radius(kind, rad, var):
    eps = hl.EPS[var["eps"]] if kind == "gc" else None
    return [hl.radius(kind, r, eps) for r in rad]


# ---------------------------------------------------------------------------------
# execution on the real code
_BASE = [None]      # scratch directory made by the parent before any fork; workers only add <name>-<pid> files to it


def _tmpfile(name):
    if _BASE[0] is None:
        _BASE[0] = tempfile.mkdtemp(prefix="c12-pairs-")
    return os.path.join(_BASE[0], "%s-%d.txt" % (name, os.getpid()))


def _cleanup_tmp():
    if _BASE[0] is not None:
        shutil.rmtree(_BASE[0], ignore_errors=True)
        _BASE[0] = None


def _ints(a):
    return [int(x) for x in np.asarray(a).ravel()]


def _f4_exact(values):
    return all(float(np.float32(x)) == float(x) for x in values)


def make_layout(values, how):
    """the values in one of the representations the callers use; returns (object handed to esutil, writer) where
    writer(new_values) overwrites the SAME object in place"""
    if how == "f4":
        how = "f4!" if _f4_exact(values) else "contig"
    if how == "f4!":
        a = np.array(values, dtype="f4")
    elif how == "list":
        a = [float(x) for x in values]

        def wlist(new):
            for i, x in enumerate(new):
                a[i] = float(x)
        return a, wlist
    else:
        a = hl.layout(values, how)

    def warr(new):
        a[...] = np.asarray(new, dtype="f8")
    return a, warr


def _mem_result(res):
    if not (isinstance(res, tuple) and len(res) == 3):
        raise TypeError("match returned %s" % type(res).__name__)
    m1, m2, d = (np.asarray(x) for x in res)
    if not (m1.ndim == m2.ndim == d.ndim == 1 and m1.dtype.kind in "iu" and m2.dtype.kind in "iu"):
        raise TypeError("match returned arrays of unexpected kind")
    return _ints(m1), _ints(m2), [float(x) for x in d]


def raw_match(flavour, depth, obj, a1, a2, rad, k, path):
    """one call.  obj: the reusable Matcher (flavour matcher) or None.  a1/a2: (ra, dec) in their layouts"""
    import esutil.htm as H
    kw = {"maxmatch": k}
    if path is not None:
        kw["file"] = path
    if flavour == "matcher":
        return obj.match(a1[0], a1[1], rad, **kw)
    return H.HTM(depth).match(a1[0], a1[1], a2[0], a2[1], rad, **kw)


def observe_call(flavour, depth, obj, a1, a2, rad, k, use_file, keep):
    """-> raw observation: err, via, m1, m2, dd (floats), count, rerr, mem1, mem2, hasall, all1, all2.
    keep: list that receives (returned arrays, their content at return time) - looked at again when the life is over"""
    import esutil.htm as H
    o = {"err": "none", "via": "file" if use_file else "mem", "m1": [], "m2": [], "dd": [], "count": -1,
         "rerr": "none", "mem1": [], "mem2": [], "hasall": False, "all1": [], "all2": []}
    try:
        if not use_file:
            res = raw_match(flavour, depth, obj, a1, a2, rad, k, None)
            o["m1"], o["m2"], o["dd"] = _mem_result(res)
            keep.append((res, (list(o["m1"]), list(o["m2"]), list(o["dd"]))))
        else:
            path = _tmpfile("pairs")          # deliberately re-used: an earlier pair file is usually still there
            cnt = raw_match(flavour, depth, obj, a1, a2, rad, k, path)
            o["count"] = int(cnt)
            try:
                data = H.read_pairs(path)
                o["m1"], o["m2"], o["dd"] = _ints(data["i1"]), _ints(data["i2"]), [float(x) for x in data["d12"]]
            except Exception as e:  # noqa
                o["rerr"] = type(e).__name__
            o["mem1"], o["mem2"], _ = _mem_result(raw_match(flavour, depth, obj, a1, a2, rad, k, None))
        if k > 0:
            # the same object, the same inputs, no limit: what "the k closest pairs of each group" refers to
            o["all1"], o["all2"], _ = _mem_result(raw_match(flavour, depth, obj, a1, a2, rad, 0, None))
            o["hasall"] = True
    except Exception as e:  # noqa
        o["err"] = type(e).__name__
        o["msg"] = str(e)[:200]
    return o


def snap_radii(flavour, depth, obj, a1, a2, rr, n1):
    """radii that tie with a pair (to 1e-9 degree; every other pair of a lattice case is >= 5e-8 degree away) are
    replaced by the separation the code itself reports for such a pair, so that the tie is bit-exact.  The values
    stay concretisations of the same abstract radii; a radius of exactly 0 and radii that would leave [1e-6, 180]
    are left alone.  Uses only outputs of the code under test - no oracle."""
    tol = 1e-9
    per = len(rr) > 1
    wide = [min(r + 2 * tol, 180.0) for r in rr]
    try:
        m1, m2, dd = _mem_result(raw_match(flavour, depth, obj, a1, a2, wide if per else wide[0], 0, None))
    except Exception:  # noqa
        return rr, 0
    out, n = list(rr), 0
    for t in range(len(rr)):
        if rr[t] == 0.0:
            continue
        near = [x for i, x in zip(m1, dd) if (i == t or not per) and abs(x - rr[t]) <= tol]
        if near:
            x = max(near)
            if 1e-6 <= x <= 180.0 and x != rr[t]:
                out[t] = x
                n += 1
    return out, n


def run_life(life, var):
    """execute one life under one concretisation -> (observations of its calls, frame_ok, notes)"""
    import esutil.htm as H
    kind = life["kind"]
    eps = hl.EPS[var["eps"]] if kind == "gc" else None
    rng = random.Random(var["vseed"])
    lay = var["layout"]
    ra2, dec2 = concretise(kind, life["p2"], var, 2)
    (b2ra, w2ra), (b2dec, w2dec) = make_layout(ra2, lay), make_layout(dec2, lay)
    a2 = (b2ra, b2dec)
    snaps = [hl.snapshot(a2[0]), hl.snapshot(a2[1])]
    obj, obs, frame_ok, keep = None, [], True, []
    notes = {"snapped": 0, "overwrites": 0}
    new_err = "none"
    try:
        os.unlink(_tmpfile("pairs"))      # one pair file per life, re-used by its calls (an earlier file is then in the way)
    except OSError:
        pass
    if var["flavour"] == "matcher":
        try:
            obj = H.Matcher(var["depth"], a2[0], a2[1])
        except Exception as e:  # noqa
            new_err = type(e).__name__
    work = None                                    # (ra, dec, rad) work buffers shared by the calls of the life
    if var.get("reuse"):
        nmax = max(len(c["p1"]) for c in life["calls"] if is_call(c))
        work = [make_layout([0.0] * (2 * nmax), "contig")[0] for _ in range(3)]
    for c0 in life["calls"]:
        if not is_call(c0):
            # the caller overwrites, in place, the arrays the matcher was built from.  A reusable Matcher is a
            # snapshot; the one-shot method gets the original content back before its next call.
            nra, ndec = concretise(kind, c0["buf"], var, 2)
            w2ra(nra)
            w2dec(ndec)
            notes["overwrites"] += 1
            if var["flavour"] != "matcher":
                w2ra(ra2)
                w2dec(dec2)
            snaps = [hl.snapshot(a2[0]), hl.snapshot(a2[1])]
            continue
        ra1, dec1 = concretise(kind, c0["p1"], var, 1)
        rr = concrete_radius(kind, c0["rad"], var)
        n1 = len(ra1)
        if work is not None and lay in ("contig", "strided"):
            # slices of one work buffer, refilled in place for every call (strided: every second element)
            step = 2 if lay == "strided" and 2 * n1 - 1 <= len(work[0]) else 1
            a1 = (work[0][:step * n1:step], work[1][:step * n1:step])
            a1[0][...] = ra1
            a1[1][...] = dec1
        else:
            a1 = (make_layout(ra1, lay)[0], make_layout(dec1, lay)[0])
        if var.get("snap") and new_err == "none":
            rr, ns = snap_radii(var["flavour"], var["depth"], obj, a1, a2, rr, n1)
            notes["snapped"] += ns
        for k in (c0["ks"] if "ks" in c0 else [c0["k"]]):
            if len(rr) == 1:
                rad = rr[0] if rng.random() < 0.7 else make_layout(rr, lay)[0]
            elif work is not None and lay == "contig":
                rad = work[2][:n1]
                rad[...] = rr
            else:
                rad = make_layout(rr, lay)[0]
            s1 = [hl.snapshot(a1[0]), hl.snapshot(a1[1]), hl.snapshot(rad)]
            use_file = rng.random() < var["pfile"]
            if new_err != "none":
                o = {"err": new_err, "via": "mem", "m1": [], "m2": [], "dd": [], "count": -1, "rerr": "none", "mem1": [],
                     "mem2": [], "hasall": False, "all1": [], "all2": []}
            else:
                o = observe_call(var["flavour"], var["depth"], obj, a1, a2, rad, int(k), use_file, keep)
            if s1 != [hl.snapshot(a1[0]), hl.snapshot(a1[1]), hl.snapshot(rad)] or \
                    snaps != [hl.snapshot(a2[0]), hl.snapshot(a2[1])]:
                frame_ok = False
            cap = n1 * len(ra2) + 1     # more entries than distinct pairs exist: already malformed, keep the record small
            for key in ("m1", "m2", "dd", "mem1", "mem2", "all1", "all2"):
                del o[key][cap:]
            o["d"] = []
            o["dev"] = []
            for x in o.pop("dd"):
                pj = hl.project(kind, x, eps)
                o["d"].append({"on": bool(pj["on"]), "v": [int(pj["v"][0]), int(pj["v"][1])]})
                o["dev"].append(None if pj["on"] else [x.hex() if x == x else "nan", pj.get("dev")])
            obs.append(o)
        if work is not None:
            for w in work:                       # the caller moves on: the work buffers now hold something else
                w[...] = 123.456
    # results handed out earlier must not have been touched by later calls (or by the overwriting above)
    stable = True
    for res, then in keep:
        try:
            now = _mem_result(res)
        except Exception:  # noqa
            now = None
        if now is None or (now[0], now[1]) != (then[0], then[1]) or \
                [x.hex() for x in now[2]] != [x.hex() for x in then[2]]:
            stable = False
    notes["results_stable"] = stable
    return obs, frame_ok, notes


OBS_KEYS = ("err", "via", "m1", "m2", "d", "count", "rerr", "mem1", "mem2", "hasall", "all1", "all2")


def exec_variant(arg):
    lid, vi, life, var = arg
    obs, frame_ok, notes = run_life(life, var)
    calls = life_calls(life)
    rec_calls = [dict(c, **{k: o[k] for k in OBS_KEYS}) for c, o in zip(calls, obs)]
    out = {"lid": lid, "vi": vi, "var": var, "calls": rec_calls, "frame_ok": frame_ok, "notes": notes,
           "extra": [{"dev": o["dev"], "msg": o.get("msg")} for o in obs]}
    if life.get("scale"):
        out["scale"] = run_scale(life, var)
    return out


def run_scale(life, var):
    """the scale law (HtmMatch.tla ConcatLaw): the call of the life, made with its first set tiled up to
    life["scale"] points, must return the concatenation (first indices shifted) of what the SAME implementation
    returns for the small first set - which the exact oracle judges as an ordinary life.  A relation between two
    outputs of the code; rows may only differ by swapping exact separation ties.  -> None or a description"""
    import esutil.htm as H
    kind, N = life["kind"], int(life["scale"])
    c0 = [c for c in life["calls"] if is_call(c)][0]
    ra2, dec2 = concretise(kind, life["p2"], var, 2)
    ra1, dec1 = concretise(kind, c0["p1"], var, 1)
    rr = concrete_radius(kind, c0["rad"], var)
    n1, n2 = len(ra1), len(ra2)
    reps = -(-N // n1)
    big = [np.tile(np.array(x, dtype="f8"), reps)[:N] for x in (ra1, dec1)]
    brad = rr[0] if len(rr) == 1 else np.tile(np.array(rr, dtype="f8"), reps)[:N]
    srad = rr[0] if len(rr) == 1 else np.array(rr, dtype="f8")
    a2 = (np.array(ra2, dtype="f8"), np.array(dec2, dtype="f8"))
    use_file = var["pfile"] >= 0.3 and (N // 7) % 2 == 0
    try:
        obj = H.Matcher(var["depth"], a2[0], a2[1]) if var["flavour"] == "matcher" else None
        for k in (c0["ks"] if "ks" in c0 else [c0["k"]]):
            k = int(k)
            small = raw_match(var["flavour"], var["depth"], obj, (np.array(ra1), np.array(dec1)), a2, srad, k, None)
            tm1, tm2, td = (np.asarray(x) for x in small)
            if use_file:
                path = _tmpfile("scale")
                cnt = raw_match(var["flavour"], var["depth"], obj, big, a2, brad, k, path)
                data = H.read_pairs(path)
                os.unlink(path)
                m1, m2, d = np.asarray(data["i1"]), np.asarray(data["i2"]), np.asarray(data["d12"])
                if int(cnt) != m1.size:
                    return {"relation": "file_count", "k": k, "via": "file"}
            else:
                m1, m2, d = (np.asarray(x) for x in raw_match(var["flavour"], var["depth"], obj, big, a2, brad, k, None))
            full, rem = divmod(N, n1)
            parts1 = [tm1 + r * n1 for r in range(full)]
            sel = tm1 < rem
            e1 = np.concatenate(parts1 + [tm1[sel] + full * n1]) if tm1.size else np.zeros(0, dtype="i8")
            e2 = np.concatenate([tm2] * full + [tm2[sel]]) if tm1.size else np.zeros(0, dtype="i8")
            ed = np.concatenate([td] * full + [td[sel]]) if tm1.size else np.zeros(0)
            via = "file" if use_file else "mem"
            if m1.size != e1.size or not np.array_equal(m1, e1):
                return {"relation": "groups_differ_from_parts", "k": k, "via": via, "rows": [int(m1.size), int(e1.size)]}
            if m1.size and float(np.max(np.abs(d - ed))) > 1e-9:
                t = int(np.argmax(np.abs(d - ed)))
                return {"relation": "group_rows_not_in_the_order_of_the_parts", "k": k, "via": via, "row": t,
                        "first_index": int(m1[t])}
            bad = np.nonzero(m2 != e2)[0]
            if bad.size:
                pair_d = {(int(i), int(j)): float(x) for i, j, x in zip(tm1, tm2, td)}
                for t in bad[:2000].tolist():
                    x = pair_d.get((int(m1[t]) % n1, int(m2[t])))
                    if x is None or abs(x - float(d[t])) > 1e-9:          # not a swap among exact ties
                        return {"relation": "pairs_differ_from_parts", "k": k, "via": via, "row": t, "first_index": int(m1[t])}
            if m1.size and np.unique(m1 * n2 + m2).size != m1.size:
                return {"relation": "pair_repeated", "k": k, "via": via}
    except Exception as e:  # noqa
        return {"relation": "unexpected_error", "error": "%s: %s" % (type(e).__name__, str(e)[:200])}
    return None


# ---------------------------------------------------------------------------------
# judging (TLC) and reporting
def radius_class(life, call, var):
    if life["kind"] == "rs":
        return "rational_cosine_radius"
    eps = hl.EPS[var["eps"]]
    pos = [v for v in (F(r[0]) + r[1] * eps / 2 for r in call["rad"]) if v > 0]
    if not pos:
        return "radius=0"
    v = min(pos)                      # per-point radii: the smallest one names the class
    return "radius<1e-5" if v < F(1, 10 ** 5) else ("radius<1" if v < 1 else "radius>=1")


def signature(life, call, var, clause):
    if clause.startswith("file_"):
        return "match(file=)+read_pairs|%s|%s" % (clause, "no_pairs" if not call["mem1"] else "some_pairs")
    rc = radius_class(life, call, var)
    if rc == "radius<1e-5":
        # at micro-degree radii every pair in reach is "zero" or "few eps" apart: one class
        for suffix in ("_zero", "_few_eps"):
            if clause.endswith(suffix):
                clause = clause[:-len(suffix)]
    return "match|%s|%s" % (clause, rc)


def judge(ctx, lives, results, what, cap=4):
    """lives: {lid: life}; results: executed variants.  Identical records (same life, same observations) are judged
    once.  Returns the number of rejected executions."""
    uniq, members = {}, {}
    for r in results:
        life = lives[r["lid"]]
        body = {"kind": life["kind"], "p2": life["p2"], "ident": bool(life.get("ident", True)), "calls": r["calls"]}
        key = json.dumps(body, sort_keys=True)
        if key not in uniq:
            uniq[key] = dict(body, id=len(uniq) + 1)
            members[len(uniq)] = []
        members[uniq[key]["id"]].append(r)
    rejects = tracecheck.validate(ctx, "HtmMatchTrace.tla", list(uniq.values()), what=what)
    ctx.traces += sum(len(members[i]) - 1 for i in members if i not in rejects)
    emitted = {}
    nrej = 0
    for rid in sorted(rejects):
        for r in members[rid]:
            nrej += 1
            life = lives[r["lid"]]
            fails = sorted(tuple(x) for x in rejects[rid])
            # a pair file that differs from the in-memory result is reported as that, not once more per clause its
            # contents break
            filebad = {n for n, clause in fails if clause.startswith("file_")}
            for n, clause in fails:
                if n in filebad and not clause.startswith("file_"):
                    continue
                call = r["calls"][n - 1]
                sig = signature(life, call, r["var"], clause)
                if emitted.get(sig, 0) >= cap:
                    continue
                emitted[sig] = emitted.get(sig, 0) + 1
                ctx.violation(sig, "clause %s of HtmMatch.tla on call %d of the life: %s" %
                              (clause, n, describe(life, call, r, n)),
                              {"kind": "lattice", "life": life, "var": r["var"], "call": n, "clause": clause})
    for r in results:
        if not r["frame_ok"]:
            ctx.violation("match|argument_modified", "a coordinate / radius argument was modified by the call",
                          {"kind": "lattice", "life": lives[r["lid"]], "var": r["var"], "call": 0, "clause": "argument_modified"})
        if r.get("scale"):
            sc = r["scale"]
            n = lives[r["lid"]]["scale"]
            ctx.violation("match|scale_%s|first_set_%s" % (sc["relation"], ">=2^16" if n >= 65536 else "<2^16"),
                          "a first set of %d points (the small one tiled) is not matched as the concatenation of its parts "
                          "(ConcatLaw of HtmMatch.tla): %s; %s depth %d" % (n, sc, r["var"]["flavour"], r["var"]["depth"]),
                          {"kind": "lattice", "life": lives[r["lid"]], "var": r["var"], "call": 0, "clause": "scale"})
        if not r["notes"]["results_stable"]:
            # two readings of the same returned arrays (exception (i) of BUILDING.md: relation between outputs)
            ctx.violation("match|result_changed_by_later_call", "arrays returned by an earlier call changed during the life",
                          {"kind": "lattice", "life": lives[r["lid"]], "var": r["var"], "call": 0, "clause": "result_changed"})
    return nrej


def describe(life, call, r, n):
    var = r["var"]
    ex = r["extra"][n - 1]
    where = ("circle %s eps %s" % (hl.CIRCLES[var["circle"]], var["eps"])) if life["kind"] == "gc" else ("sym %d" % var["sym"])
    devs = [d for d in ex["dev"] if d]
    if call.get("hasall"):
        where += "; unlimited call on the same inputs gave m1=%s m2=%s" % (call["all1"][:12], call["all2"][:12])
    if r["notes"].get("overwrites"):
        where += "; caller overwrote the matcher's source arrays %d time(s)" % r["notes"]["overwrites"]
    return ("%s depth %d %s layout %s via %s maxmatch %d: returned m1=%s m2=%s%s%s" %
            (var["flavour"], var["depth"], where, var["layout"], call["via"], call["k"], call["m1"][:12], call["m2"][:12],
             (" separations off the lattice by %s" % [d[1] for d in devs][:4]) if devs else "",
             (" error %s %s" % (call["err"], ex["msg"])) if call["err"] != "none" else ""))


# ---------------------------------------------------------------------------------
# seeded larger lives over the full lattices (code -> spec)
_RS_ALL = None


def rs_all():
    global _RS_ALL
    if _RS_ALL is None:
        _RS_ALL = [list(p) for p in hl.pythagorean_points(15)]
    return _RS_ALL


RS_RADII = [(1, 1), (224, 225), (24, 25), (12, 13), (4, 5), (3, 5), (1, 2), (1, 3), (0, 1), (-1, 3), (-1, 2), (-4, 5),
            (-1, 1), (99, 100), (199, 200), (9, 10), (7, 25), (2, 3), (-99, 100), (119, 169), (5, 13), (8, 17)]


def _ks(rng, n2):
    return rng.choice([-1, 0, 1, 2, 3, n2 + 1, rng.randrange(1, n2 + 2)])


def dense_life(rng):
    """a matcher set of several hundred lattice points (>= 256 occupied leaf triangles at moderate depth) searched
    around a few points with radii of a few degrees: covers of hundreds of full and partial triangles"""
    if rng.random() < 0.5:
        pool = rs_all()
        p2 = list(pool)
        rng.shuffle(p2)
        p2 = p2[:rng.choice([300, len(p2)])]
        radii = [(224, 225), (99, 100), (199, 200), (24, 25), (12, 13)]
        calls = []
        for _ in range(rng.choice([1, 2])):
            p1 = [rng.choice(pool) for _ in range(rng.choice([1, 2, 4]))]
            rad = [list(rng.choice(radii)) for _ in p1] if rng.random() < 0.4 and len(p1) > 1 else [list(rng.choice(radii))]
            calls.append({"op": "call", "p1": [list(q) for q in p1], "rad": rad, "k": rng.choice([0, 0, 1, 3, -1])})
        return {"kind": "rs", "p2": [list(q) for q in p2], "ident": True, "calls": calls}
    step = rng.choice([1, 1, 2])
    p2 = [[a, rng.choice([0, 0, 1, -1, 2])] for a in range(0, 360, step)] + [[rng.randrange(360), rng.choice([-2, 3])] for _ in range(200)]
    rng.shuffle(p2)
    radii = [[1, 1], [2, -1], [3, 1], [5, 1], [8, -1], [12, 1]]
    calls = []
    for _ in range(rng.choice([1, 2])):
        p1 = [[rng.randrange(360), rng.choice([0, 1, -1])] for _ in range(rng.choice([1, 2, 4]))]
        rad = [list(rng.choice(radii)) for _ in p1] if rng.random() < 0.4 and len(p1) > 1 else [list(rng.choice(radii))]
        calls.append({"op": "call", "p1": p1, "rad": rad, "k": rng.choice([0, 0, 1, 3, -1])})
    haspole = any(p[0] in (90, 270) and p[1] == 0 for p in p2)
    return {"kind": "gc", "p2": p2, "ident": (not haspole) or rng.random() < 0.5, "calls": calls}


def seeded_life(rng, nmax):
    fam = rng.choice(["cluster", "cluster", "micro", "spread", "rs", "rs", "rs_cluster"])
    if rng.random() < 0.04:
        return dense_life(rng)
    n2 = rng.choice([1, 2, 3, nmax // 2 + 1, nmax])
    ncalls = rng.choice([1, 1, 2, 3, 4])
    if fam in ("rs", "rs_cluster"):
        pool = rs_all()
        if fam == "rs_cluster":
            c = rng.choice(pool)
            near = sorted(pool, key=lambda q: -(c[0] * q[0] + c[1] * q[1] + c[2] * q[2]) * 1.0 / (c[3] * q[3]))
            pool = near[:rng.choice([8, 20, 60])]
        p2 = [rng.choice(pool) for _ in range(n2)]
        calls = []
        for _ in range(ncalls):
            if rng.random() < 0.3:
                p1 = list(p2)
            else:
                p1 = [rng.choice(pool if rng.random() < 0.8 else p2) for _ in range(rng.choice([1, 2, 3, nmax]))]
            if rng.random() < 0.4 and len(p1) > 1:
                rad = [list(rng.choice(RS_RADII)) for _ in p1]
            else:
                rad = [list(rng.choice(RS_RADII))]
            calls.append({"p1": p1, "rad": rad, "k": _ks(rng, n2)})
        life = {"kind": "rs", "p2": p2, "calls": calls}
    else:
        if fam == "micro":          # eps is bound to 1e-7 / 1e-6 degree by allowed_eps: radii >= 1.05e-6 degree
            a0 = rng.choice([0, 45, 90, 135, 180, 270, 30, 315])
            bs = list(range(-20, 21))
            pos = [[a0, b] for b in bs]
            hs = [[0, h] for h in range(21, 90, 2)]
        elif fam == "cluster":
            a0 = rng.choice([0, 45, 90, 180, 270, 1, 89, 359, 22, 135])
            B = rng.choice([2, 4, 12])
            pos = [[a0, b] for b in range(-B, B + 1)]
            if rng.random() < 0.3:
                pos += [[(a0 + 180) % 360, b] for b in range(-B, B + 1)]
            hs = [[0, h] for h in range(0, 4 * B + 3)] + [[180, -h] for h in range(0, 2 * B + 2)]
        else:
            avals = rng.sample(range(0, 360), 4) + [0, 90, 180, 270, 359, 1]
            pos = [[a, b] for a in avals for b in (-2, -1, 0, 1, 2)]
            hs = [[a, h] for a in (0, 1, 2, 30, 45, 89, 90, 91, 135, 179) for h in (-3, -1, 1, 3)
                  if not (a == 0 and h < 0)] + [[180, -1], [180, 0], [0, 0]]
        p2 = [rng.choice(pos) for _ in range(n2)]
        calls = []
        for _ in range(ncalls):
            if rng.random() < 0.3:
                p1 = [list(p) for p in p2]
            else:
                p1 = [rng.choice(pos) for _ in range(rng.choice([1, 2, 3, nmax]))]
            if rng.random() < 0.4 and len(p1) > 1:
                rad = [list(rng.choice(hs)) for _ in p1]
            else:
                rad = [list(rng.choice(hs))]
            calls.append({"p1": p1, "rad": rad, "k": _ks(rng, n2)})
        life = {"kind": "gc", "p2": [list(p) for p in p2], "calls": calls}
        if fam == "micro":
            life["eps_hint"] = "smallest"
    if len(life["calls"]) >= 2 and rng.random() < 0.5:
        life["calls"].append(dict(life["calls"][0]))       # the first call again, after the others
    # equal points bit-identical?  (only a pole can be written in two ways)
    haspole = life["kind"] == "gc" and any(p[0] in (90, 270) and p[1] == 0 for p in life["p2"])
    life["ident"] = (not haspole) or rng.random() < 0.5
    for c in life["calls"]:
        c["op"] = "call"
    if rng.random() < 0.35:
        # the caller overwrites the arrays the matcher was built from, somewhere before a call
        src = life["p2"]
        pool2 = [c["p1"][0] for c in life["calls"]] + list(src)
        how = rng.choice(["reverse", "const", "shuffle", "other"])
        if how == "reverse":
            nb = list(reversed(src))
        elif how == "const":
            nb = [rng.choice(pool2)] * len(src)
        elif how == "shuffle":
            nb = list(src)
            rng.shuffle(nb)
        else:
            nb = [rng.choice(pool2) for _ in src]
        life["calls"].insert(rng.randrange(0, len(life["calls"])), {"op": "ow", "buf": [list(q) for q in nb]})
    return life


def seeded_lives(seed, n, nmax):
    rng = random.Random(seed * 9176 + 5)
    out = []
    while len(out) < n:
        life = seeded_life(rng, nmax)
        if allowed_eps(life):
            out.append(life)
    return out


# ---------------------------------------------------------------------------------
# off the lattices: relations between implementation outputs only
def _sep_ld(ra1, dec1, ra2, dec2):
    """chord-based separation in degrees, longdouble (used only to keep generated radii away from ties)"""
    L = np.longdouble
    d2r = L(np.pi) / L(180)
    a1, d1, a2, d2 = (np.asarray(x, dtype=L) * d2r for x in (ra1, dec1, ra2, dec2))
    s = np.sin((d1[:, None] - d2[None, :]) / 2) ** 2 + np.cos(d1)[:, None] * np.cos(d2)[None, :] * np.sin((a1[:, None] - a2[None, :]) / 2) ** 2
    s = np.clip(s, 0, 1)
    return 2 * np.arcsin(np.sqrt(s)) / d2r


def off_points(rs, n):
    fam = rs.choice(["uniform", "cap", "cap", "pole", "seam"])
    if fam == "uniform":
        ra = rs.uniform(0, 360, n)
        dec = np.degrees(np.arcsin(rs.uniform(-1, 1, n)))
    elif fam == "cap":
        size = 10 ** rs.uniform(-4, math.log10(30))
        ra0, dec0 = rs.uniform(0, 360), np.degrees(np.arcsin(rs.uniform(-1, 1)))
        dec = np.clip(dec0 + rs.uniform(-size, size, n), -90, 90)
        ra = (ra0 + rs.uniform(-size, size, n) / max(math.cos(math.radians(dec0)), 0.02)) % 360
    elif fam == "pole":
        size = 10 ** rs.uniform(-4, 1)
        sgn = rs.choice([-1, 1])
        dec = sgn * (90 - np.abs(rs.uniform(0, size, n)))
        dec[rs.rand(n) < 0.1] = sgn * 90.0
        ra = rs.uniform(0, 360, n)
    else:
        size = 10 ** rs.uniform(-4, 1)
        ra = rs.uniform(-size, size, n) % 360
        dec = rs.uniform(-size, size, n) * rs.choice([0.0, 1.0, 30.0])
        dec = np.clip(dec, -90, 90)
    return fam, size if fam != "uniform" else 60.0, np.asarray(ra, dtype="f8"), np.asarray(dec, dtype="f8")


def off_case(arg):
    """returns None (no usable radius), {"ok": True, ...} or a dict describing the first broken relation"""
    seed, nmax, budget, depths_all = arg
    rs = np.random.RandomState(seed % (2 ** 32))
    if seed % 8 == 1:
        return off_dense_case(rs, budget)
    n2 = int(rs.choice([1, 2, 5, nmax // 3 + 1, nmax]))
    fam, size, ra2, dec2 = off_points(rs, n2)
    if rs.rand() < 0.35:
        ra1, dec1 = ra2.copy(), dec2.copy()                     # self match
    else:
        st = np.random.RandomState(rs.randint(1 << 30))
        n1 = int(rs.choice([1, 3, nmax // 2 + 1]))
        if rs.rand() < 0.7:                                       # same region: perturb members of set 2
            idx = st.randint(0, n2, n1)
            ra1 = (ra2[idx] + st.uniform(-size, size, n1) * 0.1) % 360
            dec1 = np.clip(dec2[idx] + st.uniform(-size, size, n1) * 0.1, -90, 90)
        else:
            _, _, ra1, dec1 = off_points(st, n1)
    if rs.rand() < 0.3 and n2 > 2:                                # duplicates
        j = rs.randint(0, n2, max(1, n2 // 3))
        ra2[j], dec2[j] = ra2[j[0]], dec2[j[0]]
    sep = _sep_ld(ra1, dec1, ra2, dec2)
    perpoint = rs.rand() < 0.4 and len(ra1) > 1
    base = float(rs.choice([size * 0.05, size * 0.3, size, min(180.0, size * 3), 180.0 * rs.rand()]))
    base = min(max(base, 2e-6), 180.0)
    rad = base * (rs.uniform(0.3, 1.0, len(ra1)) if perpoint else np.ones(1))
    rad = np.minimum(np.maximum(rad, 1.5e-6), 180.0)
    for _ in range(40):                                           # keep every pair >= 1e-7 degree from its radius
        rr = rad if perpoint else np.full(len(ra1), rad[0])
        if np.all(np.abs(sep - rr[:, None].astype(np.longdouble)) > 1e-7):
            break
        rad = np.minimum(rad * (1 + 1e-4 * (1 + rs.rand())), 180.0) if rad.max() < 180.0 else rad * (1 - 1e-4)
    else:
        return None
    radarg = rad if perpoint else float(rad[0])
    maxr = float(np.max(rad))
    depths = [d for d in depths_all if len(ra1) * hl.trixels_in_cap(maxr, d) <= budget] or [1]
    dsel = sorted(set([depths[0], depths[-1]] + [depths[int(i)] for i in rs.randint(0, len(depths), 2)]))
    k = int(rs.choice([1, 2, 3, n2 + 1]))
    case = {"kind": "offlattice", "ra1": [x.hex() for x in ra1.tolist()], "dec1": [x.hex() for x in dec1.tolist()],
            "ra2": [x.hex() for x in ra2.tolist()], "dec2": [x.hex() for x in dec2.tolist()],
            "rad": [float(x).hex() for x in np.atleast_1d(radarg).tolist()], "depths": dsel, "k": k, "family": fam}
    return off_relations(case)


def off_dense_case(rs, budget):
    """thousands of second-set points in a 10-degree region, radii of 0.5 .. 3 degrees, depths 6 .. 11: tree and cover
    both hold hundreds of leaf triangles; the pair set must not depend on the depth"""
    n2 = int(rs.choice([600, 2000, 5000]))
    ra0, dec0 = rs.uniform(0, 360), float(np.degrees(np.arcsin(rs.uniform(-0.95, 0.95))))
    dec2 = np.clip(dec0 + rs.uniform(-6, 6, n2), -90, 90)
    ra2 = (ra0 + rs.uniform(-6, 6, n2) / max(math.cos(math.radians(dec0)), 0.05)) % 360
    n1 = int(rs.choice([2, 5]))
    idx = rs.randint(0, n2, n1)
    ra1 = (ra2[idx] + rs.uniform(-0.3, 0.3, n1)) % 360
    dec1 = np.clip(dec2[idx] + rs.uniform(-0.3, 0.3, n1), -90, 90)
    rad = float(rs.choice([0.5, 1.0, 1.5, 3.0]))
    sep = _sep_ld(ra1, dec1, ra2, dec2)
    for _ in range(40):
        if np.all(np.abs(sep - np.longdouble(rad)) > 1e-7):
            break
        rad *= 1 + 1e-4 * (1 + rs.rand())
    else:
        return None
    depths = [d for d in (6, 8, 9, 10, 11) if n1 * hl.trixels_in_cap(rad, d) * 4 <= max(budget, 4e5) * 10] or [6, 8]
    case = {"kind": "offlattice", "ra1": [x.hex() for x in ra1.tolist()], "dec1": [x.hex() for x in dec1.tolist()],
            "ra2": [x.hex() for x in ra2.tolist()], "dec2": [x.hex() for x in dec2.tolist()],
            "rad": [float(rad).hex()], "depths": depths[:4], "k": int(rs.choice([1, 3])), "family": "dense"}
    return off_relations(case)


def _groups(m1, m2, d):
    g = {}
    for a, b, x in zip(m1, m2, d):
        g.setdefault(a, []).append((b, x))
    return g


def off_relations(case):
    import esutil.htm as H
    fh = float.fromhex
    ra1, dec1, ra2, dec2 = (np.array([fh(x) for x in case[key]], dtype="f8") for key in ("ra1", "dec1", "ra2", "dec2"))
    rad = np.array([fh(x) for x in case["rad"]], dtype="f8")
    radarg = rad if rad.size > 1 else float(rad[0])
    ref, refd = None, None
    k = case["k"]
    try:
        os.unlink(_tmpfile("off"))
    except OSError:
        pass

    def bad(rel, **kw):
        return dict(case, relation=rel, **kw)
    for depth in case["depths"]:
        try:
            m = H.Matcher(depth, ra2, dec2)
            a = _mem_result(m.match(ra1, dec1, radarg, maxmatch=0))
            b = _mem_result(H.HTM(depth).match(ra1, dec1, ra2, dec2, radarg, maxmatch=-1))
            lim = _mem_result(m.match(ra1, dec1, radarg, maxmatch=k))
            path = _tmpfile("off")
            cnt = m.match(ra1, dec1, radarg, maxmatch=0, file=path)
            data = H.read_pairs(path)
            again = _mem_result(m.match(ra1, dec1, radarg, maxmatch=0))
        except Exception as e:  # noqa
            return bad("unexpected_error", depth=depth, error="%s: %s" % (type(e).__name__, str(e)[:200]))
        pa = list(zip(a[0], a[1]))
        if len(set(pa)) != len(pa):
            return bad("pair_repeated", depth=depth)
        if any(x > y for x, y in zip(a[0], a[0][1:])):
            return bad("groups_not_in_input_order", depth=depth)
        if any(a[0][t] == a[0][t + 1] and a[2][t] > a[2][t + 1] for t in range(len(pa) - 1)):
            return bad("group_not_sorted_by_reported_separation", depth=depth)
        if sorted(pa) != sorted(zip(b[0], b[1])):
            return bad("oneshot_differs_from_matcher", depth=depth)
        if again[:2] != a[:2]:
            return bad("history_dependent", depth=depth)
        if int(cnt) != len(pa) or sorted(zip(_ints(data["i1"]), _ints(data["i2"]))) != sorted(pa):
            return bad("file_pairs_differ", depth=depth)
        if len(data) and float(np.max(np.abs(np.asarray(data["d12"]) - np.array(a[2])))) > 1e-9:
            return bad("file_separation_differs", depth=depth)
        ga, gl = _groups(*a), _groups(*lim)
        for i, full in ga.items():
            got = gl.get(i, [])
            want = full[:k]
            if len(got) != len(want) or [x for _, x in got] != [x for _, x in want] or \
                    not set(j for j, _ in got) <= set(j for j, _ in full):
                return bad("limited_not_prefix_of_unlimited", depth=depth, group=i)
        if set(gl) - set(ga):
            return bad("limited_not_prefix_of_unlimited", depth=depth)
        # exact ties: radii taken from separations the code itself reported (and 0 for coincident points).  Whether a
        # pair exactly on the radius is returned is open - but the limited answer must still be the first k of the
        # unlimited answer of the same matcher, and bit-identical points are zero apart, hence within radius 0
        tie = np.array(rad if rad.size > 1 else np.full(len(ra1), rad[0]), dtype="f8")
        for i, full in ga.items():
            x = full[(i + depth) % len(full)][1]
            if x == 0.0 or 1e-6 <= x <= 180.0:
                tie[i] = x
        for kk in (1, k):
            try:
                ta = _mem_result(m.match(ra1, dec1, tie, maxmatch=0))
                tl = _mem_result(m.match(ra1, dec1, tie, maxmatch=kk))
                to = _mem_result(H.HTM(depth).match(ra1, dec1, ra2, dec2, tie, maxmatch=kk))
            except Exception as e:  # noqa
                return bad("unexpected_error", depth=depth, error="%s: %s" % (type(e).__name__, str(e)[:200]))
            gta = _groups(*ta)
            for name, lim_res in (("matcher", tl), ("oneshot", to)):
                gtl = _groups(*lim_res)
                for i, full in gta.items():
                    got, want = gtl.get(i, []), full[:kk]
                    if len(got) != len(want) or [x for _, x in got] != [x for _, x in want] or \
                            not set(j for j, _ in got) <= set(j for j, _ in full):
                        return bad("limited_not_prefix_of_unlimited_at_tie", depth=depth, group=i, flavour=name, limit=kk)
                if set(gtl) - set(gta):
                    return bad("limited_not_prefix_of_unlimited_at_tie", depth=depth, flavour=name, limit=kk)
        zero = np.zeros(len(ra1))
        try:
            z0 = _mem_result(m.match(ra1, dec1, zero, maxmatch=0))
            z1 = _mem_result(m.match(ra1, dec1, 0.0, maxmatch=1))
        except Exception as e:  # noqa
            return bad("unexpected_error", depth=depth, error="%s: %s" % (type(e).__name__, str(e)[:200]))
        same = {(i, j) for i in range(len(ra1)) for j in np.nonzero((ra2 == ra1[i]) & (dec2 == dec1[i]))[0].tolist()}
        if not same <= set(zip(z0[0], z0[1])):
            return bad("identical_points_not_matched_at_radius_0", depth=depth, limit=0)
        gz0, gz1 = _groups(*z0), _groups(*z1)
        if any(len(gz1.get(i, [])) != 1 for i, _ in same):
            return bad("identical_points_not_matched_at_radius_0", depth=depth, limit=1)
        for i, got in gz1.items():
            full = gz0.get(i, [])
            if len(got) != 1 or not full or got[0][1] != full[0][1] or got[0][0] not in set(j for j, _ in full):
                return bad("limited_not_prefix_of_unlimited_at_tie", depth=depth, group=i, flavour="matcher", limit=1)
        if ref is None:
            ref, refd = sorted(pa), dict(zip(pa, a[2]))
        else:
            if sorted(pa) != ref:
                return bad("depth_dependent_pair_set", depth=depth, other_depth=case["depths"][0])
            if any(abs(refd[p] - x) > 1e-9 for p, x in zip(pa, a[2])):
                return bad("depth_dependent_separation", depth=depth, other_depth=case["depths"][0])
    return {"ok": True, "npairs": len(ref or []), "family": case["family"], "ndepths": len(case["depths"])}


# ---------------------------------------------------------------------------------
# the world machine (HtmMatchWorld.tla): sessions over several matcher objects of different depths, the one-shot
# entry point and the caller's own steps (scribbling over results, dropping objects), each executed in ONE process
def _world_consts(scope, nobj, n2, n1, nev):
    return dict(Scope=scope, MaxObjs=nobj, MaxN2=n2, MaxN1=n1, MaxEv=nev, Depths={1, 2})


def is_wcall(e):
    return e["op"] in ("call", "oneshot")


def session_trim(sess):
    """a session ends with its last call (what the caller does afterwards is observed by nobody)"""
    ev = list(sess["events"])
    while ev and not is_wcall(ev[-1]):
        ev.pop()
    return {"kind": sess["kind"], "events": [{k: v for k, v in e.items() if k != "out"} for e in ev]}


def session_life(sess):
    """the session seen as one pseudo life: only for the quantifier check (allowed_eps) and the cost control"""
    p2 = [p for e in sess["events"] if e["op"] == "new" for p in e["p2"]]
    calls = [{"op": "call", "p1": e["p1"], "rad": e["rad"], "k": e["k"]} for e in sess["events"] if is_wcall(e)]
    return {"kind": sess["kind"], "p2": p2, "calls": calls}


def session_interleaved(sess, depthmap=None):
    """does some object answer a call after a matcher of ANOTHER depth was built (New or one-shot) since its own
    construction?"""
    dm = depthmap or {}
    own, last = {}, None
    for e in sess["events"]:
        d = dm.get(str(e.get("depth")), e.get("depth"))
        if e["op"] == "new":
            own[e["obj"]] = d
            last = d
        elif e["op"] == "oneshot":
            last = d
        elif e["op"] == "call" and own[e["obj"]] != last:
            return True
    return False


def plan_session_variants(sess, sid, seed, T, nvariants):
    rng = random.Random((seed * 1000003 + sid) * 6007 + 29)
    life = session_life(sess)
    eps_names = allowed_eps(life)
    if not eps_names:
        raise MachineryError("session outside the quantifier under every eps: %s" % json.dumps(sess)[:300])
    labels = sorted({str(e["depth"]) for e in sess["events"] if "depth" in e})
    out = []
    for v in range(nvariants):
        en = eps_names[(sid + v * 3 + seed) % len(eps_names)]
        eps = hl.EPS[en] if en else None
        depths = [d for d in ALL_DEPTHS if life_cost(life, eps, d) <= T["trixel_budget"]]
        if len(depths) < len(labels):
            depths = ALL_DEPTHS[:max(2, len(labels))]
        # different labels -> different depths (neighbours and far apart alike); the same label -> the same depth
        pick = rng.sample(depths, len(labels))
        var = {"eps": en, "depthmap": dict(zip(labels, pick)), "layout": LAYOUTS[(sid + v + seed) % len(LAYOUTS)],
               "pfile": rng.choice([0, 0, 3]) / 10.0, "vseed": rng.randrange(1 << 30)}
        if sess["kind"] == "gc":
            var["circle"] = (sid + 3 * v + seed) % len(hl.CIRCLES)
        else:
            var["sym"] = (sid + 3 * v + seed) % len(SYMS)
        out.append(var)
    return out


def _err_obs(err):
    return {"err": err, "via": "mem", "m1": [], "m2": [], "dd": [], "count": -1, "rerr": "none", "mem1": [], "mem2": [],
            "hasall": False, "all1": [], "all2": []}


def run_session(sess, var):
    """execute one session, in this process, event by event -> ([(event number, observation)], frame_ok, notes)"""
    import gc
    import esutil.htm as H
    kind = sess["kind"]
    eps = hl.EPS[var["eps"]] if kind == "gc" else None
    rng = random.Random(var["vseed"])
    lay = var["layout"]
    objs, obs, results, frame_ok = {}, [], {}, True
    notes = {"scribbled": 0, "dropped": 0}
    try:
        os.unlink(_tmpfile("pairs"))
    except OSError:
        pass

    def arrays(pts, role):
        ra, dec = concretise(kind, pts, var, role)
        return (make_layout(ra, lay)[0], make_layout(dec, lay)[0]), len(ra)
    for n, e in enumerate(sess["events"], 1):
        op = e["op"]
        if op == "new":
            a2, n2 = arrays(e["p2"], 2)
            depth = var["depthmap"][str(e["depth"])]
            w = {"a2": a2, "n2": n2, "depth": depth, "err": "none", "obj": None, "snaps": [hl.snapshot(a2[0]), hl.snapshot(a2[1])]}
            try:
                w["obj"] = H.Matcher(depth, a2[0], a2[1])
            except Exception as ex:  # noqa
                w["err"] = type(ex).__name__
            objs[e["obj"]] = w
        elif op == "drop":
            objs.pop(e["obj"], None)
            gc.collect()
            notes["dropped"] += 1
        elif op == "scribble":
            ent = results.pop(e["at"], None)          # the arrays that call returned are the caller's: overwrite them
            if ent is not None:
                for a in ent[0]:
                    try:
                        a[...] = -7
                    except Exception:  # noqa
                        pass
                notes["scribbled"] += 1
        else:
            a1, n1 = arrays(e["p1"], 1)
            rr = concrete_radius(kind, e["rad"], var)
            rad = (rr[0] if rng.random() < 0.7 else make_layout(rr, lay)[0]) if len(rr) == 1 else make_layout(rr, lay)[0]
            use_file = rng.random() < var["pfile"]
            keep = []
            s1 = [hl.snapshot(a1[0]), hl.snapshot(a1[1]), hl.snapshot(rad)]
            if op == "call":
                w = objs[e["obj"]]
                a2, n2, snaps = w["a2"], w["n2"], w["snaps"]
                o = _err_obs(w["err"]) if w["err"] != "none" else \
                    observe_call("matcher", w["depth"], w["obj"], a1, a2, rad, int(e["k"]), use_file, keep)
            else:
                a2, n2 = arrays(e["p2"], 2)
                snaps = [hl.snapshot(a2[0]), hl.snapshot(a2[1])]
                o = observe_call("oneshot", var["depthmap"][str(e["depth"])], None, a1, a2, rad, int(e["k"]), use_file, keep)
            if s1 != [hl.snapshot(a1[0]), hl.snapshot(a1[1]), hl.snapshot(rad)] or \
                    snaps != [hl.snapshot(a2[0]), hl.snapshot(a2[1])]:
                frame_ok = False
            if keep:
                results[n] = keep[0]
            cap = n1 * n2 + 1
            for key in ("m1", "m2", "dd", "mem1", "mem2", "all1", "all2"):
                del o[key][cap:]
            o["d"], o["dev"] = [], []
            for x in o.pop("dd"):
                pj = hl.project(kind, x, eps)
                o["d"].append({"on": bool(pj["on"]), "v": [int(pj["v"][0]), int(pj["v"][1])]})
                o["dev"].append(None if pj["on"] else [x.hex() if x == x else "nan", pj.get("dev")])
            obs.append((n, o))
    stable = True                       # results not scribbled over must still read as they did when handed out
    for res, then in results.values():
        try:
            now = _mem_result(res)
        except Exception:  # noqa
            now = None
        if now is None or (now[0], now[1]) != (then[0], then[1]) or [x.hex() for x in now[2]] != [x.hex() for x in then[2]]:
            stable = False
    notes["results_stable"] = stable
    return obs, frame_ok, notes


def exec_session(arg):
    sid, vi, sess, var = arg
    obs, frame_ok, notes = run_session(sess, var)
    calls = {}
    for n, o in obs:
        e = sess["events"][n - 1]
        calls[n] = dict({"p1": e["p1"], "rad": e["rad"], "k": int(e["k"])}, **{k: o[k] for k in OBS_KEYS})
    return {"sid": sid, "vi": vi, "var": var, "calls": calls, "frame_ok": frame_ok, "notes": notes,
            "extra": {n: {"dev": o["dev"], "msg": o.get("msg")} for n, o in obs}}


def session_records(sess, r):
    """what HtmMatchTrace judges: one record per OBJECT of the session (its point set, then the calls made on it, in
    order) and one per one-shot call - every call against the point set of its own object, nothing else.
    -> [(record body, [event numbers of its calls])]"""
    calls = {int(n): c for n, c in r["calls"].items()}
    out, per = [], {}
    for n, e in enumerate(sess["events"], 1):
        if e["op"] == "new":
            per[e["obj"]] = ({"kind": sess["kind"], "p2": e["p2"], "ident": True, "calls": []}, [])
        elif e["op"] == "call":
            per[e["obj"]][0]["calls"].append(calls[n])
            per[e["obj"]][1].append(n)
        elif e["op"] == "oneshot":
            out.append(({"kind": sess["kind"], "p2": e["p2"], "ident": True, "calls": [calls[n]]}, [n]))
    return out + [v for v in per.values() if v[1]]


def describe_session(sess, r, n):
    var = r["var"]
    e = sess["events"][n - 1]
    c = r["calls"][n]
    hist = []
    for t, x in enumerate(sess["events"][:n], 1):
        if x["op"] == "new":
            hist.append("%d:Matcher#%d(depth %d, %d pts)" % (t, x["obj"], var["depthmap"][str(x["depth"])], len(x["p2"])))
        elif x["op"] == "call":
            hist.append("%d:#%d.match" % (t, x["obj"]))
        elif x["op"] == "oneshot":
            hist.append("%d:HTM(%d).match" % (t, var["depthmap"][str(x["depth"])]))
        elif x["op"] == "drop":
            hist.append("%d:del #%d" % (t, x["obj"]))
        else:
            hist.append("%d:scribble over result of %d" % (t, x["at"]))
    ex = r["extra"][n]
    return ("event %d (%s) of the one-process session [%s] layout %s via %s maxmatch %d returned m1=%s m2=%s%s" %
            (n, e["op"], " ".join(hist), var["layout"], c["via"], c["k"], c["m1"][:12], c["m2"][:12],
             (" error %s %s" % (c["err"], ex["msg"])) if c["err"] != "none" else ""))


def judge_sessions(ctx, sessions, results, what, cap=4):
    """every call of every executed session judged by HtmMatchTrace against its own object; -> rejected executions"""
    uniq, members = {}, {}
    for r in results:
        for body, evs in session_records(sessions[r["sid"]], r):
            key = json.dumps(body, sort_keys=True)
            if key not in uniq:
                uniq[key] = dict(body, id=len(uniq) + 1)
                members[len(uniq)] = []
            members[uniq[key]["id"]].append((r, evs))
    rejects = tracecheck.validate(ctx, "HtmMatchTrace.tla", list(uniq.values()), what=what)
    emitted, bad = {}, set()
    for rid in sorted(rejects):
        for r, evs in members[rid]:
            sess = sessions[r["sid"]]
            bad.add((r["sid"], r["vi"]))
            fails = sorted(tuple(x) for x in rejects[rid])
            filebad = {n for n, clause in fails if clause.startswith("file_")}
            for n, clause in fails:
                if n in filebad and not clause.startswith("file_"):
                    continue
                en = evs[n - 1]
                sig = signature(session_life(sess), r["calls"][en], r["var"], clause) + "|session"
                if emitted.get(sig, 0) >= cap:
                    continue
                emitted[sig] = emitted.get(sig, 0) + 1
                ctx.violation(sig, "clause %s of HtmMatch.tla, judged against the call's own object (WorldIndependent of "
                              "HtmMatchWorld.tla): %s" % (clause, describe_session(sess, r, en)),
                              {"kind": "session", "session": sess, "var": r["var"], "event": en, "clause": clause})
    for r in results:
        case = {"kind": "session", "session": sessions[r["sid"]], "var": r["var"], "event": 0}
        if not r["frame_ok"]:
            ctx.violation("match|argument_modified|session", "a coordinate / radius argument was modified by a call of a session",
                          dict(case, clause="argument_modified"))
        if not r["notes"]["results_stable"]:
            ctx.violation("match|result_changed_by_later_call|session",
                          "arrays returned by an earlier call of a session changed later in the session", dict(case, clause="result_changed"))
    return len(bad)


def _export_sessions(ctx, kind, job):
    c = dict(job["consts"], Kind=kind, Mechanism="own", DoExport=True)
    kw = {}
    if job["num"]:
        kw = dict(simulate="num=%d" % job["num"], extra=["-depth", "60", "-seed", str(ctx.seed + 23)])
    r = ctx.tlc("HtmMatchWorld.tla", what="export %s sessions [%s]" % (job["name"], kind),
                cfg_text=cfg(constants=c, next_="NextExport" if job["num"] else "NextExportOne", constraints=["Export"]),
                workers=1, coverage=False, timeout=3000, **kw)
    seen, out = set(), []
    for sess in r.records.get("CASE", []):
        sess = session_trim(sess)
        key = json.dumps(sess, sort_keys=True)
        if key not in seen and sess["events"]:
            seen.add(key)
            out.append(sess)
    if not out:
        raise MachineryError("no sessions exported by %s [%s]" % (job["name"], kind))
    if job.get("thin"):
        # covering design over the exhaustive set: every session in which an object answers after a matcher of another
        # depth was built, every thin-th of the others
        out = [s for t, s in enumerate(out) if session_interleaved(s) or t % job["thin"] == ctx.seed % job["thin"]]
    return out


def world_step(ctx, T, only):
    """design level (TLC): the faithful mechanism satisfies WorldIndependent, the two deviating ones violate it;
    conformance: exported sessions executed, each in one process, every call judged on its own object"""
    W = T["world"]
    stats = {"sessions": 0, "executions": 0, "calls": 0, "pairs": 0, "interleaved": 0, "scribbled": 0, "dropped": 0, "rejected": 0}
    jobs = [(job, kind) for job in W["jobs"] for kind in ("gc", "rs")]
    with ThreadPoolExecutor(4) as ex:
        futs = [ex.submit(_export_sessions, ctx, kind, job) for job, kind in jobs]
        exported = [f.result() for f in futs]
    sessions, work = {}, []
    for (job, kind), ls in zip(jobs, exported):
        for sess in ls:
            sid = len(sessions) + 1
            sessions[sid] = sess
            for vi, var in enumerate(plan_session_variants(sess, sid, ctx.seed, T, job["variants"])):
                work.append((sid, vi, sess, var))
    results = pmap(exec_session, work)
    for r in results:
        sess = sessions[r["sid"]]
        ctx.count({"session": sess, "var": r["var"]})
        stats["calls"] += len(r["calls"])
        stats["pairs"] += sum(len(c["m1"]) for c in r["calls"].values())
        stats["interleaved"] += session_interleaved(sess, r["var"]["depthmap"])
        stats["scribbled"] += r["notes"]["scribbled"]
        stats["dropped"] += r["notes"]["dropped"]
    stats["sessions"], stats["executions"] = len(sessions), len(results)
    ctx.evaluations += stats["calls"] - len(results)
    stats["rejected"] = judge_sessions(ctx, sessions, results, "judge executed sessions, call by call on its own object (HtmMatchTrace)")
    ctx.log("world: %(sessions)d sessions, %(executions)d executions, %(calls)d calls, %(interleaved)d with a matcher re-used "
            "after another depth was built, %(rejected)d rejected" % stats)
    if not stats["rejected"] and not ctx.violations and (stats["interleaved"] < 50 or stats["scribbled"] < 10 or stats["dropped"] < 10 or stats["pairs"] < stats["executions"]):
        raise MachineryError("world step vacuous: %s" % stats)
    return stats


def world_mech(ctx, T):
    """-> list of thunks for the TLC pool"""
    def faithful(kind, consts):
        c = dict(consts, Kind=kind, Mechanism="own", DoExport=False)
        return ctx.tlc("HtmMatchWorld.tla", what="world machine: every call = its fresh-world outcome [%s, %d events]" % (kind, consts["MaxEv"]),
                       cfg_text=cfg(constants=c, invariants=["WorldIndependent"], properties=["WorldFrozen"]), workers=8,
                       require=["Pick", "New", "Call", "OneShot", "Scribble", "Drop"], timeout=3000)

    def deviating(mechname):
        c = dict(_world_consts("h", 2, 1, 1, 4), Kind="gc", Mechanism=mechname, DoExport=False)
        r = ctx.tlc("HtmMatchWorld.tla", what="self-test: mechanism %s violates WorldIndependent" % mechname,
                    cfg_text=cfg(constants=c, invariants=["WorldIndependent"]), workers=1, allow_violation=True, coverage=False)
        if "WorldIndependent" not in r.violated:
            raise MachineryError("self-test failed: WorldIndependent not violated by mechanism %s" % mechname)
    return [(deviating, ("shared_index_by_depth",)), (deviating, ("memo_handout",))] + \
           [(faithful, (kind, consts)) for kind, consts in T["world"]["mech"]]


# ---------------------------------------------------------------------------------
def _export(ctx, kind, job):
    c = dict(job["consts"], Kind=kind, Deviation="none", DoExport=True, KMode=job["kmode"])
    kw = {}
    if job["num"]:
        kw = dict(simulate="num=%d" % job["num"], extra=["-depth", "80", "-seed", str(ctx.seed + 11)])
    r = ctx.tlc("HtmMatchMC.tla", what="export %s lives [%s]" % (job["name"], kind),
                cfg_text=cfg(constants=c, next_="NextExport", constraints=["Export"]),
                workers=1, coverage=False, timeout=3000, **kw)
    lives = r.records.get("CASE", [])
    if not lives:
        raise MachineryError("no lives exported by %s [%s]" % (job["name"], kind))
    seen, out = set(), []
    for life in lives:
        key = json.dumps(life, sort_keys=True)
        if key not in seen:
            seen.add(key)
            if not life.get("scale"):
                life.pop("scale", None)
            out.append(dict(life, eps_hint="smallest") if job["name"] == "micro" else life)
    return out


def run(ctx):
    T = TIERS[ctx.tier]
    only = getattr(ctx, "only", None)
    _tmpfile("init")
    try:
        _run(ctx, T, only)
    finally:
        _cleanup_tmp()


class _Stats:
    def __init__(self):
        self.next_lid = 1
        self.by_origin = {}
        self.executions = 0
        self.calls = 0
        self.pairs = 0
        self.rejected = 0
        self.cover = {"depth": {}, "flavour": {}, "layout": {}, "via": {}, "eps": {}}
        self.scale_cases = 0              # scale cases executed / those whose small call has a group of >= 2 pairs
        self.scale_multi = 0
        self.dense = 0                    # executions with >= 256 matcher points
        self.probe = {}                   # calls picked for the binding self-test (find_probe)


def process(ctx, T, st, items, chunk=30000):
    """items: (origin, life, number of concretisations).  Execute the lives on the real code and let TLC judge
    what came back, chunk by chunk (memory)."""
    for c0 in range(0, len(items), chunk):
        lives, work, names = {}, [], {}
        for name, life, nvariants in items[c0:c0 + chunk]:
            lid = st.next_lid
            st.next_lid += 1
            lives[lid] = life
            names[name] = names.get(name, 0) + 1
            st.by_origin[name] = st.by_origin.get(name, 0) + 1
            for vi, var in enumerate(plan_variants(life, lid, ctx.seed, T, nvariants)):
                work.append((lid, vi, life, var))
        name = "+".join(sorted(names))
        results = pmap(exec_variant, work)
        cv = st.cover
        for r in results:
            ctx.count({"life": lives[r["lid"]], "var": r["var"]})
            st.calls += len(r["calls"])
            for key in ("depth", "flavour", "layout"):
                cv[key][r["var"][key]] = cv[key].get(r["var"][key], 0) + 1
            cv["eps"][str(r["var"]["eps"])] = cv["eps"].get(str(r["var"]["eps"]), 0) + 1
            for c in r["calls"]:
                cv["via"][c["via"]] = cv["via"].get(c["via"], 0) + 1
                st.pairs += len(c["m1"])
            if "scale" in r:
                st.scale_cases += 1
                st.scale_multi += any(len(c["m1"]) > len(set(c["m1"])) for c in r["calls"])
                ctx.evaluations += 1
            st.dense += len(lives[r["lid"]]["p2"]) >= 256
        ctx.evaluations += sum(len(r["calls"]) for r in results) - len(results)
        st.executions += len(results)
        if len(ctx.samples) < 5 and results:
            r = results[len(results) // 3]
            ctx.sample({"origin": name, "life": {"kind": lives[r["lid"]]["kind"], "p2": lives[r["lid"]]["p2"]}, "variant": r["var"],
                        "calls": [{k: c[k] for k in ("p1", "rad", "k", "via", "m1", "m2", "d")} for c in r["calls"][:2]]})
        if len(st.probe) < 2:
            find_probe(lives, results, st.probe)
        st.rejected += judge(ctx, lives, results, "judge executed %s lives (HtmMatchTrace)" % name)
        ctx.log("%s: %d lives; %d executions, %d match calls so far" % (name, len(lives), st.executions, st.calls))


def _run(ctx, T, only):
    # 1. design level: mechanism refines the property; the matcher state is frozen; the spec is satisfiable
    def mech(kind, consts):
        c = dict(consts, Kind=kind, Deviation="none", DoExport=False, KMode="each")
        return ctx.tlc("HtmMatchMC.tla", what="mechanism refines property, state frozen [%s %s%s]" %
                       (kind, consts["Scope"], " per-point radii" if consts["PerPoint"] else ""),
                       cfg_text=cfg(constants=c, invariants=["MechRefines", "RefAccepted"] +
                                    (["AcceptLawHolds"] if (not ctx.quick or consts["Scope"] == "h") else []),
                                    properties=["StateFrozen"]),
                       workers=8, require=["AddP2", "New", "AddP1", "SelfCall", "ChooseRad", "ChooseK", "MechStep", "MechDone"] +
                       (["Overwrite"] if consts["MaxOw"] else []),
                       timeout=3000)

    def selftest(dev):
        c = dict(Scope="q", MaxN2=2, MaxN1=2, MaxCalls=1, PerPoint=False, Kind="rs" if dev == "truncate_unsorted" else "gc",
                 Deviation=dev, DoExport=False, KMode="each", MaxOw=0, ScaleN=set())
        r = ctx.tlc("HtmMatchMC.tla", what="self-test: deviation %s violates MechRefines" % dev,
                    cfg_text=cfg(constants=c, invariants=["MechRefines"]), workers=1, allow_violation=True, coverage=False)
        if "MechRefines" not in r.violated:
            raise MachineryError("self-test failed: MechRefines not violated by deviation %s" % dev)

    mech_pool, mech_futs = ThreadPoolExecutor(2), []        # runs beside the exports and the executions below
    if not only or "mech" in only:
        mech_futs = [mech_pool.submit(selftest, dev) for dev in ("lossy_cover", "truncate_unsorted", "fastpath_strict")]
        mech_futs += [mech_pool.submit(mech, kind, consts) for consts in T["mech"] for kind in ("gc", "rs")]
    if not only or "world" in only:
        mech_futs += [mech_pool.submit(fn, *args) for fn, args in world_mech(ctx, T)]
    try:
        _conformance(ctx, T, only)
        for f in mech_futs:
            f.result()
    finally:
        mech_pool.shutdown(wait=True, cancel_futures=True)


def _conformance(ctx, T, only):

    # 2. export the lives of the machine (spec -> code), execute them, judge what came back (code -> spec)
    st = _Stats()
    jobs = [(job, kind) for job in T["jobs"] if (not only or job["name"] in only)
            for kind in job.get("kinds") or (("gc",) if job["consts"]["Scope"] in ("m", "d") else ("gc", "rs"))]
    with ThreadPoolExecutor(4) as ex:
        futs = [ex.submit(_export, ctx, kind, job) for job, kind in jobs]
        exported = [f.result() for f in futs]
    items = [(job["name"], life, job["variants"]) for (job, kind), ls in zip(jobs, exported) for life in ls]
    nexported = len(items)
    # 3. seeded larger lives over the full lattices (code -> spec)
    if not only or "seeded" in only:
        items += [("seeded", life, T["seeded_variants"]) for life in seeded_lives(ctx.seed, T["seeded"], T["seeded_n"])]
    process(ctx, T, st, items)
    wstats = world_step(ctx, T, only) if (not only or "world" in only) else None
    if only and st.executions == 0 and wstats:
        return
    if st.executions == 0:
        raise MachineryError("nothing executed")
    cover = st.cover
    if not only:
        for d in T["depths"]:
            if not cover["depth"].get(d):
                raise MachineryError("depth %d never exercised" % d)
        for key, names in (("flavour", FLAVOURS), ("layout", hl.LAYOUTS), ("via", ["mem", "file"])):
            for nm in names:
                if not cover[key].get(nm):
                    raise MachineryError("%s %s never exercised" % (key, nm))
    if not only and (st.scale_multi < 1 or st.dense < 10):
        raise MachineryError("vacuous: %d scale cases with a multi-pair group, %d dense executions" % (st.scale_multi, st.dense))
    if st.pairs < st.executions:
        raise MachineryError("vacuous: only %d pairs returned over %d executions" % (st.pairs, st.executions))
    # 4. off the lattices: relations between implementation outputs
    noff, offbad, offstats = 0, [], {"pairs": 0, "families": {}}
    if not only or "off" in only:
        args = [(ctx.seed * 1000003 + 7 * t + 1, T["off_n"], T["trixel_budget"], T["depths"]) for t in range(T["off"])]
        for res in pmap(off_case, args):
            if res is None:
                continue
            noff += 1
            if res.get("ok"):
                offstats["pairs"] += res["npairs"]
                offstats["families"][res["family"]] = offstats["families"].get(res["family"], 0) + 1
            else:
                offbad.append(res)
        ctx.evaluations += noff
        ctx.log("off-lattice relations: %d cases, %d pairs, %d broken" % (noff, offstats["pairs"], len(offbad)))
        nok = noff - len(offbad)
        if noff < T["off"] // 2 or offstats["pairs"] < nok:
            raise MachineryError("off-lattice step vacuous: %d cases, %d pairs" % (noff, offstats["pairs"]))
        seen = {}
        for b in offbad:
            sig = "match|%s|offlattice" % b["relation"]
            seen[sig] = seen.get(sig, 0) + 1
            if seen[sig] <= 4:
                ctx.violation(sig, "relation %s between two results of the real code is broken (family %s, depth %s)" %
                              (b["relation"], b["family"], b.get("depth")), b)
    # 5. binding self-test: corrupted observations must be rejected, the untouched twin accepted
    if not only or "selftest" in only:
        selftest_binding(ctx, st.probe)
    ctx.rule = ("every life (matcher set, then a sequence of match calls) of HtmMatchMC.tla within the tier's bounds on both "
                "lattices: single calls swept over every maxmatch of {-1,0,1,2,3,largest group+1}; exhaustive 2-call lives over "
                "the tiny catalogue; micro-degree radii (eps = 1e-7 deg); %d simulated lives per lattice over the large "
                "catalogue; plus %d seeded lives over the full lattices (414 rational-sphere points; clustered / micro / "
                "spread great-circle families; up to %d points per set); each life executed under 1-2 concretisations drawn "
                "from 8 great circles x eps / 8 octahedral images, depths %s (bounded by the intersection cost for large "
                "radii), Matcher / one-shot, 6 array representations, memory / file, tie-snapped radii, shared work "
                "buffers; lives with Overwrite events (caller overwrites the matcher's source arrays in place) exhaustive "
                "over the tiny catalogue; dense matcher sets (>= 256 occupied triangles, covers of hundreds of triangles); "
                "scale cases (first set tiled to 20000..262145 points, judged through the concatenation law from the "
                "small call); world sessions of HtmMatchWorld.tla (2-3 matcher objects of different depths + one-shot calls + "
                "Scribble / Drop steps interleaved in one process: exhaustive to 3-4 events over the tiny catalogue, simulated "
                "to 7-9 events over a wider one), every call judged on its own object; a case is distinct by (abstract life, "
                "concretisation) and non-trivial always (>= 1 point in each set)" %
                ([j["num"] for j in T["jobs"] if j["num"]][0], T["seeded"], T["seeded_n"], T["depths"]))
    ctx.exhaustive = True
    ctx.note(bounds={"mech": T["mech"], "jobs": T["jobs"]}, exported_lives=nexported, lives_by_origin=st.by_origin,
             executions=st.executions, match_calls=st.calls, pairs_returned=st.pairs,
             rejected_executions=st.rejected, coverage_of_concretisations=cover, scale_cases=st.scale_cases,
             scale_cases_with_multi_pair_groups=st.scale_multi, dense_executions=st.dense, offlattice_cases=noff, offlattice=offstats,
             offlattice_broken=len(offbad), separation_tolerance_deg="1e-9", world_sessions=wstats)
    ctx.trusted_base += ["float(Fraction) correctly rounded; one longdouble atan2/asin/acos per rational-sphere input (vh.htmlat)",
                         "projection of reported separations onto lattice values with Fraction / longdouble arithmetic (vh.htmlat)"]
    ctx.assumptions = [
        "radii are 0 or within [1e-6, 180] degrees (the statement's range); pairs exactly on the radius are unconstrained "
        "(the lattices make every other pair >= 5e-8 degree / >= 1e-5 rad away from it)",
        "'reported separation equal to the true one' is read at 1e-9 degree (the statement's own resolution)",
        "depth independence for radii above ~1 degree is exercised only at the depths whose intersection lists stay below the "
        "cost budget (depth <= 5..8 for radii of 90..180 degrees)",
        "off both lattices only relations between implementation outputs are compared (no oracle in general position)",
        "maxmatch <= 0 means all (documented); array sizes that disagree are outside the statement",
        "whether a pair exactly on the radius is returned stays open, except bit-identical points at radius 0 (d = 0 <= 0); "
        "'the k closest pairs of each group' is read against the unlimited answer of the same matcher on the same inputs",
        "float32 inputs only where every coordinate is exactly representable (the lattice oracle needs exact inputs)"]


def find_probe(lives, results, probe):
    """probe["all"]: an accepted-looking in-memory unlimited call with >= 2 pairs (to corrupt);
    probe["lim"]: a maxmatch=1 call that really truncates, with its unlimited twin"""
    for r in results:
        life = lives[r["lid"]]
        if life["kind"] != "gc":
            continue
        for n, c in enumerate(r["calls"]):
            odd = all(rr[1] % 2 == 1 for rr in c["rad"])     # odd half-steps: no pair of the call lies on the radius
            if c["err"] != "none" or c["via"] != "mem" or not odd or not all(x["on"] for x in c["d"]):
                continue
            if "all" not in probe and c["k"] <= 0 and len(c["m1"]) >= 2:
                probe["all"] = (life, r, n)
            if "lim" not in probe and c["k"] == 1 and c["hasall"] and len(c["all1"]) > len(c["m1"]) >= 1:
                probe["lim"] = (life, r, n)
        if len(probe) == 2:
            return


def selftest_binding(ctx, probe):
    if "all" not in probe or "lim" not in probe:
        raise MachineryError("binding self-test: no executed unlimited call with >= 2 pairs / no truncating maxmatch=1 call")
    life, r, n = probe["all"]
    life2, r2, nl = probe["lim"]

    def rec(i, calls, lf=None):
        lf = lf or life
        return {"id": i, "kind": lf["kind"], "p2": lf["p2"], "ident": bool(lf.get("ident", True)), "calls": calls}

    def mutate(fn, src=None, at=None):
        calls = json.loads(json.dumps((src or r)["calls"]))
        fn(calls[n if at is None else at])
        return calls

    def drop_first_of_unlimited(c):       # the twin now starts with the second-closest pair: the limited result is no prefix
        g = c["m1"][0]
        t = c["all1"].index(g)
        del c["all1"][t], c["all2"][t]
    probes = [rec(1, r["calls"]),
              rec(2, mutate(lambda c: (c["m1"].pop(), c["m2"].pop(), c["d"].pop()))),          # a pair dropped
              rec(3, mutate(lambda c: c["d"][0].update(v=[c["d"][0]["v"][0] + 1, c["d"][0]["v"][1]]))),   # wrong separation
              rec(4, mutate(lambda c: (c["m1"].append(c["m1"][-1]), c["m2"].append(c["m2"][-1]), c["d"].append(c["d"][-1])))),
              rec(5, mutate(lambda c: (c["m1"].reverse(), c["m2"].reverse(), c["d"].reverse())))
              if len(set(r["calls"][n]["m1"])) > 1 else rec(5, mutate(lambda c: c.update(err="ValueError"))),
              rec(6, mutate(drop_first_of_unlimited, src=r2, at=nl), life2), rec(7, r2["calls"], life2)]
    saved = ctx.traces
    rej = tracecheck.validate(ctx, "HtmMatchTrace.tla", probes, what="self-test: corrupted records rejected", workers=1)
    ctx.traces = saved
    want = {2: ("missing_pair", n), 3: ("separation", n), 4: ("pair_repeated", n), 6: ("limited_not_prefix_of_unlimited", nl)}
    for i, (w, at) in want.items():
        if i not in rej or not any(cl.startswith(w) and nn == at + 1 for nn, cl in (tuple(x) for x in rej[i])):
            raise MachineryError("binding self-test failed: probe %d (%s) gave %s" % (i, w, rej.get(i)))
    if 5 not in rej:
        raise MachineryError("binding self-test failed: probe 5 not rejected")
    if 1 in rej or 7 in rej:
        # an untouched record may only be rejected if the real run rejected it too (then a violation is already reported)
        if not any(v[0].startswith("match") for v in ctx.violations):
            raise MachineryError("binding self-test failed: untouched record rejected: %s %s" % (rej.get(1), rej.get(7)))


# ---------------------------------------------------------------------------------
def replay(ctx, case):
    _tmpfile("init")
    try:
        if case.get("kind") == "offlattice":
            res = off_relations({k: v for k, v in case.items() if k not in ("relation", "depth", "other_depth", "error", "group", "flavour", "limit")})
            print("replay observed:", {k: v for k, v in res.items() if k in ("ok", "relation", "depth", "error", "npairs")})
            if not res.get("ok"):
                ctx.violation("match|%s|offlattice" % res["relation"], "relation %s broken on replay" % res["relation"], case)
            return
        if case.get("kind") == "session":
            # the whole session again, in this (fresh) process
            sess, var = case["session"], case["var"]
            r = exec_session((1, 0, sess, var))
            for n in sorted(r["calls"]):
                c = r["calls"][n]
                print("replay event %d (%s): k=%d via=%s err=%s m1=%s m2=%s" % (n, sess["events"][n - 1]["op"], c["k"], c["via"],
                                                                            c["err"], c["m1"], c["m2"]))
            judge_sessions(ctx, {1: sess}, [r], "replay session")
            return
        life, var = case["life"], case["var"]
        r = exec_variant((1, 0, life, var))
        for n, c in enumerate(r["calls"], 1):
            print("replay call %d: k=%d via=%s err=%s m1=%s m2=%s d=%s" % (n, c["k"], c["via"], c["err"], c["m1"], c["m2"],
                                                                       [(x["on"], x["v"]) for x in c["d"]]))
        judge(ctx, {1: life}, [r], "replay")
    finally:
        _cleanup_tmp()
